"""apply one repair to /repo, run the unedited suite, commit as 'fix: ...' or roll back.
   python3 tools/applyfix.py <diff-file>|- "<commit message>"   ('-' = the working tree is already edited)"""
import subprocess
import sys

diff, msg = sys.argv[1], sys.argv[2]
assert msg.startswith('fix:')
if diff != '-':
    r = subprocess.run(['git', '-C', '/repo', 'apply', '--recount', '--whitespace=nowarn', __import__('os').path.abspath(diff)], capture_output=True, text=True)
    if r.returncode:
        print('APPLY FAILED', r.stderr[-600:])
        sys.exit(1)
r = subprocess.run(['/venv/bin/python', '-m', 'pytest', '-q', '-p', 'no:cacheprovider', '-x'], cwd='/repo',
                   capture_output=True, text=True)
last = r.stdout.strip().splitlines()[-1] if r.stdout.strip() else r.stderr[-300:]
print(last)
if ' passed' in last and 'failed' not in last and 'error' not in last:
    subprocess.run(['git', '-C', '/repo', 'commit', '-qam', msg], check=True)
    print(subprocess.run(['git', '-C', '/repo', 'log', '--oneline', '-1'], capture_output=True, text=True).stdout.strip())
else:
    print(r.stdout[-1500:])
    subprocess.run(['git', '-C', '/repo', 'checkout', '--', '.'])
    print('ROLLED BACK')
    sys.exit(1)
