"""print the catch matrix of the seeded changes (markdown) from seeded/*/meta.json"""
import glob
import json
import os
import sys

rows = []
for f in sorted(glob.glob('/verif/seeded/*/meta.json')):
    m = json.load(open(f))
    sid = os.path.basename(os.path.dirname(f))
    notes = m.get('needs_to_manifest', '')
    first = next((ln.strip('# *').strip() for ln in notes.splitlines() if ln.strip()), '')[:90]
    checks = m.get('checks', {})
    caught = ', '.join(f'{c}: {"caught" if v["caught"] else "MISSED (exit %s)" % v["exit"]}' for c, v in checks.items())
    keys = '; '.join(k.split(' count=')[0].replace('key=', '') for v in checks.values() for k in v.get('keys', [])[:2])
    hist = m.get('history', [])
    missed_before = bool(hist) if isinstance(hist, str) else any(
        not v.get('caught') for h in hist for c, v in h['checks'].items()
        if c == m['property'] or len(h['checks']) == 1)
    if len(sys.argv) > 1 and str(m.get('round', (m['n'] - 1) // 3 + 1)) != sys.argv[1]:
        continue
    rows.append(f'| {sid} | {first} | {"yes" if m.get("confirmed") else "NO"} | {caught} | '
                f'{"missed, check extended" if missed_before else "caught"} | {keys[:140]} |')
print('| seeded change | what it is | confirmed (suite green, demo fails) | quick tier now | first version of the check | first keys |')
print('|---|---|---|---|---|---|')
print('\n'.join(rows))
