"""print the catch matrix of the seeded changes (markdown) from seeded/*/meta.json"""
import glob
import json
import os

rows = []
for f in sorted(glob.glob('/verif/seeded/*/meta.json')):
    m = json.load(open(f))
    sid = os.path.basename(os.path.dirname(f))
    notes = m.get('needs_to_manifest', '')
    first = next((ln.strip('# *').strip() for ln in notes.splitlines() if ln.strip()), '')[:90]
    checks = m.get('checks', {})
    caught = ', '.join(f'{c}: {"caught" if v["caught"] else "MISSED (exit %s)" % v["exit"]}' for c, v in checks.items())
    keys = '; '.join(k.split(' count=')[0].replace('key=', '') for v in checks.values() for k in v.get('keys', [])[:2])
    rows.append(f'| {sid} | {first} | {"yes" if m.get("confirmed") else "NO"} | {caught} | {keys[:140]} |')
print('| seeded change | what it is | confirmed (suite green, demo fails) | quick tier | first keys |')
print('|---|---|---|---|---|')
print('\n'.join(rows))
