"""rebuild the 'fixed' entries of known_findings.json from the fix: commits of /repo (known entries are kept as they are)"""
import json
import subprocess

RULES = [
 ('set_value resets dependants', 'C01', 'stale-value/after-blank-write + stale-value/after-write-of-python-equal-value-of-other-type'),
 ('stored result for a formula cell built after', 'C01', 'stale-value/xlsx-stored-result-of-cell-built-after-write'),
 ('connect an unbounded range reference', 'C01', 'stale-value (SUM(A:A) ignored later writes); C04 declared-precedent-without-edge'),
 ('reset dependants through range nodes', 'C01', 'stale-value (intersection operands never re-evaluated)'),
 ('SUMPRODUCT returns a python number', 'C01', 'wrong-value/no-write-involved (numpy.int64 ignored by SUM); C14 result type'),
 ('range overlapping only part of a CSE', 'C05', 'rect-raises'),
 ('covers one cell or no cell of the used area', 'C05', 'unbounded-range-clipped-to-a-single-cell + unbounded-range-outside-the-used-area'),
 ('computes a cell which is built during the pass', 'C06', 'first-evaluate-returns-blank / first-use-differs/*'),
 ('CSE array formulas can be evaluated when iterative', 'C06', 'iterative-raises/cse + obtaining-the-iterative-model-raises/*/cse'),
 ('ranges are recomputed once per pass', 'C06', 'differs-after-set_value/* + result-outside-fixed-point-bound (cycle through SUM(range))'),
 ('iteration tracker has its settings', 'C07', 'first-call-on-a-fresh-thread-raises/iterative/* (also C03 fresh thread/process load)'),
 ('trim_graph keeps the range nodes', 'C08', 'output-differs/trimmed/after-assignment/range-input'),
 ('trim_graph evaluates a formula before freezing', 'C08', 'output-differs/trimmed/frozen/nothing-evaluated-before-trim'),
 ('trim_graph treats the cells of an input range', 'C08', 'output-differs/trimmed/after-assignment/range-input (dependants of member cells frozen)'),
 ('resolves to an already built range reuses', 'C08', 'set_value-on-input-raises/trimmed + output-differs (two graph nodes for one address)'),
 ('captured an error message raises a pycel error', 'C09', 'first-failure-is-not-a-pycel-error / second-failure-is-not-a-pycel-error (AssertionError)'),
 ('does not leave cells marked work in progress', 'C09', 'retry-returns-a-value/iterative/* + value-after-transient-failure-differs/iterative/*'),
 ('set_value on a formula cell holds in iterative', 'C09', 'after-repair-differs/*/iterative/*'),
 ('SUMPRODUCT computes with python numbers', 'C14', 'SUMPRODUCT/integer-result-beyond-int64'),
 ('wildcard patterns', 'C15', 'wildcard-criterion/non-text-cell-raises + regex-metachar-unescaped + newline-in-cell; C16 */wildcard/*'),
 ('criterion containing a line feed', 'C15', 'criterion-with-newline/raises'),
 ('"<>pattern" criterion', 'C15', 'not-equal-criterion/wildcards-ignored'),
 ('SUMIF(S)/AVERAGEIF(S) return the error', 'C15', 'SUMIFS/error-in-selected-cells-raises + AVERAGEIFS/...'),
 ('MAXIFS/MINIFS return the error', 'C15', 'MAXIFS/error-string-fragment + MINIFS/...'),
 ('blank one cell sum range', 'C15', 'SUMIF-AVERAGEIF/blank-single-cell-range-taken-as-omitted-argument'),
 ('truncate a fractional index', 'C16', 'VLOOKUP|HLOOKUP/index-fractional + INDEX/row|column-fractional'),
 ('LOOKUP returns #REF!', 'C16', 'LOOKUP/vector-form/result-vector-shorter'),
 ('match type -1 skips blank', 'C16', 'MATCH/approx-desc/num/blank-ends'),
 ('MATCH accepts a one cell lookup array', 'C16', 'MATCH/single-cell-range'),
 ('only accept digits of their base', 'C18', 'X2*/illegal-text-accepted/*'),
 ('only accept plain decimal text', 'C18', 'DEC2X/illegal-text-accepted/*'),
 ('intersection and union propagate', 'C11', 'setop/error-operand-raises'),
 ("sheet name contains '!'", 'C11', 'roundtrip/sheetname-with-bang'),
 ('DATE counts days from the first', 'C17', 'DATE/day<=0 + DATE/result-past-9999-raises + EDATE/result-past-9999-raises'),
 ('EOMONTH returns #NUM!', 'C17', 'EOMONTH/result-before-1900-raises + last-day-of-december-9999-raises + result-past-9999-raises'),
 ('serial number past 9999', 'C17', 'YEAR-MONTH-DAY/serial-past-9999-raises + EDATE|EOMONTH/start-past-9999-raises'),
 ('round to the nearest second', 'C17', 'HMS/rounds-up-to-60-without-carry'),
 ('TRIM removes', 'C20', 'TRIM/keeps-leading-trailing'),
 ('FIND returns #VALUE!', 'C20', 'FIND/start-below-1'),
 ('TEXT rounds the decimal', 'C20', 'TEXT/half-even-or-binary-rounding'),
 ('numbers below 1e-4', 'C20', 'NUMBER-RENDERING/float-below-1e-4-in-exponent-notation'),
 ('ROUND with negative digits', 'C19', 'ROUND/negative-digits-half-even'),
 ('TRUNC truncates', 'C19', 'TRUNC/float-scaling'),
 ('MOD is n - d', 'C19', 'MOD/identity-broken-non-dyadic-divisor'),
 ('CEILING/FLOOR', 'C19', 'FLOOR*/CEILING*/non-dyadic-significance'),
 ('negative number to a fractional power', 'C10', 'power/complex-result'),
 ('too large for a float', 'C10', 'power/overflow-raises'),
 ('"TRUE" is not a number', 'C10', 'coercion/text-TRUE-FALSE-as-number'),
 ('inf, nan, Infinity', 'C10', 'coercion/text-inf-nan-as-number'),
 ('prefix minus binds tighter', 'C02', 'unary-minus-under-power'),
 ('text literals keep backslashes', 'C02', 'text-literal/backslash + text-literal/line-feed + text-literal/carriage-return'),
 ('extra_data twice writes the same bytes', 'C03', 'second-save-changes-the-text-file/with-extra_data/*'),
 ('outside of the BMP survives a json save', 'C03', 'value-differs-after-load/json (non-BMP text)'),
 ('unbounded range follows its bounded range in iterative', 'C06', 'differs-after-set_value/unbounded (SUM(A:A) ignored later writes in iterative mode)'),
 ('below an unbounded range does not leave', 'C09', 'retry-returns-a-value/iterative/*/under-unbounded-reference'),
 ('evaluated to "" is read as ""', 'C08', 'output-differs (the untrimmed xlsx twin was stale): a cached "" read as "no stored result" stopped the reset (C01 mechanism, found by the C08 thorough tier)'),
 ('showing the first cell of a range gives 0', 'C01', 'stale-value (a formula =A1:C1 over an empty first cell had the value None and blocked the reset)'),
 ('first cell of an array formula over a number', 'C05', 'range-from-array-formula-corner-over-other-cells'),
 ('range address follows set_value in iterative', 'C06', 'differs-after-set_value/input-or-range (evaluate of a range address stale in iterative mode)'),
 ('used area is a single cell can be resolved', 'C05', 'unbounded-range-clipped-to-a-single-cell (1x1 used area: AssertionError)'),
 ('freezes to convergence when iterative', 'C08', 'iterative/frozen-circular-block-not-converged/range (block read through a range frozen after one sweep)'),
 ('holds the values of the cells referred to', 'C05', 'real-workbook/value-depends-on-order-or-access-path/* (lookup.xlsx Offset!F43:I45 {=OFFSET(...)}: range address gave AddressRange objects, members gave values)'),
 ('left half built by a failed build', 'C01', 'stale-value + stale-value/xlsx-stored-result-of-cell-built-after-write (cell built before a failed build kept its stored result; its precedents were built after a write)'),
 ('rows and columns of an AddressRange list their own cells', 'C11', 'enumerate/rows-taken-first/wrong-cell + enumerate/cols-taken-first/wrong-cell (list(rng.rows) then reading the rows gave the last row every time)'),
 ('shows the value of the cell referred to also when', 'C05', 'order-dependent-value + sheetless-address-differs + *-of-addresses-differs (=INDIRECT("B1") / =OFFSET(A1,0,1) over a formula cell that was not evaluated before gave blank)'),
 ('member of that one array formula its place says', 'C05', 'range-over-two-array-formulas ({=A1:A2} next to {=A1:A2*10}, the same text over two targets)'),
 ('compares with the stored results of the workbook when iterative', 'C12', 'altered-cell-not-reported/* (workbook saved with iterative calculation on: precedents were recalculated before they were compared)'),
 ('is fitted to its range like any other result', 'C13', 'array-range-element-wrong/* ({=OFFSET(A1,0,0,2,4)} over a larger or smaller target read the neighbouring cells instead of repeating / filling with #N/A)'),
 ('written with leading zeros in a formula compiles', 'C02', 'number-literal/leading-zeros-* (=007, =ABS(007): python rejects the literal)'),
 ('takes a numpy number for the python number it holds', 'C10', 'arith/nonfinite-result + power/nonfinite-result + compare/result-type-numpy.bool (numpy.float64 operand: x/0 gave inf, a comparison gave numpy.bool)'),
 ('generator of addresses gives its values also when iterative', 'C05', 'generator-of-addresses-differs (workbook saved with iterative calculation on: the generator was used up by the first pass, evaluate returned ())'),
 ('written over a formula cell replaces the formula', 'C09', 'after-repair-differs/after-a-write-to-a-former-precedent/plain/* (the overwritten failing cell failed again after a write to a cell its former formula read)'),
 ('only a constant of the math module', 'C09', 'first-failure-is-not-a-pycel-error/*/nosuch-constant/* (=TAU(...): bare TypeError from inspect instead of UnknownFunction)'),
 ('look a reference up in the workbook of the formula which calls them', 'C07', 'result-differs-under-interleaving/cellref + stress-result-differs/cellref (CELL("contents", ref) read the cell of the workbook that loaded the function last)'),
 ('read from a yaml file is written again with all of its digits', 'C03', 'resave-content-differs/{yml,pkl} (1.152921504606847e+18 saved, loaded and saved again became ...846e+18)'),
 ('writes the pickle again when the text file was saved on its own', 'C03', 'file-written-by-to_file-holds-an-older-model/pkl (to_file(); set_value; to_file(yml); to_file(): the pickle still held the first state)'),
 ('numpy number handed to a math function is the python number', 'C19', '*/exception-InvalidOperation (ROUND / CEILING / FLOOR family with a numpy.float64 argument: Decimal(repr(x)) cannot read numpy 2\'s repr)'),
 ('left unconnected are connected by the next evaluate', 'C01', 'stale-value (a build fails while good precedents are queued; everything they read is already in the model, so no later build made their edges)'),
 ('shows a reference is not left work in progress', 'C09', 'retry-returns-a-value/iterative/*/under-reference-valued-cell (=OFFSET(A1,0,0) over a failing cell answered None on the retry; opened by 34b6f28)'),
 ('newer text file of the other kind may be what it was made from', 'C03', 'file-written-by-to_file-holds-an-older-model/pkl (to_file(pkl+yml); set_value; to_file(pkl+json); set_value back; to_file(pkl+yml): the pickle still held the json state)'),
 ('drop the numpy import which the repair of floats', 'C03', 'resave-content-differs (follow-up of 0705fed: unused import)'),
 ('whole column reference onto the range of an array formula can be saved and loaded', 'C03', 'load-raises/same/{yml,json} + save-raises/pkl (=SUM(C:C) over the target of {=A1:A3*2}: AssertionError, the range was built twice)'),
 ('empty element of an array formula shows as 0 in the range', 'C05', 'array-formula-range-shows-blank-where-its-cell-shows-0 ({=A1:A3} with A2 empty: the cell D2 gave 0, the element of D1:D3 gave None)'),
 ('sheet name is quoted in a formula unless it is made of letters', 'C05', 'cell-raises-but-range-evaluates/cse (the member cells of an array formula on a sheet named Costs+1,2 / P&L / 2024: =index(Costs+1,2!C7:D8,1,1) is read as an expression)'),
 ('an array and an error value', 'C13', 'array-formula-member-not-pointwise/array-with-error-valued-scalar'),
 ('OFFSET emits its other arguments', 'C02', 'reference-call/offset-of-offset/* + reference-call/offset-*/name-with-() (the emitted code was cut at the first closing bracket)'),
 ('double quote in a sheet name', 'C02', 'reference-call/*/name-with-" (TokenError: the emitted python text literal ended at the quote)'),
 ('functions without meta data resolve', 'C14', '*/range-named-by-offset + */range-named-by-indirect (SUM(OFFSET(...)) = 0); C02 reference-call/reference-call-as-argument/*'),
 ('operator resolves a reference operand', 'C02', 'reference-call/reference-call-as-operand/* (OFFSET(...)+1 = #VALUE!)'),
 ('OFFSET with a height or width of zero', 'C01', 'real-workbook/stale-value (lookup.xlsx: after a write of 0 to the height of an array OFFSET the cell raised FormulaEvalError, a fresh model IndexError: the empty reference was fitted to the target); C03 real-workbook/save-or-load-raises (found by the thorough tier)'),
 ("inside of a quoted sheet name is kept", 'C02', "reference-call/*/name-with-$ (='US$'!A1 looked for a sheet named US: every $ of the reference text was dropped)"),
 ('not left work-in-progress when the build of the cell referred to fails', 'C09', 'retry-returns-a-value/iterative/*/under-reference-valued-cell/below-a-range (=INDIRECT("A1") over a cell not built yet whose range holds the failing cell: later evaluations returned None)'),
 ('queued by a failed build and then overwritten', 'C01', 'stale-value + stale-value/xlsx-stored-result-of-cell-built-after-write (after a failed build, set_value over a formula cell the build had queued: the written value was wiped by the next evaluate)'),
 ('sheet can be given to a sheet-less A:A', 'C05', "sheetless-unbounded-raises (evaluate('A:A') on the active sheet raised ValueError: the corner 'A' was parsed as a cell)"),
 ('intersect in one empty cell', 'C02', 'reference-call/intersection-in-one-blank-cell/* (=SUM(A5:C5 B4:B6) over an empty B5 raised FormulaEvalError: the one-cell result of the intersection was walked as a range; remark of a round 6 agent)'),
 ('range operator between two written references declares', 'C04', 'read-not-declared/range-operator + ancestors-miss-influencer/range-operator + influence-outside-ancestors/range-operator (=SUM((A1:B2):C3) reads A1:C3, only A1:B2 and C3 were declared: a write to C1 left it stale; remark of a round 6 agent)'),
]


def main():
    log = subprocess.run(['git', '-C', '/repo', 'log', '--format=%h %s', '--reverse'], capture_output=True,
                         text=True).stdout.strip().splitlines()
    fixes = [line.split(' ', 1) for line in log if line.split(' ', 1)[1].startswith('fix:')]
    path = '/verif/known_findings.json'
    kf = json.load(open(path))
    known = [f for f in kf['findings'] if f['status'] == 'known']
    fixed = []
    for h, subj in fixes:
        m = [r for r in RULES if r[0] in subj]
        assert len(m) == 1, (subj, m)
        _, prop, key = m[0]
        fixed.append({'property': prop, 'key': key, 'status': 'fixed', 'commit': h,
                      'what': f'fixed: property={prop} {h} {subj[5:]}'})
    kf['findings'] = known + fixed
    json.dump(kf, open(path, 'w'), indent=1)
    print(len(known), 'known', len(fixed), 'fixed')


if __name__ == '__main__':
    main()
