"""regenerate MANIFEST.json from the table below (python3 tools/gen_manifest.py)"""
import json
import os
import subprocess

HERE = os.path.dirname(os.path.dirname(os.path.abspath(__file__)))
RUN = 'env PYTHONPATH=/verif /venv/bin/python -m vp.cli'

CHECKS = {
    'C01': dict(
        technique='runtime monitoring: recorded set_value/evaluate/reload histories on the real ExcelCompiler, '
                  'checked after every operation against an executable model (from-scratch compile)',
        level='exploration',
        text='Thousands of generated histories per run over generated acyclic workbooks in all five ways a model is '
             'obtained; every evaluate (and every ground-truth dependant right after a write, in eager histories) is '
             'compared with a fresh compile. Held on the histories observed, not a proof.',
        note='oracle is pycel\'s own first evaluation on a new in-memory workbook; harness-side ground-truth '
             'dependency relation from the generator; histories keep the used area of sheets under unbounded '
             'references fixed (the growth case is a directed known finding)',
        design='DESIGN.md section 5 C01'),
    'C04': dict(
        technique='runtime monitoring: online trace containment over per-formula read events (repo hook H1) against '
                  'declared precedents and the live dependency graph; quiescent graph invariants; differential '
                  'influence test',
        level='exploration',
        text='Every read a formula makes while evaluating is attributed to that formula by the hook and checked at '
             'the moment of the read against needed_addresses and the graph predecessors (cell-level containment); '
             'after evaluation every declared precedent must have its edge and the ancestors must contain the '
             'generator\'s ground-truth influencers; perturbing an input in a fresh compile may only change '
             'formulas that have it as a graph ancestor. Held on the workbooks and value environments generated.',
        note='hook H1 wraps _C_/_R_ per formula; computed references (OFFSET/INDIRECT) are outside the statement',
        design='DESIGN.md section 5 C04'),
    'C05': dict(
        technique='runtime monitoring: differential observation of one cell over all first-evaluation orders and '
                  'all access paths of the real ExcelCompiler.evaluate',
        level='exploration',
        text='All n! first-evaluation orders for workbooks of up to 6 addresses (sampled beyond), then every access '
             'path (cell, repeat, enclosing rectangles, unbounded column/row forms, list/tuple/generator, sheet-less '
             'address), each also as the first access of a fresh model; all observations of a cell must agree '
             'type-strictly.',
        note='reference values are pycel\'s own raster-order evaluation',
        design='DESIGN.md section 5 C05'),
    'C06': dict(
        technique='runtime monitoring: iteration-pass events (hook H3), recording _CycleCell.value setter and a '
                  'counting plugin inside the cycle, checked against pass bound, last-pass movement and the numpy '
                  'fixed point; lock-step twin histories plain vs iterative',
        level='exploration',
        text='Contracting circular systems with a known fixed point under all (iterations, tolerance) settings '
             'requested through every channel pycel honours, every cell as first target; acyclic workbooks in lock '
             'step with their non-iterative twin along set_value histories. Liveness is restated as the bound '
             '"at most the requested passes".',
        note='true fixed point from numpy.linalg.solve; the monitor keeps its own per-pass record of cell values',
        design='DESIGN.md section 5 C06'),
    'C07': dict(
        technique='runtime monitoring under controlled scheduling: two OS threads driven through preemption points '
                  '(hooks H2/H3) by a baton scheduler following enumerated plans, plus stress with switch interval '
                  '1e-6 and sys.monitoring yield injection, plus fresh-thread first calls; oracle = solo run',
        level='exploration',
        text='No race detector exists for CPython code, so interleavings are produced deliberately: plans park both '
             'threads mid-evaluation at cell-evaluation granularity (the second workload to completion or to its k-th '
             'point inside the j-th point of the first). Each thread must return exactly its solo results and pass '
             'counts. Distinct interleavings observed are counted from the recorded (thread, event, cell) trace.',
        note='granularity below a cell evaluation is only reached by the randomised stress part',
        design='DESIGN.md section 5 C07, section 9 experiment 1'),
}

NOT_YET = {}


def main():
    with open(os.path.join(HERE, 'properties.jsonl')) as f:
        props = [json.loads(line) for line in f]
    hooks = subprocess.run(['git', '-C', '/repo', 'log', '--format=%h', '--grep=^verif hooks'],
                           capture_output=True, text=True).stdout.split()
    checks, na = [], []
    for p in props:
        pid = p['id']
        if pid in CHECKS and os.path.exists(os.path.join(HERE, 'vp', 'checks', pid.lower() + '.py')):
            c = CHECKS[pid]
            checks.append({
                'property_id': pid,
                'quick_cmd': f'{RUN} {pid} --tier quick',
                'thorough_cmd': f'{RUN} {pid} --tier thorough',
                'evidence_file': f'/verif/evidence/{pid}.json',
                'replay_cmd_template': f'{RUN} {pid} --replay {{path}}',
                'engine': 'vp',
                'level_claimed': {'category': c['level'], 'text': c['text'], 'design_ref': c['design']},
                'level_note': c['note'],
                'technique': c['technique'],
            })
        else:
            na.append({'property_id': pid, 'reason': NOT_YET.get(
                pid, 'check not built yet in this session (runtime monitoring applies; see DESIGN.md section 5)')})
    manifest = {
        'version': 1,
        'setup_cmd': '/venv/bin/python -m compileall -q vp >/dev/null 2>&1 || true',
        'hooks': {
            'guard': 'PYCEL_VERIF',
            'enable': 'PYCEL_VERIF=1 in the environment of every check process (set by vp.core); pycel is pure '
                      'Python and is imported from /repo/src (asserted in every shard)',
            'baseline_off_cmd': 'cd /repo && env -u PYCEL_VERIF /venv/bin/python -m pytest -ra -q '
                                '-p no:cacheprovider --timeout=900 --continue-on-collection-errors',
            'source_commits': hooks,
            'add_only': True,
        },
        'engines': [{'name': 'vp', 'path': '/verif/vp', 'serves_properties': [c['property_id'] for c in checks],
                     'kind_free_text': 'runtime monitoring harness: sharded workload generators, hooks/wrappers '
                                       'on the real pycel code, reference-model and history oracles'}],
        'checks': checks,
        'not_applicable': na,
        'notes': 'exit codes: 0 held on everything observed; 1 violation (VIOLATION line + replay file); '
                 '2 harness error; 3 inconclusive (deciding monitor not reached / watchdog). '
                 'VERIF_SEED selects the seed, VP_BUDGET overrides the per-shard time budget in seconds.',
    }
    with open(os.path.join(HERE, 'MANIFEST.json'), 'w') as f:
        json.dump(manifest, f, indent=1)
    print(f'{len(checks)} checks, {len(na)} not claimed')


if __name__ == '__main__':
    main()
