"""regenerate MANIFEST.json from the table below (python3 tools/gen_manifest.py)"""
import json
import os
import subprocess

HERE = os.path.dirname(os.path.dirname(os.path.abspath(__file__)))
RUN = 'env PYTHONPATH=/verif /venv/bin/python -m vp.cli'

CHECKS = {
    'C01': dict(
        technique='runtime monitoring: recorded set_value/evaluate/reload histories on the real ExcelCompiler, '
                  'checked after every operation against an executable model (from-scratch compile)',
        level='exploration',
        text='Thousands of generated histories per run over generated acyclic workbooks in all five ways a model is '
             'obtained; every evaluate (and every ground-truth dependant right after a write, in eager histories) is '
             'compared with a fresh compile. Held on the histories observed, not a proof.',
        note='oracle is pycel\'s own first evaluation on a new in-memory workbook; harness-side ground-truth '
             'dependency relation from the generator; histories keep the used area of sheets under unbounded '
             'references fixed (the growth case is a directed known finding)',
        design='DESIGN.md section 5 C01'),
    'C04': dict(
        technique='runtime monitoring: online trace containment over per-formula read events (repo hook H1) against '
                  'declared precedents and the live dependency graph; quiescent graph invariants; differential '
                  'influence test',
        level='exploration',
        text='Every read a formula makes while evaluating is attributed to that formula by the hook and checked at '
             'the moment of the read against needed_addresses and the graph predecessors (cell-level containment); '
             'after evaluation every declared precedent must have its edge and the ancestors must contain the '
             'generator\'s ground-truth influencers; perturbing an input in a fresh compile may only change '
             'formulas that have it as a graph ancestor. Held on the workbooks and value environments generated.',
        note='hook H1 wraps _C_/_R_ per formula; computed references (OFFSET/INDIRECT) are outside the statement',
        design='DESIGN.md section 5 C04'),
    'C05': dict(
        technique='runtime monitoring: differential observation of one cell over all first-evaluation orders and '
                  'all access paths of the real ExcelCompiler.evaluate',
        level='exploration',
        text='All n! first-evaluation orders for workbooks of up to 6 addresses (sampled beyond), then every access '
             'path (cell, repeat, enclosing rectangles, unbounded column/row forms, list/tuple/generator, sheet-less '
             'address), each also as the first access of a fresh model; all observations of a cell must agree '
             'type-strictly.',
        note='reference values are pycel\'s own raster-order evaluation',
        design='DESIGN.md section 5 C05'),
    'C06': dict(
        technique='runtime monitoring: iteration-pass events (hook H3), recording _CycleCell.value setter and a '
                  'counting plugin inside the cycle, checked against pass bound, last-pass movement and the numpy '
                  'fixed point; lock-step twin histories plain vs iterative',
        level='exploration',
        text='Contracting circular systems with a known fixed point under all (iterations, tolerance) settings '
             'requested through every channel pycel honours, every cell as first target; acyclic workbooks in lock '
             'step with their non-iterative twin along set_value histories. Liveness is restated as the bound '
             '"at most the requested passes".',
        note='true fixed point from numpy.linalg.solve; the monitor keeps its own per-pass record of cell values',
        design='DESIGN.md section 5 C06'),
    'C07': dict(
        technique='runtime monitoring under controlled scheduling: two OS threads driven through preemption points '
                  '(hooks H2/H3) by a baton scheduler following enumerated plans, plus stress with switch interval '
                  '1e-6 and sys.monitoring yield injection, plus fresh-thread first calls; oracle = solo run',
        level='exploration',
        text='No race detector exists for CPython code, so interleavings are produced deliberately: plans park both '
             'threads mid-evaluation at cell-evaluation granularity (the second workload to completion or to its k-th '
             'point inside the j-th point of the first). Each thread must return exactly its solo results and pass '
             'counts. Distinct interleavings observed are counted from the recorded (thread, event, cell) trace.',
        note='granularity below a cell evaluation is only reached by the randomised stress part',
        design='DESIGN.md section 5 C07, section 9 experiment 1'),
    'C08': dict(
        technique='runtime monitoring: lock-step twin run of an untrimmed and a trimmed (and trimmed+reloaded) model '
                  'under repeated re-assignment of all inputs; value comparison after every round',
        level='exploration',
        text='Generated workbooks x input sets (leaf cells, a buried formula cell, a range node) x output sets x '
             '{no-data, stored results} x {trim before/after evaluation} x {direct, yml/json/pkl round trip}; 4 rounds '
             'of assignments from the scalar pool, every output compared with the untrimmed twin each round and right '
             'after the trim (frozen values).',
        note='inputs are chosen so that trim_graph does not refuse them; buried inputs only where the untrimmed '
             'answer is order independent',
        design='DESIGN.md section 5 C08'),
    'C09': dict(
        technique='runtime monitoring with fault injection: each formula cell in turn made to fail (unknown function, '
                  'raising plugin) at every position; follow-up history observed at the public boundary; hook H2 and '
                  'transient-state walks recorded as suspects',
        level='fault_enumeration',
        text='Every formula cell of every generated workbook is made to fail in turn (3 fault kinds x 3 first-touch '
             'paths x plain/iterative, plus failures inside contracting cycles); retries, unrelated cells, a second '
             'independent failure and the repaired model are compared with fresh models and the exception classes '
             'are checked.',
        note='fault positions are enumerated per workbook; workbooks are sampled',
        design='DESIGN.md section 5 C09'),
    'C11': dict(
        technique='runtime monitoring: reference-model oracle (integer rectangles) over exhaustive small-grid and '
                  'sampled large inputs of the real address classes',
        level='exploration',
        text='Round trips through every printed form, A1/R1C1/tuple notations, enumeration and containment, and the '
             'lattice laws of & and ** over all pairs (and, in the thorough tier, all 10^6 triples) of rectangles '
             'of a 4x4 grid plus sampled large rectangles and hostile sheet names.',
        note='reference model vp/refmodel/rect.py written from the statement',
        design='DESIGN.md section 5 C11'),
    'C14': dict(
        technique='runtime monitoring: reference-model and metamorphic oracles (permutation, reshape, partition, '
                  'AVERAGE=SUM/COUNT, SUBTOTAL) over generated rectangles through worksheets and library wrappers',
        level='exploration',
        text='All small rectangles over a 41-value mixed-type pool (exhaustive 1x1..2x2/1x3), all 25 shapes x fill '
             'classes, sampled 5x5; exact Fraction arithmetic in the reference model.',
        note='permissive readings fixed in DESIGN.md: COUNT over error cells, order dependence of "first error"',
        design='DESIGN.md section 5 C14'),
    'C15': dict(
        technique='runtime monitoring: three-valued reference matcher plus metamorphic laws (IFS=IF, commutation, '
                  '=x/<>x partition, AVERAGEIFS=SUMIFS/COUNTIFS) over generated ranges and criteria',
        level='exploration',
        text='A complete (cell x criterion) table over the pools, fixed 5x3 ranges, shape mismatches and a sampled '
             'part with 1-3 criteria pairs; closed cases are asserted by value, open ones by totality and laws.',
        note='combinations the statement leaves open are never asserted by value (see the module docstring)',
        design='DESIGN.md section 5 C15'),
    'C16': dict(
        technique='runtime monitoring: linear-scan reference model returning the set of acceptable answers, plus '
                  'laws (VLOOKUP = INDEX at MATCH, VLOOKUP(t) = HLOOKUP(transpose t)) over generated vectors/tables',
        level='exploration',
        text='Enumerated mini-space (6-value pool, vectors up to 4, all table shapes), directed wildcard cases, '
             'index sweeps and a large sampled part; 2-4 % of cases through real workbooks.',
        note='unsorted data with match type +-1 is not generated; blank cells in data accept both readings',
        design='DESIGN.md section 5 C16'),
    'C17': dict(
        technique='runtime monitoring: closed-form calendar reference model over every serial day (thorough: all '
                  '2958466 days and all 86400 seconds, exhaustive) and generated DATE/EDATE/EOMONTH/YEARFRAC inputs',
        level='exploration',
        text='Thorough enumerates the whole calendar and the whole day; quick strides it with a seed-dependent step '
             'and a fixed boundary set. DATE normalisation, month shifts -1200..1200, YEARFRAC symmetry, '
             'H/M/S decomposition, #NUM! instead of exceptions.',
        note='reference model vp/refmodel/calendar.py self-checks against datetime at the start of every shard',
        design='DESIGN.md section 5 C17'),
    'C18': dict(
        technique='runtime monitoring: two\'s-complement reference model over the exhaustive binary range and '
                  'sampled octal/hex ranges, places 1..10 and illegal digit strings',
        level='exploration',
        text='All 1024 integers of the binary range as int/float/text with all places, all binary texts up to 11 '
             'characters, boundary and sampled octal/hex values, one illegal character at every position.',
        note='for negative numbers with places both readings (#NUM! or the 10 digit rendering) are accepted',
        design='DESIGN.md section 5 C18'),
    'C19': dict(
        technique='runtime monitoring: exact decimal/Fraction reference model over generated ties and near-ties '
                  'k/10^j, digits -6..6 and a signed significance pool',
        level='exploration',
        text='Ties and near-ties are generated exactly; ROUND/ROUNDUP/ROUNDDOWN/TRUNC/INT/MOD/CEILING*/FLOOR*/EVEN/ODD '
             'compared with the reference; float identities with the 8 ulp tolerance fixed in DESIGN.md.',
        note='MOD identity and bracket checks are tolerance based by design',
        design='DESIGN.md section 5 C19'),
    'C20': dict(
        technique='runtime monitoring: Python-slicing reference model and algebraic laws over exhaustive short strings '
                  'and generated numbers/format strings',
        level='exploration',
        text='All strings up to length 3 (quick) / 4 (thorough) over an alphabet with repeats, a space and multi-byte '
             'characters x all n, k in -1..10; TEXT over a grid of decimal mantissas x 160 formats.',
        note='empty and self-overlapping SUBSTITUTE needles are not generated',
        design='DESIGN.md section 5 C20'),
    'C02': dict(
        technique='runtime monitoring: generated parse trees rendered to Excel text (minimal / full parentheses, '
                  'whitespace and case variants), pushed through the real ExcelFormula compiler and evaluated; oracle '
                  '= independent evaluation of the tree with the C10 reference model, and agreement of all renderings',
        level='exploration',
        text='All depth <= 1 trees over 14 leaves, all one-operator-child depth 2 trees, function-call trees, all '
             'depth 3 chains in the thorough tier, sampled depth 4-6; text literals over a hostile alphabet, number '
             'spellings, logical and error literals; a well-formed formula that does not compile is a violation.',
        note='leaves are chosen so every intermediate is exact; results the C10 model leaves open are only checked for '
             'agreement between renderings',
        design='DESIGN.md section 5 C02'),
    'C03': dict(
        technique='runtime monitoring: lock-step twin run of a saved model and the model read back (same process, '
                  'fresh thread, fresh process) under recorded histories; byte hashes of repeated saves; parsed '
                  'content of re-saves; sys.addaudithook record of files opened',
        level='exploration',
        text='Generated workbooks with hostile constants x yml/json/pkl x cycles on/off x load site x user extra_data; '
             'every saved cell and every step of a post-load set_value/evaluate history is compared with the '
             'original; second save must be byte identical; iteration settings, file name, hash, extra_data must '
             'survive.',
        note='only cells present in the model at save time are compared (documented limitation of the file formats)',
        design='DESIGN.md section 5 C03'),
    'C10': dict(
        technique='runtime monitoring: independent reference model of Excel operator semantics and order laws over '
                  'the exhaustive pool^2 (pool^3 for transitivity) through the real operator function and through '
                  'real cells/literals',
        level='exploration',
        text='12 binary operators, unary minus and postfix % over a ~30 value pool covering every type, sign, '
             'numeric-looking text, blank and the seven error codes (exhaustive), trichotomy / complement / '
             'transitivity laws, hostile texts, sampled numbers and strings in the thorough tier.',
        note='magnitudes bounded (|x| <= 1e6, exponents <= 64); a huge exact int counts as a number',
        design='DESIGN.md section 5 C10'),
    'C12': dict(
        technique='runtime monitoring with fault injection into stored results: hand-written .xlsx files whose cached '
                  'formula results are consistent, then exactly one cached result altered at a time; the '
                  'validate_calcs report is checked against the alteration and the ground-truth dependants',
        level='fault_enumeration',
        text='Every formula cell reachable from the checked outputs in turn x alteration kind x tolerance x choice of '
             'outputs; unknown-function and raising-plugin cells must be reported, not skipped.',
        note='stored results are pycel\'s own fresh values; dependants come from the generator\'s ground truth; below '
             'the tolerance only "the altered cell itself is not listed" is asserted',
        design='DESIGN.md section 5 C12'),
    'C13': dict(
        technique='runtime monitoring: the lifting law checked position by position against pycel\'s own scalar path; '
                  'the fitting rule of the statement as reference model over all result x target shapes through real '
                  'array formula cells',
        level='exploration',
        text='All 256 (result shape, target shape) pairs <= 4x4 in every run (range value, every member cell, before '
             'and after a set_value), all operators over all operand shapes with scalar/row/column/row x column '
             'partners incl. error-valued scalars, 15 array-aware functions, a sample through real workbooks.',
        note='the scalar semantics themselves belong to C10/C19/C20',
        design='DESIGN.md section 5 C13'),
}

NOT_YET = {}


COMMON_NOTE = ('; every second shard does its work on a worker thread, after the main thread has imported pycel '
               '(nothing promised may depend on the importing thread); of every eight shards two log at DEBUG level, one '
               'keeps python\'s initial logging configuration, one turns the warnings of pycel\'s own modules into errors '
               '(nothing promised may depend on the logging level or on warnings not being errors)')
SUITE = ("; the last shard also runs the repository's own test-suite with the monitors of vp.suitemon attached (read containment and edges, span balance, pass bound, cached values against a fresh compile of the file) and turns what they see for this property into violations")
BIG = '; one case per four shards (quick) runs on a generated workbook of about 1 900 cells (vp.wbgen.big: a 90-140 cell chain, a 1000 cell block beyond column Z, a 300-600 row table, a dozen sheets, 32 000 character text, integers beyond 2**53)'
EXTRA_NOTES = {
    'C01': '; a share of the histories runs on the workbooks shipped with the repository (primed so that every value '
           'is computed); recalculate / value_tree_str / export_to_gexf are called in between and only the values of '
           'later evaluate calls are judged; four revisions of one workbook in one process whose defined names point '
           'elsewhere' + BIG + SUITE,
    'C03': '; also the shipped workbooks, sequences of saves of one model to one base name, floats with 16-17 digits' + BIG,
    'C04': '; also read traces of the shipped workbooks (OFFSET / INDIRECT cells exempt: computed references); builds '
           'that fail part-way with cells built before and after them, edges judged when each evaluate returns; a cell '
           'whose build failed evaluated again; a kept side branch evaluated after trim_graph' + BIG + SUITE,
    'C06': '; acyclic twins also hold reference-valued cells (=OFFSET(x,0,0)); one loop that needs more than 32 767 '
           'passes' + SUITE,
    'C05': '; also the shipped workbooks, acyclic workbooks saved with iterative calculation on, and a comparison '
           'of the in-process reference values with those of a forked child of a process that never saw a workbook '
           '(state that outlives a workbook)',
    'C07': '; interpreter-wide settings (recursion limit, switch interval, working directory) are sampled at every '
           'hook event and at quiescence; thread B works on a workbook with other values for value-carrying workloads; '
           'a third kind of scheduling point below the hooks: sys.monitoring LINE events of the library, every distinct '
           'statement a workload executes is a stop (sampled in the quick tier, all of them in the thorough tier)',
    'C08': '; also twin runs on the shipped workbooks, a trim that must be refused before the real one, an input that is '
           'also an output and has no dependants listed first',
    'C09': '; fault kinds also: NameError inside a plugin, unknown function named like a python keyword or like a '
           'constant of the math module; repair constants include 0; a write to a former precedent after the repair; '
           'faults injected into the shipped workbooks; faults at build time (a text that does not parse, a missing '
           'sheet); forty attempts on one failing chain' + SUITE,
    'C12': '; also workbooks saved with iterative calculation on, stored results computed by a pristine process, the '
           'shipped workbooks with one stored result altered in the file, formula_cells() listed first, two cells '
           'failing for the same reason; the formulas of one sheet as outputs (sheet=); a second run on the same '
           'compiler; the call asked to raise first' + BIG,
}


def main():
    with open(os.path.join(HERE, 'properties.jsonl')) as f:
        props = [json.loads(line) for line in f]
    hooks = subprocess.run(['git', '-C', '/repo', 'log', '--format=%h', '--grep=^verif hooks'],
                           capture_output=True, text=True).stdout.split()
    checks, na = [], []
    for p in props:
        pid = p['id']
        if pid in CHECKS and os.path.exists(os.path.join(HERE, 'vp', 'checks', pid.lower() + '.py')):
            c = CHECKS[pid]
            checks.append({
                'property_id': pid,
                'quick_cmd': f'{RUN} {pid} --tier quick',
                'thorough_cmd': f'{RUN} {pid} --tier thorough',
                'evidence_file': f'/verif/evidence/{pid}.json',
                'replay_cmd_template': f'{RUN} {pid} --replay {{path}}',
                'engine': 'vp',
                'level_claimed': {'category': c['level'], 'text': c['text'], 'design_ref': c['design']},
                'level_note': c['note'] + COMMON_NOTE + EXTRA_NOTES.get(pid, ''),
                'technique': c['technique'],
            })
        else:
            na.append({'property_id': pid, 'reason': NOT_YET.get(
                pid, 'check not built yet in this session (runtime monitoring applies; see DESIGN.md section 5)')})
    manifest = {
        'version': 1,
        'setup_cmd': '/venv/bin/python -m compileall -q vp >/dev/null 2>&1 || true',
        'hooks': {
            'guard': 'PYCEL_VERIF',
            'enable': 'PYCEL_VERIF=1 in the environment of every check process (set by vp.core); pycel is pure '
                      'Python and is imported from /repo/src (asserted in every shard)',
            'baseline_off_cmd': 'cd /repo && env -u PYCEL_VERIF /venv/bin/python -m pytest -ra -q '
                                '-p no:cacheprovider --timeout=900 --continue-on-collection-errors',
            'source_commits': hooks,
            'add_only': True,
        },
        'engines': [{'name': 'vp', 'path': '/verif/vp', 'serves_properties': [c['property_id'] for c in checks],
                     'kind_free_text': 'runtime monitoring harness: sharded workload generators, hooks/wrappers '
                                       'on the real pycel code, reference-model and history oracles'}],
        'checks': checks,
        'not_applicable': na,
        'notes': 'exit codes: 0 held on everything observed; 1 violation (VIOLATION line + replay file); '
                 '2 harness error; 3 inconclusive (deciding monitor not reached / watchdog). '
                 'VERIF_SEED selects the seed, VP_BUDGET overrides the per-shard time budget in seconds.',
    }
    with open(os.path.join(HERE, 'MANIFEST.json'), 'w') as f:
        json.dump(manifest, f, indent=1)
    print(f'{len(checks)} checks, {len(na)} not claimed')


if __name__ == '__main__':
    main()
