"""regenerate MANIFEST.json from the table below (python3 tools/gen_manifest.py)"""
import json
import os
import subprocess

HERE = os.path.dirname(os.path.dirname(os.path.abspath(__file__)))
RUN = 'env PYTHONPATH=/verif /venv/bin/python -m vp.cli'

CHECKS = {
    'C01': dict(
        technique='runtime monitoring: recorded set_value/evaluate/reload histories on the real ExcelCompiler, '
                  'checked after every operation against an executable model (from-scratch compile)',
        level='exploration',
        text='Thousands of generated histories per run over generated acyclic workbooks in all five ways a model is '
             'obtained; every evaluate (and every ground-truth dependant right after a write, in eager histories) is '
             'compared with a fresh compile. Held on the histories observed, not a proof.',
        note='oracle is pycel\'s own first evaluation on a new in-memory workbook; harness-side ground-truth '
             'dependency relation from the generator; histories keep the used area of sheets under unbounded '
             'references fixed (the growth case is a directed known finding)',
        design='DESIGN.md section 5 C01'),
}

NOT_YET = {}


def main():
    with open(os.path.join(HERE, 'properties.jsonl')) as f:
        props = [json.loads(line) for line in f]
    hooks = subprocess.run(['git', '-C', '/repo', 'log', '--format=%h', '--grep=^verif hooks'],
                           capture_output=True, text=True).stdout.split()
    checks, na = [], []
    for p in props:
        pid = p['id']
        if pid in CHECKS and os.path.exists(os.path.join(HERE, 'vp', 'checks', pid.lower() + '.py')):
            c = CHECKS[pid]
            checks.append({
                'property_id': pid,
                'quick_cmd': f'{RUN} {pid} --tier quick',
                'thorough_cmd': f'{RUN} {pid} --tier thorough',
                'evidence_file': f'/verif/evidence/{pid}.json',
                'replay_cmd_template': f'{RUN} {pid} --replay {{path}}',
                'engine': 'vp',
                'level_claimed': {'category': c['level'], 'text': c['text'], 'design_ref': c['design']},
                'level_note': c['note'],
                'technique': c['technique'],
            })
        else:
            na.append({'property_id': pid, 'reason': NOT_YET.get(
                pid, 'check not built yet in this session (runtime monitoring applies; see DESIGN.md section 5)')})
    manifest = {
        'version': 1,
        'setup_cmd': '/venv/bin/python -m compileall -q vp >/dev/null 2>&1 || true',
        'hooks': {
            'guard': 'PYCEL_VERIF',
            'enable': 'PYCEL_VERIF=1 in the environment of every check process (set by vp.core); pycel is pure '
                      'Python and is imported from /repo/src (asserted in every shard)',
            'baseline_off_cmd': 'cd /repo && env -u PYCEL_VERIF /venv/bin/python -m pytest -ra -q '
                                '-p no:cacheprovider --timeout=900 --continue-on-collection-errors',
            'source_commits': hooks,
            'add_only': True,
        },
        'engines': [{'name': 'vp', 'path': '/verif/vp', 'serves_properties': [c['property_id'] for c in checks],
                     'kind_free_text': 'runtime monitoring harness: sharded workload generators, hooks/wrappers '
                                       'on the real pycel code, reference-model and history oracles'}],
        'checks': checks,
        'not_applicable': na,
        'notes': 'exit codes: 0 held on everything observed; 1 violation (VIOLATION line + replay file); '
                 '2 harness error; 3 inconclusive (deciding monitor not reached / watchdog). '
                 'VERIF_SEED selects the seed, VP_BUDGET overrides the per-shard time budget in seconds.',
    }
    with open(os.path.join(HERE, 'MANIFEST.json'), 'w') as f:
        json.dump(manifest, f, indent=1)
    print(f'{len(checks)} checks, {len(na)} not claimed')


if __name__ == '__main__':
    main()
