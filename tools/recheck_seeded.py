"""re-run the quick tier of the catching check(s) against every seeded change on the current tree.

  python3 tools/recheck_seeded.py [--only C01,C07] [--jobs 3]  ->  one line per change: caught / MISSED / patch does not apply

The demonstrations and the test-suite are not run again (tools/seedtest.py did that when the change was confirmed);
a patch that no longer applies because a later repair touched the same lines is reported, not counted as missed.
Writes nothing under seeded/."""
import concurrent.futures
import glob
import json
import os
import subprocess
import sys
import tempfile

PY = '/venv/bin/python'


def run(cmd, **kw):
    return subprocess.run(cmd, capture_output=True, text=True, **kw)


def one(path):
    sid = os.path.basename(path)
    meta = json.load(open(os.path.join(path, 'meta.json')))
    checks = [c for c, v in meta.get('checks', {}).items() if v.get('caught')] or [meta['property']]
    wt = tempfile.mkdtemp(prefix='wt-recheck-')
    os.rmdir(wt)
    run(['git', '-C', '/repo', 'worktree', 'add', '-q', '--detach', wt, 'HEAD'])
    try:
        a = run(['git', '-C', wt, 'apply', '--whitespace=nowarn', os.path.join(path, 'patch.diff')])
        if a.returncode:
            # later repairs moved the context: try with fuzz before giving up
            a = run(['patch', '-p1', '--fuzz=3', '--no-backup-if-mismatch', '-i', os.path.join(path, 'patch.diff')],
                    cwd=wt)
            if a.returncode:
                return sid, 'patch does not apply', ''
        out = []
        caught = False
        for c in checks:
            env = dict(os.environ, VP_REPO=wt, PYTHONPATH='/verif', VP_NO_EVIDENCE='1')
            k = run([PY, '-m', 'vp.cli', c, '--tier', 'quick'], cwd='/verif', env=env)
            caught = caught or k.returncode == 1
            out.append(f'{c}: exit {k.returncode}')
        return sid, 'caught' if caught else 'MISSED', ', '.join(out)
    finally:
        run(['git', '-C', '/repo', 'worktree', 'remove', '--force', wt])


def main():
    args = sys.argv[1:]
    only = None
    jobs = 2
    if '--only' in args:
        only = args[args.index('--only') + 1].split(',')
    if '--jobs' in args:
        jobs = int(args[args.index('--jobs') + 1])
    paths = sorted(p for p in glob.glob('/verif/seeded/*') if os.path.isdir(p) and
                   (only is None or os.path.basename(p).split('-')[0] in only or os.path.basename(p) in only))
    tally = {}
    with concurrent.futures.ThreadPoolExecutor(jobs) as ex:
        for sid, verdict, detail in ex.map(one, paths):
            tally[verdict] = tally.get(verdict, 0) + 1
            print(f'{sid}: {verdict} {detail}', flush=True)
    print(tally)


if __name__ == '__main__':
    main()
