"""confirm a seeded property-breaking change and run the checks against it.

  python3 tools/seedtest.py C01 1 [--src /tmp/mut-C01-out/1] [--checks C01,C04] [--keep]

steps: demo passes on /repo; patch applies to a scratch worktree of /repo HEAD; demo fails there; the unedited suite
passes there; the property's quick check (and any extra checks) run against it through VP_REPO.  Results go to
/verif/seeded/<id>-<n>/meta.json together with patch.diff, demo.py and notes.md.  The worktree is always removed."""
import json
import os
import shutil
import subprocess
import sys
import tempfile
import time

PY = '/venv/bin/python'


def run(cmd, **kw):
    return subprocess.run(cmd, capture_output=True, text=True, **kw)


def baseline(check, head):
    """exit code and violation keys of the check on the unchanged tree (cached per repository commit and per state of
    /verif's working tree)"""
    state = run(['git', '-C', '/verif', 'rev-parse', '--short', 'HEAD']).stdout.strip() + '-' + str(
        abs(hash(run(['git', '-C', '/verif', 'diff', '--', 'vp']).stdout)) % 10 ** 8)
    path = os.path.join(tempfile.gettempdir(), f'seedtest-baseline-{head}-{state}-{check}.json')
    if os.path.exists(path):
        return json.load(open(path))
    env = dict(os.environ, PYTHONPATH='/verif', VP_NO_EVIDENCE='1')
    k = run([PY, '-m', 'vp.cli', check, '--tier', 'quick'], cwd='/verif', env=env)
    keys = [ln.strip().split(' count=')[0] for ln in k.stdout.splitlines() if ln.strip().startswith('key=')]
    out = {'exit': k.returncode, 'keys': keys}
    with open(path, 'w') as f:
        json.dump(out, f)
    return out


def main():
    args = sys.argv[1:]
    prop, n = args[0], args[1]
    src = f'/tmp/mut-{prop}-out/{n}'
    checks = [prop]
    if '--src' in args:
        src = args[args.index('--src') + 1]
    rnd = int(args[args.index('--round') + 1]) if '--round' in args else None
    if '--checks' in args:
        checks = args[args.index('--checks') + 1].split(',')
    dest = f'/verif/seeded/{prop}-{n}'
    os.makedirs(dest, exist_ok=True)
    for f in ('patch.diff', 'demo.py', 'notes.md'):
        if os.path.abspath(src) != os.path.abspath(dest) and os.path.exists(os.path.join(src, f)):
            shutil.copy(os.path.join(src, f), os.path.join(dest, f))
    meta = {'property': prop, 'n': int(n), 'repo_head': run(['git', '-C', '/repo', 'rev-parse', '--short', 'HEAD']).stdout.strip(),
            'when': time.strftime('%Y-%m-%d %H:%M:%S')}
    if rnd is not None:
        meta['round'] = rnd
    notes = os.path.join(dest, 'notes.md')
    if os.path.exists(notes):
        meta['needs_to_manifest'] = open(notes).read()[:3000]
    demo = os.path.join(dest, 'demo.py')
    r = run([PY, demo], env=dict(os.environ, PYTHONPATH='/repo/src'), cwd=tempfile.gettempdir(), timeout=300)
    meta['demo_on_unchanged_tree'] = {'exit': r.returncode, 'tail': (r.stdout + r.stderr)[-300:]}
    wt = tempfile.mkdtemp(prefix='wt-seed-')
    os.rmdir(wt)
    run(['git', '-C', '/repo', 'worktree', 'add', '-q', '--detach', wt, 'HEAD'])
    try:
        a = run(['git', '-C', wt, 'apply', '--whitespace=nowarn', os.path.join(dest, 'patch.diff')])
        meta['patch_applies'] = a.returncode == 0
        if a.returncode:
            meta['apply_error'] = a.stderr[-500:]
        else:
            r = run([PY, demo], env=dict(os.environ, PYTHONPATH=os.path.join(wt, 'src')), cwd=tempfile.gettempdir(),
                    timeout=300)
            meta['demo_on_changed_tree'] = {'exit': r.returncode, 'tail': (r.stdout + r.stderr)[-300:]}
            t = run([PY, '-m', 'pytest', '-q', '-p', 'no:cacheprovider'], cwd=wt,
                    env=dict(os.environ, PYTHONPATH=os.path.join(wt, 'src')))
            meta['suite_on_changed_tree'] = t.stdout.strip().splitlines()[-1] if t.stdout.strip() else t.stderr[-200:]
            meta['checks'] = {}
            for c in checks:
                env = dict(os.environ, VP_REPO=wt, PYTHONPATH='/verif', VP_NO_EVIDENCE='1')
                k = run([PY, '-m', 'vp.cli', c, '--tier', 'quick'], cwd='/verif', env=env)
                keys = [ln.strip()[:300] for ln in k.stdout.splitlines() if ln.strip().startswith('key=')]
                verdict = [ln for ln in k.stdout.splitlines() if 'verdict=' in ln]
                # a violation only counts when the unchanged tree (same commit, same version of the check) is quiet
                base = baseline(c, meta['repo_head'])
                new_keys = [x for x in keys if x.split(' count=')[0] not in base['keys']]
                meta['checks'][c] = {'exit': k.returncode, 'caught': k.returncode == 1 and bool(new_keys or not keys),
                                     'keys': (new_keys or keys)[:8], 'baseline_exit': base['exit'],
                                     'summary': verdict[-1][:200] if verdict else k.stdout[-300:]}
        meta['what_was_run'] = ('demo.py with PYTHONPATH=/repo/src (unchanged) and <worktree>/src (changed); '
                                'pytest -q in the worktree with PYTHONPATH=<worktree>/src; '
                                f'python -m vp.cli {"/".join(checks)} --tier quick with VP_REPO=<worktree>')
    finally:
        run(['git', '-C', '/repo', 'worktree', 'remove', '--force', wt])
    confirmed = (meta.get('patch_applies') and meta['demo_on_unchanged_tree']['exit'] == 0 and
                 meta.get('demo_on_changed_tree', {}).get('exit') not in (0, None) and
                 ' passed' in str(meta.get('suite_on_changed_tree')) and 'failed' not in str(meta.get('suite_on_changed_tree')))
    meta['confirmed'] = bool(confirmed)
    old_path = os.path.join(dest, 'meta.json')
    if os.path.exists(old_path):
        # keep what earlier versions of the checks did with this change (misses are why checks were extended)
        old = json.load(open(old_path))
        if 'round' in old and 'round' not in meta:
            meta['round'] = old['round']
        hist = old.get('history', [])
        hist = [hist] if isinstance(hist, str) else hist
        if old.get('checks'):
            hist.append({'when': old.get('when'), 'repo_head': old.get('repo_head'),
                         'checks': {c: {'caught': v.get('caught'), 'keys': v.get('keys', [])[:2]}
                                    for c, v in old['checks'].items()}})
        if hist:
            meta['history'] = hist
    with open(os.path.join(dest, 'meta.json'), 'w') as f:
        json.dump(meta, f, indent=1)
    caught = {c: v['caught'] for c, v in meta.get('checks', {}).items()}
    print(f'{prop}-{n}: confirmed={meta["confirmed"]} suite="{meta.get("suite_on_changed_tree")}" '
          f'demo={meta["demo_on_unchanged_tree"]["exit"]}/{meta.get("demo_on_changed_tree", {}).get("exit")} caught={caught}',
          flush=True)


if __name__ == '__main__':
    main()
