"""which seeded changes do the monitors of vp.suitemon see while the repository's own (green) suite runs?

  python3 tools/suite_vs_seeded.py [--workers 6] [ids ...]   -> /tmp/suite_vs_seeded.json, one line per change"""
import concurrent.futures
import glob
import json
import os
import subprocess
import sys
import tempfile

PY = '/venv/bin/python'


def one(sid):
    d = f'/verif/seeded/{sid}'
    wt = tempfile.mkdtemp(prefix='wt-suite-')
    os.rmdir(wt)
    subprocess.run(['git', '-C', '/repo', 'worktree', 'add', '-q', '--detach', wt, 'HEAD'], capture_output=True)
    try:
        a = subprocess.run(['git', '-C', wt, 'apply', '--whitespace=nowarn', f'{d}/patch.diff'], capture_output=True)
        if a.returncode:
            return sid, {'applies': False}
        out = wt + '.json'
        env = dict(os.environ, PYCEL_VERIF='1', PYTHONPATH=f'{wt}/src:/verif', VP_SUITEMON_OUT=out)
        r = subprocess.run([PY, '-m', 'pytest', '-q', '-p', 'no:cacheprovider', '-p', 'vp.suitemon', 'tests'], cwd=wt,
                           env=env, capture_output=True, text=True, timeout=1200)
        res = json.load(open(out)) if os.path.exists(out) else None
        if os.path.exists(out):
            os.remove(out)
        tail = [ln for ln in r.stdout.splitlines() if ' passed' in ln or ' failed' in ln]
        return sid, {'applies': True, 'suite': tail[-1].strip() if tail else r.returncode,
                     'found': sorted({(f[0], f[1]) for f in res['found']}) if res else None,
                     'first': res['found'][:2] if res else None, 'errors': res['errors'][:1] if res else None}
    finally:
        subprocess.run(['git', '-C', '/repo', 'worktree', 'remove', '--force', wt], capture_output=True)


def main():
    args = sys.argv[1:]
    workers = 6
    if '--workers' in args:
        i = args.index('--workers')
        workers = int(args[i + 1])
        del args[i:i + 2]
    ids = args or sorted(os.path.basename(p) for p in glob.glob('/verif/seeded/C*-*'))
    results = {}
    with concurrent.futures.ThreadPoolExecutor(workers) as ex:
        for sid, r in ex.map(one, ids):
            results[sid] = r
            print(sid, r.get('suite'), r.get('found'), flush=True)
            with open('/tmp/suite_vs_seeded.json', 'w') as f:
                json.dump(results, f, indent=1)


if __name__ == '__main__':
    main()
