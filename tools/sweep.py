"""seed sweep: python3 tools/sweep.py quick 1 2 3 [--only C01,C06]   -> one line per (check, seed) that did not exit 0"""
import os
import subprocess
import sys

args = sys.argv[1:]
tier = args.pop(0)
only = None
if '--only' in args:
    i = args.index('--only')
    only = args[i + 1].split(',')
    del args[i:i + 2]
seeds = [int(a) for a in args]
checks = only or [f'C{i:02d}' for i in range(1, 21)]
bad = 0
for seed in seeds:
    for c in checks:
        env = dict(os.environ, VERIF_SEED=str(seed), VP_NO_EVIDENCE='1', PYTHONPATH=os.getcwd())
        r = subprocess.run(['/venv/bin/python', '-m', 'vp.cli', c, '--tier', tier], env=env, capture_output=True,
                           text=True)
        last = [ln for ln in r.stdout.splitlines() if 'verdict=' in ln]
        line = last[-1][:140] if last else r.stdout[-200:]
        if r.returncode != 0:
            bad += 1
            print(f'NONZERO seed={seed} {c} exit={r.returncode}')
            show = 0
            for ln in r.stdout.splitlines():
                if ln.startswith('HARNESS'):
                    show = 40          # the traceback of the shard follows the HARNESS-ERROR line
                if ln.startswith(('VIOLATION', '  key=', 'INCONCLUSIVE', 'HARNESS')) or show > 0:
                    print('   ', ln[:400])
                    show -= 1
        print(f'seed={seed} {line}', flush=True)
print('non-zero exits:', bad)
