"""self-test helper: apply a textual edit (or a patch file) to a scratch worktree of /repo, run a check's quick tier against it.

  python3 tools/trybreak.py C04 [--tests] [--budget 10] [--shards 8] -- src/pycel/excelformula.py 'old text' 'new text' [file old new ...]
  python3 tools/trybreak.py C04 --patch some.diff

prints the tail of the check output and its exit code; always removes the worktree."""
import os
import subprocess
import sys
import tempfile


def main():
    args = sys.argv[1:]
    prop = args.pop(0)
    tests, budget, shards, patch, tier = False, '10', '8', None, 'quick'
    while args and args[0] != '--' and args[0].startswith('--'):
        a = args.pop(0)
        if a == '--tests':
            tests = True
        elif a == '--budget':
            budget = args.pop(0)
        elif a == '--shards':
            shards = args.pop(0)
        elif a == '--patch':
            patch = os.path.abspath(args.pop(0))
        elif a == '--tier':
            tier = args.pop(0)
    if args and args[0] == '--':
        args.pop(0)
    wt = tempfile.mkdtemp(prefix='wt-break-')
    os.rmdir(wt)
    subprocess.run(['git', '-C', '/repo', 'worktree', 'add', '-q', '--detach', wt, 'HEAD'], check=True)
    try:
        # carry uncommitted edits of /repo over as well
        diff = subprocess.run(['git', '-C', '/repo', 'diff'], capture_output=True, text=True).stdout
        if diff.strip():
            subprocess.run(['git', '-C', wt, 'apply'], input=diff, text=True, check=True)
        if patch:
            subprocess.run(['git', '-C', wt, 'apply', patch], check=True)
        while args:
            f, old, new = args[:3]
            del args[:3]
            path = os.path.join(wt, f)
            s = open(path).read()
            if old not in s:
                print(f'EDIT NOT APPLICABLE: {old!r} not in {f}')
                return 9
            open(path, 'w').write(s.replace(old, new, 1))
        if tests:
            r = subprocess.run(['/venv/bin/python', '-m', 'pytest', '-q', '-p', 'no:cacheprovider', '-x'],
                               cwd=wt, capture_output=True, text=True,
                               env=dict(os.environ, PYTHONPATH=os.path.join(wt, 'src')))
            print('repo tests:', r.stdout.strip().splitlines()[-1] if r.stdout.strip() else r.stderr[-300:])
        env = dict(os.environ, VP_REPO=wt, VP_BUDGET=budget, PYTHONPATH='/verif', VP_NO_EVIDENCE='1')
        for p in prop.split(','):
            r = subprocess.run(['/venv/bin/python', '-m', 'vp.cli', p, '--tier', tier, '--shards', shards],
                               cwd='/verif', env=env, capture_output=True, text=True)
            out = [ln[:400] for ln in r.stdout.splitlines() if not ln.startswith('  counters')]
            print('\n'.join(out[-8:]))
            print(f'== {p} exit={r.returncode}')
    finally:
        subprocess.run(['git', '-C', '/repo', 'worktree', 'remove', '--force', wt])
    return 0


if __name__ == '__main__':
    sys.exit(main())
