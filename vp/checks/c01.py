"""C01 - lazy cache coherence: no stale value after any set_value/evaluate history.

History + executable model: every public call is recorded at the boundary; after every evaluate
(and, in "eager" histories, for every ground-truth dependant right after each value-changing
write; and for all cells at the end) the answer is compared with a from-scratch compile of the
same workbook with the current inputs.
"""
import os

from vp import realbooks, hist, wb, wbgen

PROP = 'C01'
LEVEL = 'exploration'
RULE = ('seeded acyclic workbooks (vp.wbgen.dag: 4-16 cells + optional CSE array, 1-3 sheets, names, '
        'ranges, nested ranges) x obtained as {in-memory no-data, .xlsx with stored results, '
        'yml/json/pkl model} x generated histories of set_value/evaluate(cell|range|list)/reload; '
        'oracle = fresh compile with the current inputs after every evaluate. A case is one history; '
        'non-trivial = it contains at least one value-changing write followed by a comparison of a '
        'ground-truth dependant; distinct = by (workbook shape, configuration, op sequence).')
BUDGET = {'quick': 40, 'thorough': 480}
FLOORS = {
    'quick': {'histories': 60, 'compares': 2000, 'value_changing_writes': 300,
              'trans:number->blank': 8, 'trans:0->FALSE': 2, 'trans:1->TRUE': 2,
              'trans:blank->number': 4, 'write_before_dependant_built': 8,
              'cfg:mem': 8, 'cfg:xlsx': 8, 'cfg:yml': 2, 'cfg:json': 2, 'cfg:pkl': 2,
              'dependant_compares_after_write': 400, 'failed_builds': 5, 'formula_cells_overwritten_after_a_failed_build': 5,
              'real_book_histories': 5, 'big_workbook_histories': 3,
              'real_value_compares': 60},
    'thorough': {'histories': 3000, 'compares': 100000, 'trans:0->FALSE': 50, 'trans:1->TRUE': 50,
                 'trans:number->blank': 300, 'trans:blank->number': 200,
                 'write_before_dependant_built': 300, 'cfg:xlsx': 300, 'cfg:pkl': 100},
}
for _tier in FLOORS:
    FLOORS[_tier]['suite:tests'] = 2000          # the repository's own suite ran under the monitors
ASSUMPTIONS = [
    'the oracle is pycel itself on a brand-new in-memory compile (the statement names it as the '
    'specification); defects shared by first evaluation and re-evaluation are the business of C02/C10-C20',
    'set_value is only issued on addresses already in cell_map and only on non-formula cells',
]
CONFIGS = ['mem', 'mem', 'xlsx', 'xlsx', 'yml', 'json', 'pkl']


def transition(old, new):
    return f'{wbgen.type_tag(old)}->{wbgen.type_tag(new)}'


class Run:
    def __init__(self, ctx, spec, meta, config, eager, tmpdir):
        self.ctx, self.spec, self.meta, self.config, self.eager = ctx, spec, meta, config, eager
        self.tmpdir = tmpdir
        self.inputs = {}
        self.fresh = None
        self.ops = []
        self.writes = []          # (op index, address, old, new, built-set at the time)
        self.last_ok = {}
        self.found = []
        self.sheets = [s for s, _ in spec['sheets']]
        self.nontrivial = False
        init = wb.fresh_values(spec)
        self.init_exc = [a for a, o in init.items() if o[0] == 'x']
        self.model = hist.Recorder(hist.obtain(config, spec, tmpdir, 'm', init), config)
        self.all_cells = wb.all_addresses(spec)
        self.has_poison = False       # a model holding a cell that cannot be built cannot be saved and loaded
        self.overwritten = set()      # formula cells a set_value has turned into inputs
        sd = dict(spec['sheets']).get(wbgen.SD) or {'A1': 0}
        self.sd_max = (max(wb.split_coord(c)[0] for c in sd), max(wb.split_coord(c)[1] for c in sd))

    # -- the model -----------------------------------------------------------
    def cur_spec(self):
        return wb.with_inputs(self.spec, self.inputs)

    def want(self, address):
        if self.fresh is None:
            self.fresh = wb.compile_mem(self.cur_spec())
        return wb.outcome(self.fresh.evaluate, address)

    def current_value(self, address):
        if address in self.inputs:
            return self.inputs[address]
        s, c = address.rsplit('!', 1)
        return dict(self.spec['sheets'])[s].get(c)

    # -- operations ----------------------------------------------------------
    def op_set(self, address, value):
        old = self.current_value(address)
        idx = len(self.ops)
        self.ops.append(['set', address, value])
        built = {a for a in self.meta['formulas'] if self.model.has(a)}
        out = self.model.set_value(address, value)
        if out[0] == 'x':
            self.found.append(('set_value-raised', f'set_value({address!r}, {value!r}) raised {out[1]}',
                               address))
            return
        self.inputs[address] = value
        self.fresh = None
        self.ctx.count('writes')
        if address in self.meta['formulas']:
            if address not in self.overwritten:
                self.ctx.count('formula_cells_overwritten')
            else:
                self.ctx.count('writes_to_cells_which_were_formulas')
            self.overwritten.add(address)
        if wb.norm(old) != wb.norm(value):
            self.ctx.count('value_changing_writes')
            self.ctx.count('trans:' + transition(old, value))
            self.writes.append((idx, address, old, value, built))
            deps = wbgen.dependants(self.meta, address)
            if deps - built:
                self.ctx.count('write_before_dependant_built')
            if self.eager:
                for d in sorted(deps & built):
                    self.ctx.count('dependant_compares_after_write')
                    self.compare(d, after_write=True)

    def op_set_range(self, range_addr, matrix):
        """set_value(range, matrix): every cell of the range is written (list-like value)"""
        sheet, ref = range_addr.rsplit('!', 1)
        cells = [[wb.addr(sheet, c) for c in row] for row in wb.range_cells(ref)]
        idx = len(self.ops)
        self.ops.append(['setr', range_addr, matrix])
        built = {a for a in self.meta['formulas'] if self.model.has(a)}
        olds = {a: self.current_value(a) for row in cells for a in row}
        out = wb.outcome(self.model.comp.set_value, range_addr, matrix)
        self.model.events.append(('call+ret', 'set_value', range_addr, out[0]))
        if out[0] == 'x':
            self.found.append(('set_value-raised', f'set_value({range_addr!r}, {matrix!r}) raised {out[1]}',
                               range_addr))
            return
        self.ctx.count('range_writes')
        changed = []
        for row, vals in zip(cells, matrix):
            for a, v in zip(row, vals):
                self.inputs[a] = v
                if wb.norm(olds[a]) != wb.norm(v):
                    self.ctx.count('value_changing_writes')
                    self.ctx.count('trans:' + transition(olds[a], v))
                    self.writes.append((idx, a, olds[a], v, built))
                    changed.append(a)
        self.fresh = None
        if self.eager:
            todo = set()
            for a in changed:
                todo |= wbgen.dependants(self.meta, a) & built
            for d in sorted(todo):
                self.ctx.count('dependant_compares_after_write')
                self.compare(d, after_write=True)

    def op_eval(self, target):
        self.ops.append(['eval', target])
        self.compare(target)

    def op_reload(self, fmt):
        self.ops.append(['reload', fmt])
        # only meaningful once every cell is in the model (unsaved cells are blank after a load)
        for a in self.all_cells:
            if not self.model.has(a):
                self.compare(a)
        self.model = hist.Recorder(hist.reload(self.model.comp, fmt, self.tmpdir, 'r'), fmt)
        self.ctx.count('reloads')

    def op_api(self, name):
        """another public entry point that goes through the same state and must leave what evaluate returns as it
        is: recalculate(), the printed value tree of a formula cell, a graph export"""
        self.ops.append(['api', name])
        comp = self.model.comp
        if name == 'recalculate':
            out = wb.outcome(comp.recalculate)
        elif name == 'value_tree_str':
            cells = [a for a in self.meta['formulas'] if self.model.has(a)]
            out = wb.outcome(lambda: list(comp.value_tree_str(cells[0]))) if cells else ('v', None)
        else:
            out = wb.outcome(comp.export_to_gexf, os.path.join(self.tmpdir, 'c01.gexf'))
        self.model.events.append(('call+ret', name, out[0]))
        self.ctx.count('api_calls:' + name)
        # the statement quantifies over set_value / evaluate histories: what these calls return or raise is not
        # judged here (recalculate raises when the model holds a cell that cannot be built, and RuntimeError when
        # evaluating adds cells to the model while it walks it); only the values evaluate returns afterwards are
        if out[0] == 'x':
            self.ctx.count(f'api_raised:{name}:{out[1]}')

    def compare(self, target, after_write=False):
        got = self.model.evaluate(tuple(target) if isinstance(target, list) else target)
        want = self.want(tuple(target) if isinstance(target, list) else target)
        self.ctx.count('compares')
        if self.writes:
            self.nontrivial = True
        if wb.same_outcome(got, want):
            if isinstance(target, str) and ':' not in target:
                self.last_ok[target] = len(self.ops)
            return True
        self.found.append((self.classify(target, got, want), f'evaluate({target!r}) = {got!r} but a fresh compile '
                           f'with the current inputs gives {want!r} [config={self.config}]', target))
        return False

    def diverging_cell(self, target, got, want):
        """for a range / list target: the first member cell whose value differs"""
        if isinstance(target, str) and ':' not in target:
            return target
        try:
            if isinstance(target, str):
                s, ref = target.rsplit('!', 1)
                cells = [wb.addr(s, c) for row in wb.range_cells(ref) for c in row]
            else:
                cells = list(target)
            g, w = list(_flat(got[1])), list(_flat(want[1]))
            if got[0] == want[0] == 'v' and len(g) == len(w) == len(cells):
                for c, x, y in zip(cells, g, w):
                    if not wb.same(x, y):
                        return c
        except Exception:
            pass
        return None

    def classify(self, target, got=None, want=None):
        """mechanism key: a predicate over the recorded history, never over values or seeds"""
        cell = self.diverging_cell(target, got, want)
        if cell is None:
            return 'stale-value/range-or-list'
        infl = wbgen.influencers(self.meta, cell) | {cell}
        since = self.last_ok.get(cell, -1)
        latest = {}
        for w in self.writes:
            latest[w[1]] = w
        # a write outside the sheet's used area under an unbounded (A:A / 1:1) reference
        unb = [a for a in infl | {cell} if self.meta['formulas'].get(a, {}).get('form') == 'unbounded']
        if unb:
            sd_cells = dict(self.spec['sheets']).get(wbgen.SD, {})
            max_c = max(wb.split_coord(c)[0] for c in sd_cells)
            max_r = max(wb.split_coord(c)[1] for c in sd_cells)
            for a, w in latest.items():
                s, c = a.rsplit('!', 1)
                if s == wbgen.SD:
                    col, row = wb.split_coord(c)
                    if (col > max_c or row > max_r) and w[3] is not None:
                        return 'unbounded-range/write-outside-the-used-area'
        culprits = [w for a, w in latest.items() if a in infl and w[0] >= since]
        if not culprits:
            return 'wrong-value/no-write-involved'
        if self.config == 'xlsx' and cell in self.meta['formulas'] and any(
                cell not in w[4] for w in culprits):
            return 'stale-value/xlsx-stored-result-of-cell-built-after-write'
        if any(w[3] is None for w in culprits):
            return 'stale-value/after-blank-write'
        if any(_py_equal(w[2], w[3]) for w in culprits):
            return 'stale-value/after-write-of-python-equal-value-of-other-type'
        return 'stale-value'

    # -- history generation --------------------------------------------------
    def candidates(self):
        return sorted(a for a in self.model.comp.cell_map
                      if ':' not in a and (a not in self.meta['formulas'] or a in self.overwritten) and
                      a.rsplit('!', 1)[0] in self.sheets and '.cf!' not in a)

    def random_op(self, rng):
        r = rng.random()
        cands = self.candidates()
        if r < 0.45 and cands:
            a = rng.choice(cands)
            v = hist.propose_write(rng, self.current_value(a))
            if a.startswith(wbgen.SD + '!'):
                # the used area of a sheet that unbounded references (A:A, 1:1) are clipped to is
                # kept as it is: see the directed case used_area_growth() / known finding
                c, r_ = wb.split_coord(a.rsplit('!', 1)[1])
                if v is None or c > self.sd_max[0] or r_ > self.sd_max[1]:
                    return ('eval', a)
            return ('set', a, v)
        if r < 0.475:
            # a value over a formula: the cell is an input from now on (and is written again later like any other)
            fcells = sorted(a for a, f in self.meta['formulas'].items()
                            if f['form'] not in ('cse', 'cse-consumer') and a not in self.overwritten and
                            self.model.has(a) and a.rsplit('!', 1)[0] in self.sheets)
            if fcells:
                a = rng.choice(fcells)
                shown = self.want(a)
                v = rng.choice([3.25, -7, 0, 12.5, 'ov', True])
                # (a write of the value the cell shows already keeps the formula: C09's known finding)
                if shown[0] == 'v' and not (wb.same(shown[1], v) or shown[1] == v):
                    return ('set', a, v)
        if r < 0.50 and self.config != 'xlsx' and len(self.ops) > 2 and not self.has_poison:
            return ('reload', rng.choice(['yml', 'json', 'pkl']))
        if r < 0.52:
            return ('api', rng.choice(['recalculate', 'recalculate', 'value_tree_str', 'export_to_gexf']))
        if r < 0.54:
            # a range node whose cells are all plain inputs of a main sheet: written in one call
            ranges = []
            for a, node in self.model.comp.cell_map.items():
                if ':' not in a or a.rsplit('!', 1)[0] == wbgen.SD or getattr(node, 'formula', None):
                    continue
                p = wb.range_cells(a.rsplit('!', 1)[1]) if a.count(':') == 1 and a.rsplit('!', 1)[1][0].isalpha() \
                    and a.rsplit('!', 1)[1][-1].isdigit() else None
                if not p or len(p) * len(p[0]) > 9:
                    continue
                sheet = a.rsplit('!', 1)[0]
                members = [wb.addr(sheet, c) for row in p for c in row]
                if all(m in self.model.comp.cell_map and m not in self.meta['formulas'] for m in members):
                    ranges.append((a, len(p), len(p[0])))
            if ranges:
                a, h, w = rng.choice(sorted(ranges))
                return ('setr', a, [[wbgen.pick_value(rng, numeric_bias=0.6) for _ in range(w)] for _ in range(h)])
        if r < 0.58:
            s = rng.choice([x for x in self.sheets if x != wbgen.SD] or self.sheets)
            c1, r1 = rng.randint(1, 4), rng.randint(1, 5)
            c2, r2 = rng.randint(c1, min(5, c1 + 2)), rng.randint(r1, min(6, r1 + 2))
            if (c1, r1) == (c2, r2):
                c2 += 1
            return ('eval', f'{s}!{wb.coord(c1, r1)}:{wb.coord(c2, r2)}')
        if r < 0.63:
            k = rng.randint(2, 3)
            return ('eval', [rng.choice(self.all_cells) for _ in range(k)])
        return ('eval', rng.choice(self.all_cells))

    def apply(self, op):
        if op[0] == 'set':
            if self.model.has(op[1]):
                self.op_set(op[1], op[2])
        elif op[0] == 'setr':
            self.op_set_range(op[1], op[2])
        elif op[0] == 'eval':
            self.op_eval(op[1])
        elif op[0] == 'reload':
            self.op_reload(op[1])
        elif op[0] == 'api':
            self.op_api(op[1])

    def finish(self):
        self.ops.append(['final'])
        for a in self.all_cells:
            self.compare(a)


def _flat(v):
    if isinstance(v, (tuple, list)):
        for x in v:
            yield from _flat(x)
    else:
        yield v


def _py_equal(a, b):
    try:
        return a == b and wb.norm(a) != wb.norm(b)
    except Exception:
        return False


def one_history(ctx, spec, meta, config, eager, rng=None, ops=None, n_ops=None):
    poison = spec.get('poison')
    if poison:
        # the model sees an evaluate that fails while the graph is being built; the oracle's workbooks do not
        # contain that cell (a fresh compile evaluating the other cells never meets it)
        clean = dict(spec, sheets=[[s, {c: v for c, v in cells.items() if wb.addr(s, c) != poison}]
                                   for s, cells in spec['sheets']])
        clean.pop('poison')
        clean.pop('poison_overwrite', None)
        run = Run(ctx, clean, meta, config, eager, ctx.tmpdir)
        if not run.init_exc:
            if config in ('mem', 'xlsx'):
                full = dict(spec)
                full.pop('poison')
                init = wb.fresh_values(clean)
                run.model = hist.Recorder(hist.obtain(config, full, ctx.tmpdir, 'm', init), config)
                probe = spec.get('poison_probe')
                if probe:
                    full.pop('poison_probe', None)
                    scratch = wb.compile_mem(clean)
                    wb.outcome(scratch.evaluate, probe[0])
                    needed = [a.address for a in scratch.cell_map[probe[0]].formula.needed_addresses]
                    for a in needed:
                        run.model.evaluate(a)
                    run.ops.append(['pre-poison', needed])
                out = run.model.evaluate(poison)
                run.ops.append(['eval-poison', poison])
                run.has_poison = True
                ctx.count('failed_builds' if out[0] == 'x' else 'poison_did_not_fail')
                if probe:
                    ctx.count('failed_builds_with_everything_else_already_built')
                    cur = run.current_value(probe[1])
                    new_v = 41.5 if wb.norm(cur) != wb.norm(41.5) else 7
                    for op in (['eval', probe[0]], ['set', probe[1], new_v], ['eval', probe[0]]):
                        run.apply(op)
                over = spec.get('poison_overwrite')
                if over and run.model.has(over):
                    # a formula cell queued by the build which failed is overwritten with a constant: it is an input
                    # now, and shows what was written
                    full.pop('poison_overwrite', None)
                    ctx.count('formula_cells_overwritten_after_a_failed_build')
                    # (a write of the value the cell shows already keeps the formula: C09's known finding)
                    shown = run.want(over)
                    new_v = 3.25 if shown[0] != 'v' or not wb.same(shown[1], 3.25) else 4.75
                    for op in [['set', over, new_v], ['eval', over]] + \
                            [['eval', d] for d in sorted(wbgen.dependants(meta, over))[:2]]:
                        run.apply(op)
    else:
        run = Run(ctx, spec, meta, config, eager, ctx.tmpdir)
    if run.init_exc:
        ctx.count('skipped_workbooks_with_failing_cells')
        return None
    if ops is None:
        for _ in range(n_ops):
            run.apply(run.random_op(rng))
            if run.found:
                break
    else:
        for op in ops:
            if op[0] not in ('final', 'eval-poison', 'pre-poison'):
                run.apply(op)
    if not run.found:
        run.finish()
    ctx.count('histories')
    ctx.count('cfg:' + config)
    ctx.count('events', len(run.model.events))
    sig = (wbgen.shape_signature(spec, meta), config, repr(run.ops))
    ctx.case(sig, nontrivial=run.nontrivial)
    case = {'spec': spec, 'meta': meta, 'config': config, 'eager': eager, 'ops': run.ops}
    if ctx.evaluations % 50 == 1:
        ctx.sample({'config': config, 'eager': eager, 'cells': spec['sheets'], 'arrays': spec['arrays'],
                    'names': spec['names'], 'ops': run.ops[:30]})
    seen = set()
    for key, msg, target in run.found:
        if key not in seen:
            seen.add(key)
            ctx.violation(key, msg, case)
    return run


USED_AREA_SPEC = {
    'sheets': [['Sheet1', {'A1': '=SUM(Data!A:A)', 'B1': '=COUNT(Data!A1:A3)'}],
               ['Data', {'A1': 1, 'A2': 2, 'B1': 3, 'B2': 4}]],
    'names': {}, 'arrays': [], 'calc': None}
USED_AREA_META = {
    'inputs': ['Data!A1', 'Data!A2', 'Data!B1', 'Data!B2'],
    'formulas': {'Sheet1!A1': {'form': 'unbounded', 'deps': ['Data!A1', 'Data!A2', 'Data!A3']},
                 'Sheet1!B1': {'form': 'agg', 'deps': ['Data!A1', 'Data!A2', 'Data!A3']}},
    'order': ['Data!A1', 'Data!A2', 'Data!B1', 'Data!B2', 'Sheet1!A1', 'Sheet1!B1']}
USED_AREA_OPS = [['eval', 'Sheet1!A1'], ['eval', 'Sheet1!B1'], ['set', 'Data!A3', 5],
                 ['eval', 'Sheet1!A1']]


def used_area_growth(ctx):
    """directed history: a write below the used area of a sheet that SUM(Data!A:A) was clipped to.
    pycel resolves A:A against the used area once, when the reference is first built."""
    for config in ('mem', 'xlsx', 'json'):
        one_history(ctx, USED_AREA_SPEC, USED_AREA_META, config, True, ops=USED_AREA_OPS)
        ctx.count('directed:used_area_growth')


def revisions(ctx):
    """directed: two revisions of one workbook in one process - the same formula texts in the same cells of a sheet of
    the same name, the defined names they use pointing to other cells (and a table-like block moved by a column): the
    second revision follows writes to what *its* names refer to"""
    def rev(rate, costs):
        cells = {'A1': 1, 'A2': 2, 'A3': 3, 'B1': 10, 'B2': 20, 'B3': 30, 'C1': '=rate*2', 'C2': '=SUM(costs)+C1', 'C3': '=C2&"|"&rate'}
        spec = {'sheets': [['Sheet1', cells]], 'names': {'rate': f'Sheet1!${rate[0]}${rate[1]}',
                                                         'costs': f'Sheet1!${costs[0]}$1:${costs[0]}$3'}, 'arrays': [], 'calc': None}
        r, cs = f'Sheet1!{rate}', [f'Sheet1!{costs[0]}{i}' for i in (1, 2, 3)]
        meta = {'inputs': [f'Sheet1!{c}' for c in ('A1', 'A2', 'A3', 'B1', 'B2', 'B3')], 'order': [f'Sheet1!{c}' for c in cells],
                'formulas': {'Sheet1!C1': {'form': 'name', 'deps': [r]}, 'Sheet1!C2': {'form': 'name', 'deps': cs + ['Sheet1!C1']},
                             'Sheet1!C3': {'form': 'name', 'deps': ['Sheet1!C2', r]}}}
        return spec, meta
    for config in ('mem', 'xlsx', 'json'):
        for k, (rate, costs) in enumerate((('A1', 'A'), ('B2', 'B'), ('A3', 'B'), ('A1', 'A'))):
            spec, meta = rev(rate, costs)
            ops = [['eval', 'Sheet1!C3'], ['set', f'Sheet1!{rate}', 7 + k], ['eval', 'Sheet1!C3'], ['eval', 'Sheet1!C1'],
                   ['set', f'Sheet1!{costs}2', 100 + k], ['eval', 'Sheet1!C2'], ['set', 'Sheet1!A1', 50 + k], ['set', 'Sheet1!B2', 60 + k],
                   ['eval', 'Sheet1!C3'], ['eval', 'Sheet1!C2']]
            ctx.count('directed:revisions')
            one_history(ctx, spec, meta, config, True, ops=ops)


def big_history(ctx, rng, config):
    """one history on a workbook of the sizes the small generator never reaches (vp.wbgen.big): writes to the head of
    a 90-140 cell chain, into a 1000 cell block beyond column Z, to the keys of a 300-600 row table, on a dozen
    sheets, to long texts and big integers; after each write three dependants are read (and, in eager histories, every
    dependant that is built), at the end every cell"""
    spec, meta = wbgen.big(rng)
    fm = meta['formulas']
    formulas = sorted(fm)
    chain = sorted((a for a in formulas if a.startswith('Sheet1!H')), key=lambda a: int(a.rsplit('H', 1)[1]))
    ops = [['eval', chain[-1]]] + [['eval', a] for a in rng.sample(formulas, 8)]
    plain = [a for a in meta['inputs']]
    special = ['Sheet1!H1', 'Sheet1!A410', 'Sheet1!A411', 'Sheet1!F430', 'Sheet1!G440', 'Sheet1!G442'] + \
        [a for a in plain if a.endswith('!A1') and a.startswith('S')]
    for k in range(12):
        a = rng.choice(special) if k % 2 == 0 else rng.choice(plain)
        if k % 5 == 4 and config != 'xlsx':
            ops.append(['reload', rng.choice(['yml', 'json', 'pkl'])])
        ops.append(['eval', a])          # (set_value needs the cell in the cell map)
        ops.append(['set', a, rng.choice([k + 2, -3, 17, 0, 3 * k + 1, 2 ** 40 + k])])
        deps = sorted(wbgen.dependants(meta, a))
        for d in rng.sample(deps, min(3, len(deps))):
            ops.append(['eval', d])
    # a whole column of the table (300-600 cells, a range node of the model once INDEX has read it) written in one call;
    # one of its cells has a reader of its own
    n_tab = max(int(a.rsplit('CB', 1)[1]) for a in meta['inputs'] if a.startswith('Sheet1!CB'))
    at = rng.randrange(3, len(ops))
    ops[at:at] = [['eval', 'Sheet1!D413'], ['eval', 'Sheet1!D415'], ['eval', 'Sheet1!D411'],
                  ['setr', f'Sheet1!CB1:CB{n_tab}', [[2000 + 7 * i] for i in range(n_tab)]],
                  ['eval', 'Sheet1!D415'], ['eval', 'Sheet1!D411'], ['eval', 'Sheet1!D413']]
    ctx.count('big_workbook_histories')
    ctx.count('big_workbook_cells', len(meta['order']))
    return one_history(ctx, spec, meta, config, k % 2 == 0, ops=ops)


def run(ctx):
    if ctx.shard % 4 == 2 or not ctx.quick:
        big_history(ctx, ctx.rng, CONFIGS[(ctx.shard // 4 + ctx.seed) % len(CONFIGS)])
    if ctx.shard == ctx.nshards - 1:
        # the repository's own test-suite as one more workload under the monitors (vp.suitemon)
        from vp import suiteload
        suiteload.run_suite(ctx)
    rng = ctx.rng
    i = 0
    if ctx.shard == 0:
        used_area_growth(ctx)
    if ctx.shard == 1 % ctx.nshards:
        revisions(ctx)
    # histories on the workbooks shipped with the repository (several hundred hand-written formulas each)
    realbooks.run_cases(ctx, realbooks.c01_case, realbooks.acyclic_books(), 8 if ctx.quick else 80, fraction=0.3)
    while not ctx.out_of_time():
        i += 1
        spec, meta = wbgen.dag(rng)
        ctx.count('workbooks')
        ctx.count('shape:' + str(len(meta['formulas'])), 0)
        config = CONFIGS[i % len(CONFIGS)]
        eager = rng.random() < 0.5
        first_sheet = spec['sheets'][0][0]
        fcells = [a for a in meta['formulas'] if a.startswith(first_sheet + '!') and
                  meta['formulas'][a]['form'] not in ('cse', 'cse-consumer')]
        if i % 5 == 0 and config in ('mem', 'xlsx') and len(fcells) >= 2:
            p1, p2 = rng.sample(fcells, 2)
            spec = dict(spec, sheets=[[s_, dict(c)] for s_, c in spec['sheets']])
            spec['sheets'][0][1]['A20'] = f'={p1.rsplit("!", 1)[1]}+{p2.rsplit("!", 1)[1]}+[1]Other!A1'
            spec['poison'] = f'{first_sheet}!A20'
            feeding = sorted(a for a in wbgen.influencers(meta, p1) if a in meta['inputs'] and
                             not a.startswith(wbgen.SD + '!'))
            if i % 10 == 0 and feeding:
                # everything the first good precedent reads is in the model before the build fails, and nothing new
                # is built between the failure and the probe: the edges of the good precedent, queued when the build
                # failed, are still to be made
                spec['poison_probe'] = [p1, rng.choice(feeding)]
            spec['poison_overwrite'] = p2
        one_history(ctx, spec, meta, config, eager, rng=rng, n_ops=rng.randint(12, 25))


def replay(ctx, case):
    if case.get('kind') == 'suite':
        from vp import suiteload
        suiteload.run_suite(ctx)
        return
    if case.get('kind') == 'real-book':
        realbooks.c01_case(ctx, case['book'], case['case_seed'])
        return
    one_history(ctx, case['spec'], case['meta'], case['config'], case['eager'], ops=case['ops'])
