"""C02 - formula translation is meaning-preserving (precedence, associativity, literals).

The parse TREE is generated first, rendered to Excel text by Excel's grammar as the statement
gives it (negation binds tighter than %, then ^, then * /, then + -, then &, then comparisons,
binary operators left-associative, parentheses override)

    min       minimal parentheses: the text relies on precedence and associativity
    full      every operator operand parenthesised
    varied    redundant parentheses also around leaves / blanks or line feeds around operators,
              inside parentheses and after commas / function names in other case

and every text is compiled by the real ExcelFormula and evaluated through
ExcelFormula.build_eval_context (cell references answered from a small environment); a sample also
goes through a real one-sheet workbook and ExcelCompiler.evaluate (vp.lib.eval_formula).
Oracle: the tree evaluated by vp.refmodel.operators (written from the statement of C10, not from
pycel).  All renderings of a tree must agree with the oracle and with each other.

Permissive on purpose:
* where the operator model allows more than one result (0^0, non-real or overflowing powers,
  locale-dependent numeric text) or a number is not exactly representable and then compared or
  concatenated (Excel compares 15 digits), the tree has no expected value: only agreement between
  its renderings is demanded;
* functions are only a *context* here (argument separators, no parentheses around an operator
  argument, name case): SUM/ABS are given a value only on numbers, IF only on a logical or numeric
  condition; anything else has no expected value (C14.. own those semantics);
* blanks are never written between two operands (that is the intersection operator), after a
  prefix minus or before %;
* a top-level blank result is 0 (what a cell shows);
* arithmetic on text spelled TRUE/FALSE/inf/nan (e.g. 2-(TRUE&"")) has no expected value here:
  whether such text is a number is C10's question; a text literal spelled like an error code
  ("#N/A") is not judged: pycel's value model has one representation for both.
Trees are dropped (counted) before pycel sees them when a power leaves the magnitude bounds
(|base| <= 1e6, |exponent| <= 64) or when *some* bracketing of one of their parenthesis-free
operator runs could build a power tower (a broken parser must not be able to hang the check).

Literals: every text over an alphabet with " \\ LF CR TAB { } ' % # & = blank and non-ASCII
(exhaustive up to length 2, quick; 3, thorough; sampled beyond) in three contexts must evaluate to
exactly its characters; numbers in the spellings Excel stores, TRUE/FALSE and the seven error
literals must denote themselves.  A well-formed formula that does not compile is a violation.
"""
import math

from vp import lib
from vp.refmodel import operators as ref

PROP = 'C02'
LEVEL = 'exploration'
RULE = ('trees first, text second. Quick, exhaustive: all trees of depth <= 1 over 14 operators x 14 leaves; '
        'all depth-2 trees with one operator child (either side): 14 inner operators over a 6-leaf pool '
        '(2, 3, 0.5, "4", TRUE, A1), the free operand from (2, 3, "4", A1); all depth-2 trees with two '
        'operator children x position-specific 2-leaf pools; function-call trees (SUM/IF/ABS over leaf and depth-1 arguments, calls as operands). '
        'Thorough adds all depth-3 chains (one operator child per node, either side) over a 3-leaf pool and '
        'sampled trees of depth 4-6. Each tree in 2-3 renderings (minimal / fully parenthesised / every second tree varied: '
        'leaf parentheses, blanks, line feeds, function-name case), 3 rotating environments of cell values, '
        '1/50 also through a real workbook. Literals: all texts of length <= 2 (quick) / 3 (thorough) over a '
        '20-character alphabet x 3 contexts, stored number spellings, logicals, error literals. '
        'References as arguments and operands: 45 formula shapes (cell, range, intersection, range operator, OFFSET / ROW / '
        'COLUMN / INDEX / INDIRECT forms, calls that return a reference as operand of every operator class and as '
        'argument of SUM / AVERAGE / MIN / MAX / COUNT / IF / IFERROR / SUMPRODUCT) x 20 sheet names of every legal kind '
        '(blanks, quotes, brackets, !, %, digits first, address-like, TRUE) x {own sheet, other sheet} x 2 spacings, '
        'through a real workbook, expected values read off a grid of distinct numbers. '
        'A case = one (tree, rendering, route) evaluation; non-trivial = the tree has an operator or is a '
        'literal check; distinct by construction in the exhaustive part, by text+environment when sampled.')
BUDGET = {'quick': 8, 'thorough': 150}
EXHAUSTIVE = {'quick': True, 'thorough': True}
ASSUMPTIONS = [
    'the grammar of the statement: negation > % > ^ > * / > + - > & > comparisons, binary operators '
    'left-associative; -2^2 is therefore (-2)^2 = 4',
    'leaves are small (|v| <= 4) so that any intermediate stays far inside the double range; trees whose '
    'worst-case bracketing could produce a power tower are not generated',
    'function semantics beyond numbers (SUM/ABS) and logical/numeric conditions (IF) are not modelled',
]

CMP = ref.COMPARE
LEVELS = {'^': 6, '*': 5, '/': 5, '+': 4, '-': 4, '&': 3}
LEVELS.update({op: 2 for op in CMP})
BIN = ref.BINARY
OPCLASS = {'^': 'power', '*': 'mul-div', '/': 'mul-div', '+': 'add-sub', '-': 'add-sub', '&': 'concat'}
OPCLASS.update({op: 'comparison' for op in CMP})


# --------------------------------------------------------------------------- trees (json-able lists)

def num(text):
    return ['num', text]


def txt(s):
    return ['str', s]


TRUE, FALSE = ['bool', True], ['bool', False]


def err(code):
    return ['err', code]


def cell(name):
    return ['ref', name]


def neg(x):
    return ['neg', x]


def pct(x):
    return ['pct', x]


def binop(op, a, b):
    return ['bin', op, a, b]


def call(name, *args):
    return ['fn', name, list(args)]


def is_op(node):
    return node[0] in ('neg', 'pct', 'bin')


def children(node):
    k = node[0]
    if k in ('neg', 'pct'):
        return [node[1]]
    if k == 'bin':
        return [node[2], node[3]]
    if k == 'fn':
        return list(node[2])
    return []


def depth(node):
    ch = children(node)
    return 1 + max(depth(c) for c in ch) if ch else 0


def size(node):
    return 1 + sum(size(c) for c in children(node))


def subtrees(node):
    """post-order: smaller first"""
    for c in children(node):
        yield from subtrees(c)
    yield node


def prec(node):
    k = node[0]
    if k == 'neg':
        return 8
    if k == 'pct':
        return 7
    if k == 'bin':
        return LEVELS[node[1]]
    return 9


def opclass(node):
    k = node[0]
    if k == 'neg':
        return 'unary-minus'
    if k == 'pct':
        return 'percent'
    if k == 'bin':
        return OPCLASS[node[1]]
    if k == 'fn':
        return 'function-' + node[1]
    return 'literal' if k != 'ref' else 'reference'


# --------------------------------------------------------------------------- rendering

STYLES = {
    'min': dict(parens='min', space='', case='upper'),
    'full': dict(parens='full', space='', case='upper'),
    'min-spaced': dict(parens='min', space=' ', case='lower'),
    'all-spaced': dict(parens='all', space=' ', case='mixed'),
    'full-linefeed': dict(parens='full', space='\n', case='mixed'),
    'all': dict(parens='all', space='', case='lower'),
}
VARIED = ('min-spaced', 'all-spaced', 'full-linefeed', 'all')


def _case(name, how):
    if how == 'lower':
        return name.lower()
    if how == 'mixed':
        return name[0].upper() + name[1:].lower() if len(name) > 2 else name[0].lower() + name[1:]
    return name


def render(node, st, top=True):
    """Excel text of the tree (without the leading '=')"""
    k = node[0]
    sp = st['space']
    if k == 'num':
        return node[1]
    if k == 'str':
        return '"' + node[1].replace('"', '""') + '"'
    if k == 'bool':
        return 'TRUE' if node[1] else 'FALSE'
    if k in ('err', 'ref'):
        return node[1]
    if k == 'fn':
        pad = ' ' if sp else ''
        args = (',' + pad).join(render(a, st, top=False) for a in node[2])
        return f'{_case(node[1], st["case"])}({pad}{args}{pad})'

    def wrap(child, need):
        s = render(child, st, top=False)
        force = st['parens'] == 'all' or (st['parens'] == 'full' and is_op(child))
        if need or force:
            pad = ' ' if sp else ''
            return f'({pad}{s}{pad})'
        return s
    if k == 'neg':
        return '-' + wrap(node[1], prec(node[1]) < 8)
    if k == 'pct':
        return wrap(node[1], prec(node[1]) < 7) + '%'
    op, a, b = node[1], node[2], node[3]
    p = LEVELS[op]
    left, right = wrap(a, prec(a) < p), wrap(b, prec(b) <= p)
    if sp == '\n':
        return f'{left} {op}\n{right}'
    return f'{left}{sp}{op}{sp}{right}'


def formula(node, style):
    return '=' + render(node, STYLES[style])


# --------------------------------------------------------------------------- the oracle

class Dropped(Exception):
    """the tree is outside the bounds of the check (never shown to pycel)"""


def leaf_value(node, env):
    k = node[0]
    if k == 'num':
        t = node[1]
        return int(t) if t.isdigit() else float(t)
    if k in ('str', 'bool', 'err'):
        return node[1]
    if k == 'ref':
        return env[node[1]]
    raise ValueError(node)


def _plain_number(v):
    return isinstance(v, (int, float)) and not isinstance(v, bool)


def tree_value(node, env):
    """value of the tree by the statement's semantics, ref.UNSPEC where it has none"""
    k = node[0]
    if k in ('neg', 'pct'):
        a = tree_value(node[1], env)
        return ref.UNSPEC if _operator_territory(a) else ref.evaluate(k, a)
    if k == 'bin':
        a, b = tree_value(node[2], env), tree_value(node[3], env)
        if node[1] == '^' and a is not ref.UNSPEC and b is not ref.UNSPEC \
                and not ref.in_bounds('^', a, b):
            raise Dropped('power-out-of-bounds')
        if node[1] in ref.ARITH and (_operator_territory(a) or _operator_territory(b)):
            return ref.UNSPEC
        return ref.evaluate(node[1], a, b)
    if k == 'fn':
        args = [tree_value(a, env) for a in node[2]]
        name = node[1]
        if name == 'ABS':
            return (ref.Inexact(abs(args[0])) if isinstance(args[0], ref.Inexact) else abs(args[0])) \
                if _plain_number(args[0]) else ref.UNSPEC
        if name == 'SUM':
            if all(_plain_number(a) for a in args):
                total = args[0]
                for a in args[1:]:
                    total = ref.evaluate('+', total, a)
                return total
            return ref.UNSPEC
        if name == 'IF':
            c = args[0]
            if isinstance(c, bool) or (_plain_number(c) and not isinstance(c, ref.Inexact)):
                return args[1] if c else args[2]
            return ref.UNSPEC
        raise ValueError(name)
    return leaf_value(node, env)


def _operator_territory(v):
    """text spelled like a logical or like inf/nan used as an arithmetic operand: whether that is
    a number is a question about the operators (C10), not about the translation"""
    return isinstance(v, str) and v.strip().upper().lstrip('+-') in (
        'TRUE', 'FALSE', 'INF', 'INFINITY', 'NAN')


def same_value(obs, want):
    """type-strict; numbers by value (exact results: 1e-12, inexact: 1e-9 relative)"""
    if want is None:
        want = 0
    if isinstance(want, bool):
        return type(obs) is bool and obs == want
    if isinstance(want, (int, float)):
        if type(obs) not in (int, float):
            return False
        return ref.num_close(obs, want, 1e-9 if isinstance(want, ref.Inexact) else 1e-12)
    return type(obs) is str and obs == want


def norm(outcome):
    """canonical form of an observed outcome for comparing renderings with each other"""
    if outcome[0] == 'x':
        return ('x', outcome[1].split(':')[0])
    v = outcome[1]
    if type(v) is bool:
        return ('b', v)
    if type(v) in (int, float):
        if isinstance(v, float) and not math.isfinite(v):
            return ('n', repr(v))
        if isinstance(v, int) and abs(v) > 2 ** 900:
            return ('N', v)
        return ('n', float(f'{float(v):.12g}') + 0.0)
    if type(v) is str:
        return ('s', v)
    return ('?', repr(v))


# --------------------------------------------------------------------------- power-tower guard

TOWER_LIMIT = 2.0 ** 20       # bits of the largest integer any bracketing may build


def _mag(v):
    """log2-magnitude bound (>= 1) of a scalar"""
    if isinstance(v, str) and v not in ref.ERRORS:
        st, x = ref.text_number(v)
        v = x if st == 'num' else 1
    if isinstance(v, bool) or not isinstance(v, (int, float)) or v == 0:
        return 1.0
    return max(1.0, abs(math.log2(abs(v))))


def _comb(op, ml, mr):
    if op == '^':
        bits = 2.0 ** min(mr, 64.0) * ml
        if bits > TOWER_LIMIT:
            raise Dropped('power-tower-possible')
        return max(bits, 1.0)
    if op in ('*', '/'):
        return ml + mr
    if op in ('+', '-'):
        return max(ml, mr) + 1
    if op == '&':
        return ml + mr + 4
    return 1.0


def worst(node, env):
    """log2-magnitude bound of the subtree under ANY bracketing of its parenthesis-free runs"""
    k = node[0]
    if k == 'neg':
        return worst(node[1], env)
    if k == 'pct':
        return worst(node[1], env) + 7
    if k == 'fn':
        return max(worst(a, env) for a in node[2]) + 1
    if k != 'bin':
        return _mag(leaf_value(node, env))
    atoms, ops = [], []

    def flat(n):
        p = LEVELS[n[1]]
        for side, c in ((0, n[2]), (1, n[3])):
            if side == 1:
                ops.append(n[1])
            if c[0] == 'bin' and (prec(c) >= p if side == 0 else prec(c) > p):
                flat(c)
            else:
                atoms.append(worst(c, env))
    flat(node)
    n = len(atoms)
    best = [[0.0] * n for _ in range(n)]
    for i in range(n):
        best[i][i] = atoms[i]
    for span in range(1, n):
        for i in range(n - span):
            j = i + span
            best[i][j] = max(_comb(ops[m], best[i][m], best[m + 1][j]) for m in range(i, j))
    return best[0][n - 1]


def has_power(node):
    return (node[0] == 'bin' and node[1] == '^') or any(has_power(c) for c in children(node))


# --------------------------------------------------------------------------- routes into pycel

class CtxRoute:
    def __init__(self):
        from pycel.excelformula import ExcelFormula
        self.cls = ExcelFormula
        self.env = {}
        self.ev = ExcelFormula.build_eval_context(lambda addr: self.env[str(addr)],
                                                  lambda addr: lib._no_cell(addr))

    def run(self, text, env):
        """('v', value, python_code) | ('c', 'Class: msg', None) compile failure |
        ('x', 'Class: msg', python_code) evaluation failure"""
        self.env = env
        code = None
        try:
            f = self.cls(text)
            code = f.python_code
            f.compiled_python
        except Exception as exc:  # noqa
            return ('c', _exc_text(exc), code)
        try:
            return ('v', self.ev(f), code)
        except Exception as exc:  # noqa
            return ('x', _exc_text(exc), code)


def _exc_text(exc):
    lines = str(exc).strip().splitlines()
    inner = [ln for ln in lines if ln.split(':')[0].endswith(('Error', 'Exception'))
             and ' ' not in ln.split(':')[0]]
    return f'{type(exc).__name__}: {(inner[-1] if inner else (lines[-1] if lines else ""))[:160]}'


_CTX = []


def ctx_route():
    if not _CTX:
        _CTX.append(CtxRoute())
    return _CTX[0]


def wb_env(env):
    return {k: ('=""' if v == '' else v) for k, v in env.items() if v is not None}


# --------------------------------------------------------------------------- judging a tree

ENVS = [
    {'A1': -3, 'B1': 0.5, 'C1': None, 'D1': '4', 'E1': True, 'F1': 'x', 'G1': '#DIV/0!', 'H1': 2},
    {'A1': 0.25, 'B1': 2, 'C1': None, 'D1': 'ab', 'E1': False, 'F1': '', 'G1': '#N/A', 'H1': -1},
    {'A1': '3', 'B1': -2, 'C1': None, 'D1': 1.5, 'E1': True, 'F1': 'X', 'G1': '#VALUE!', 'H1': 0},
]


def show(v):
    if isinstance(v, int) and not isinstance(v, bool) and abs(v) > 10 ** 30:
        return f'<int of {len(str(abs(v)))} digits>'
    return f'{v!r}'


def fails(outcome, want):
    """does one observed outcome contradict a determinate expectation?"""
    return outcome[0] != 'v' or not same_value(outcome[1], want)


def culprit(tree, env, styles=('min', 'full')):
    """smallest subtree whose own text (in one of the given renderings) already goes wrong"""
    cr = ctx_route()
    for sub in sorted(subtrees(tree), key=size):
        try:
            want = tree_value(sub, env)
        except Dropped:
            continue
        if want is ref.UNSPEC:
            continue
        for style in styles:
            got = cr.run(formula(sub, style), env)
            if fails(got, want):
                return sub, style, got, want
    return None


def relevant_children(sub, env, styles):
    """operator children of the failing subtree that matter: replaced by a plain cell holding the
    child's value the failure disappears"""
    cr = ctx_route()
    out = []
    kids = children(sub)
    for idx, c in enumerate(kids):
        if not (is_op(c) or c[0] == 'fn'):
            continue
        v = tree_value(c, env)
        if v is ref.UNSPEC:
            out.append(c)
            continue
        env2 = dict(env, Z9=float(v) if isinstance(v, ref.Inexact) else v)
        new_kids = kids[:idx] + [cell('Z9')] + kids[idx + 1:]
        if sub[0] == 'bin':
            sub2 = ['bin', sub[1]] + new_kids
        elif sub[0] == 'fn':
            sub2 = ['fn', sub[1], new_kids]
        else:
            sub2 = [sub[0]] + new_kids
        try:
            want2 = tree_value(sub2, env2)
        except Dropped:
            out.append(c)
            continue
        if want2 is ref.UNSPEC or not any(fails(cr.run(formula(sub2, st), env2), want2) for st in styles):
            out.append(c)
    return out


def text_classes(s):
    out = []
    for name, test in (('backslash', '\\' in s), ('line-feed', '\n' in s),
                       ('carriage-return', '\r' in s), ('EMPTY-sentinel', s == '#EMPTY!')):
        if test:
            out.append(name)
    return out


def classify(tree, env, failure, style='min'):
    """mechanism key from the smallest failing subtree (a predicate over tree shapes, not values)"""
    styles, where = ('min', 'full'), ''
    found = culprit(tree, env)
    if found is None and style not in styles:
        # only a varied rendering (blanks, line feeds, leaf parentheses, name case) goes wrong
        styles, where = (style,), f'only-in-rendering:{style}:'
        found = culprit(tree, env, styles)
    if found is None:
        kind = {'c': 'does-not-compile', 'x': 'raises', 'v': 'wrong-value'}[failure[0]]
        return f'{kind}/only-in-context:{opclass(tree)}'
    sub, _, got, want = found
    kind = {'c': 'does-not-compile', 'x': 'raises', 'v': 'wrong-value'}[got[0]]
    k = sub[0]
    if k == 'str':
        cls = text_classes(sub[1])
        return 'text-literal/' + where + ('+'.join(cls) if cls else f'other-{kind}')
    if k == 'num':
        return f'number-literal/{where}{number_form(sub[1])}-{kind}'
    if k in ('bool', 'err', 'ref'):
        name = dict(bool='logical', err='error', ref='reference')[k]
        return f'{name}-literal/{where}{kind}'
    if k == 'bin' and sub[1] == '^' and sub[2][0] == 'neg' and got[0] == 'v' and not where:
        return 'unary-minus-under-power'
    under = sorted({opclass(c) for c in relevant_children(sub, env, styles)})
    return f'{kind}/{where}{opclass(sub)}' + (f'-over-{"+".join(under)}' if under else '')


def number_form(text):
    if len(text) > 1 and text[0] == '0' and text[1].isdigit():
        return 'leading-zeros'
    if 'E' in text or 'e' in text:
        return 'scientific'
    return 'decimal' if '.' in text else 'integer'


def judge_tree(ctx, tree, env, styles, workbook=False, sampled=False, part='tree'):
    """run one tree in the given renderings; report at most one violation for it"""
    if has_power(tree):
        try:
            worst(tree, env)
        except Dropped as d:
            ctx.count(f'dropped:{d}')
            return 'dropped'
    try:
        want = tree_value(tree, env)
    except Dropped as d:
        ctx.count(f'dropped:{d}')
        return 'dropped'
    ctx.count(part)
    ctx.count(f'depth:{depth(tree)}')
    ctx.count('root:' + opclass(tree))
    determinate = want is not ref.UNSPEC
    ctx.count('oracle:' + ('inexact' if isinstance(want, ref.Inexact) else
                           'determinate' if determinate else 'agreement-only'))
    if determinate and isinstance(want, str) and want in ref.ERRORS:
        ctx.count('oracle:error-value')
    cr = ctx_route()
    seen = []
    for style in styles:
        text = formula(tree, style)
        got = cr.run(text, env)
        ctx.count('rendering:' + style)
        ctx.case((text, repr(sorted(env.items(), key=str))) if sampled else None,
                 nontrivial=bool(children(tree)) or part != 'tree')
        seen.append((style, 'ctx', text, got))
    if workbook:
        for style in styles[:2]:
            text = formula(tree, style)
            out = lib.eval_formula(text, wb_env(env))
            got = ('v', out[1], None) if out[0] == 'v' else ('x', out[1], None)
            ctx.count('route:workbook')
            ctx.case((text, 'wb') if sampled else None)
            seen.append((style, 'wb', text, got))
    if ctx.evaluations % 20011 < len(styles):
        ctx.sample({'tree': tree, 'texts': [s[2] for s in seen], 'python_code': seen[0][3][2],
                    'expected': repr(want), 'observed': [show(s[3][1]) for s in seen]})
    case = {'kind': 'tree', 'tree': tree, 'env': env, 'styles': list(styles), 'workbook': workbook}
    if determinate:
        for style, route, text, got in seen:
            if fails(got, want):
                key = classify(tree, env, got, style)
                if route == 'wb' and not any(fails(g, want) for _, r, _, g in seen if r == 'ctx'):
                    key += '/workbook-route-only'
                ctx.violation(key, f'{text!r} [{style}, {route}] -> '
                              f'{show(got[1])}{"" if got[0] == "v" else " (" + got[0] + ")"}; the tree '
                              f'{describe(tree)} evaluates to {show(want)}; python_code={got[2]!r}; '
                              f'cells={dict((k, v) for k, v in env.items() if refers(tree, k))}', case)
                return key
        return None
    norms = {norm(g) for _, _, _, g in seen}
    if len(norms) > 1:
        a, b = seen[0], next(s for s in seen if norm(s[3]) != norm(seen[0][3]))
        key = f'renderings-disagree/{opclass(tree)}'
        ctx.violation(key, f'{a[2]!r} [{a[0]}, {a[1]}] -> {show(a[3][1])} but {b[2]!r} [{b[0]}, {b[1]}] '
                      f'-> {show(b[3][1])} for the same tree {describe(tree)}', case)
        return key
    return None


def refers(tree, name):
    return any(n[0] == 'ref' and n[1] == name for n in subtrees(tree))


def describe(node):
    """fully bracketed prefix-free spelling of the tree, for messages"""
    k = node[0]
    if k == 'neg':
        return f'(-{describe(node[1])})'
    if k == 'pct':
        return f'({describe(node[1])}%)'
    if k == 'bin':
        return f'({describe(node[2])} {node[1]} {describe(node[3])})'
    if k == 'fn':
        return f'{node[1]}({", ".join(describe(a) for a in node[2])})'
    return render(node, STYLES['min'])


# --------------------------------------------------------------------------- enumerations

LEAVES14 = [num('2'), num('3'), num('0.5'), num('0'), txt('4'), txt('ab'), txt(''), TRUE, FALSE,
            err('#N/A'), cell('A1'), cell('B1'), cell('C1'), cell('G1')]
LEAVES6 = [num('2'), num('3'), num('0.5'), txt('4'), TRUE, cell('A1')]
POS_POOLS = [[num('2'), txt('4')], [num('3'), num('0.5')], [num('2'), TRUE], [num('3'), cell('A1')]]
LEAVES4 = [num('2'), num('3'), txt('4'), cell('A1')]
LEAVES3 = [num('2'), num('3'), cell('B1')]


def inner_nodes(leaves_a, leaves_b):
    """all depth-1 trees: 12 binary operators over leaves_a x leaves_b, 2 unary over leaves_a"""
    for op in BIN:
        for a in leaves_a:
            for b in leaves_b:
                yield binop(op, a, b)
    for a in leaves_a:
        yield neg(a)
        yield pct(a)


def quick_trees():
    """(part, tree) - the exhaustive quick space"""
    for leaf in LEAVES14:
        yield 'depth0', leaf
    for t in inner_nodes(LEAVES14, LEAVES14):
        yield 'depth1', t
    # depth 2, one operator child
    inner6 = list(inner_nodes(LEAVES6, LEAVES6))
    for inner in inner6:
        yield 'depth2-one-inner', neg(inner)
        yield 'depth2-one-inner', pct(inner)
        for op in BIN:
            for leaf in LEAVES4:
                yield 'depth2-one-inner', binop(op, inner, leaf)
                yield 'depth2-one-inner', binop(op, leaf, inner)
    # depth 2, two operator children, position-specific leaf pools
    left = list(inner_nodes(POS_POOLS[0], POS_POOLS[1]))
    right = list(inner_nodes(POS_POOLS[2], POS_POOLS[3]))
    for op in BIN:
        for a in left:
            for b in right:
                yield 'depth2-two-inner', binop(op, a, b)
    yield from function_trees()


FN_ARGS = LEAVES6 + [cell('C1'), err('#N/A')] + \
    [binop(op, num('3'), num('2')) for op in BIN] + \
    [binop(op, cell('A1'), txt('4')) for op in ('+', '^', '&', '=', '<')] + \
    [neg(num('2')), pct(num('3')), neg(cell('A1'))]
FN_CONDS = [TRUE, FALSE, num('0'), num('2'), cell('E1'), cell('C1'), txt('ab'),
            binop('<', num('2'), num('3')), binop('=', cell('A1'), num('2')),
            binop('>=', num('2'), num('3')), binop('<>', txt('4'), num('4')), neg(num('0'))]


def function_trees():
    calls = []
    for a in FN_ARGS:
        calls.append(call('ABS', a))
        for b in FN_ARGS:
            calls.append(call('SUM', a, b))
    for c in FN_CONDS:
        for a in FN_ARGS:
            for b in FN_ARGS[:10]:
                calls.append(call('IF', c, a, b))
    for t in calls:
        yield 'function-call', t
    # calls as operands
    some = [call('ABS', neg(num('2'))), call('SUM', num('2'), num('3')),
            call('IF', binop('<', num('2'), num('3')), num('3'), num('2')),
            call('SUM', binop('^', neg(num('2')), num('2')), num('0.5')),
            call('ABS', binop('-', num('2'), num('3'))), call('IF', TRUE, cell('C1'), num('2')),
            call('SUM', call('ABS', neg(num('3'))), pct(num('2')))]
    for f in some:
        yield 'function-as-operand', neg(f)
        yield 'function-as-operand', pct(f)
        for op in BIN:
            for leaf in LEAVES6:
                yield 'function-as-operand', binop(op, f, leaf)
                yield 'function-as-operand', binop(op, leaf, f)
        for g in some[:3]:
            for op in ('^', '-', '&', '<'):
                yield 'function-as-operand', binop(op, f, g)


def chain_trees():
    """all depth-3 chains: one operator child per node, on either side; 3-leaf pool"""
    bottoms = list(inner_nodes(LEAVES3, LEAVES3))

    def grow(sub):
        yield neg(sub)
        yield pct(sub)
        for op in BIN:
            for leaf in LEAVES3:
                yield binop(op, sub, leaf)
                yield binop(op, leaf, sub)
    for b in bottoms:
        for mid in grow(b):
            for top in grow(mid):
                yield 'depth3-chain', top


def random_tree(rng, d, leaves):
    if d == 0 or rng.random() < 0.12:
        return rng.choice(leaves)
    r = rng.random()
    if r < 0.1:
        return neg(random_tree(rng, d - 1, leaves))
    if r < 0.17:
        return pct(random_tree(rng, d - 1, leaves))
    if r < 0.25:
        name = rng.choice(('SUM', 'IF', 'ABS'))
        if name == 'ABS':
            return call('ABS', random_tree(rng, d - 1, leaves))
        if name == 'SUM':
            return call('SUM', random_tree(rng, d - 1, leaves), random_tree(rng, d - 1, leaves))
        return call('IF', random_tree(rng, min(d - 1, 1), leaves), random_tree(rng, d - 1, leaves),
                    random_tree(rng, d - 1, leaves))
    op = rng.choice(BIN) if rng.random() < 0.6 else rng.choice(('^', '*', '/', '+', '-', '&'))
    deep = rng.random() < 0.5
    a = random_tree(rng, d - 1 if deep else rng.randint(0, d - 1), leaves)
    b = random_tree(rng, rng.randint(0, d - 1) if deep else d - 1, leaves)
    return binop(op, a, b)


SAMPLE_LEAVES = LEAVES14 + [num('1'), num('4'), num('0.25'), num('1.5'), cell('D1'), cell('E1'),
                            cell('F1'), cell('H1'), txt('x'), txt('a"b'), err('#DIV/0!')]
MIN_SAMPLED = {'quick': 400, 'thorough': 20000}
ORDER_TEXTS = ['_', 'a', 'a_b', 'ab', 'A^', 'Z', '[x', 'AB', 'a`']


def styles_for(i):
    """minimal and fully parenthesised always; a varied rendering for every second tree"""
    if i % 2:
        return ('min', 'full')
    return ('min', 'full', VARIED[(i // 2) % len(VARIED)])


# --------------------------------------------------------------------------- literals

ALPHABET = ['"', '\\', '\n', '\r', '\t', '{', '}', "'", '%', '#', '&', '=', ' ', 'a', 'n', 'x',
            '0', 'é', '日', '\U0001F600']
NUMBER_SPELLINGS = ['0', '1', '7', '12', '100', '255', '65536', '1000000', '0.5', '0.25', '1.5',
                    '3.14159', '123.456', '0.001', '1.5E-3', '1.5E-03', '1E+20', '2.5E+15', '1E-20',
                    '9.99E+5', '1E+2', '6.02E+23',
                    # spellings Excel accepts as typed: leading zeros, a zero mantissa, bare decimal points, e
                    '007', '00', '010', '007.50', '0.50', '0E3', '0e0', '0.0E3', '1.', '.5', '1e2', '10E2']
DIRECTED_TEXT = ['#EMPTY!', '\\n', 'a\\nb', '\\', 'a\\', '\\"', 'C:\\dir\\file', 'line1\nline2',
                 'tab\there', '{1,2;3,4}', "it's", '50%', 'TRUE', '=1+1', '""', 'a""b',
                 '\\x41', '\\u0041', '\\N{BULLET}', '\\101', "\\'", 'x\r\ny', ' lead', 'trail ',
                 '日本語', 'é€😀', '%s %d {0}', '$A$1', 'A1:B2']


def literal_contexts(s):
    lit = txt(s)
    return [('plain', lit, s), ('concat', binop('&', txt('<'), lit), '<' + s),
            ('if-arg', call('IF', TRUE, lit, txt('')), s)]


def judge_text_literal(ctx, s):
    cr = ctx_route()
    failed = None
    for name, tree, want in literal_contexts(s):
        text = formula(tree, 'min')
        got = cr.run(text, {})
        ctx.count('text-literal')
        ctx.count('text-literal:' + name)
        ctx.case(None)
        if failed is None and fails(got, want):
            failed = (text, got, want)
    if failed is None:
        return True
    text, got, want = failed
    cls = text_classes(s)
    if not cls:
        # which single characters already fail on their own?
        cls = sorted({char_class(c) for c in set(s)
                      if fails(cr.run(formula(txt(c), 'min'), {}), c)}) or ['other']
    how = '' if got[0] == 'v' else ' (does not compile)' if got[0] == 'c' else ' (raises)'
    for c in cls:
        ctx.violation(f'text-literal/{c}', f'{text!r} -> {show(got[1])}{how}; the literal denotes '
                      f'{want!r}; python_code={got[2]!r}', {'kind': 'text', 'text': s})
    return False


def char_class(c):
    names = {'"': 'quote', '\\': 'backslash', '\n': 'line-feed', '\r': 'carriage-return',
             '\t': 'tab', '{': 'brace', '}': 'brace', "'": 'apostrophe', '%': 'percent'}
    return names.get(c, 'non-ascii' if ord(c) > 127 else 'other')


def judge_scalar_literals(ctx):
    cr = ctx_route()
    for sp in NUMBER_SPELLINGS:
        want = int(sp) if sp.isdigit() else float(sp)
        for name, text, w in (('plain', f'={sp}', want), ('negated', f'=-{sp}', -want),
                              ('sum', f'={sp}+0', want), ('arg', f'=ABS({sp})', want)):
            got = cr.run(text, {})
            ctx.count('number-literal')
            ctx.case(None)
            if got[0] != 'v' or type(got[1]) not in (int, float) or got[1] != w:
                ctx.violation(f'number-literal/{number_form(sp)}-{name}', f'{text!r} -> {show(got[1])}; '
                              f'the literal denotes {w!r}; python_code={got[2]!r}',
                              {'kind': 'number', 'spelling': sp})
    # literals of more than 15 digits denote their value like any other (a whole number stays that whole number)
    for sp in ('9007199254740993', '12345678901234567890', '100000000000000001', '99999999999999999999999'):
        for name, text, w in (('plain', f'={sp}', int(sp)), ('difference', f'={sp}-{int(sp) - 1}', 1),
                              ('text', f'={sp}&""', sp), ('compared', f'={sp}={int(sp) - 1}', False)):
            got = cr.run(text, {})
            ctx.count('number-literal')
            ctx.count('number-literal-of-more-than-15-digits')
            ctx.case(None)
            if got[0] != 'v' or type(got[1]) is not type(w) or got[1] != w:
                ctx.violation(f'number-literal/long-integer-{name}', f'{text!r} -> {show(got[1])}; the literal denotes '
                              f'{int(sp)!r}, so the formula gives {w!r}; python_code={got[2]!r}',
                              {'kind': 'number', 'spelling': sp})
    # a negative number literal (in parentheses, or under the prefix minus that binds tighter than ^) raised to a
    # literal power that is not whole has no real value: an error value, never another type
    for text in ('=(-8)^0.5', '=-8^0.5', '=(-8)^(1/2)', '=(2-10)^0.5', '=(-2.5)^1.5', '=-4^-0.5', '=(-8)^0.25&""', '=((-8)^0.5)=1'):
        got = cr.run(text, {})
        ctx.count('negative-literal-to-a-fractional-power')
        ctx.case(None)
        if got[0] != 'v' or got[1] not in ('#NUM!', '#DIV/0!', '#VALUE!'):
            ctx.violation('power/negative-literal-base-fractional-exponent', f'{text!r} -> {show(got[1])}; expected an error '
                          f'value (#NUM!); python_code={got[2]!r}', {'kind': 'formula', 'formula': text, 'want': '#NUM!'})
    for text, want in (('=TRUE', True), ('=FALSE', False), ('=IF(TRUE,TRUE,FALSE)', True),
                       ('=IF(FALSE,TRUE,FALSE)', False), ('=TRUE&FALSE', 'TRUEFALSE')):
        got = cr.run(text, {})
        ctx.count('logical-literal')
        ctx.case(None)
        if fails(got, want):
            ctx.violation('logical-literal', f'{text!r} -> {show(got[1])}; expected {want!r}',
                          {'kind': 'formula', 'formula': text, 'want': want})
    for code in ref.ERRORS:
        for text in (f'={code}', f'=IF(TRUE,{code},1)', f'={code}&"x"', f'=1+{code}', f'=-{code}',
                     f'={code}%', f'=({code})', f'={code}={code}'):
            got = cr.run(text, {})
            ctx.count('error-literal')
            ctx.case(None)
            if fails(got, code):
                ctx.violation('error-literal', f'{text!r} -> {show(got[1])}; expected {code!r}; '
                              f'python_code={got[2]!r}', {'kind': 'formula', 'formula': text, 'want': code})


def all_texts(max_len):
    level = ['']
    for _ in range(max_len):
        level = [s + c for s in level for c in ALPHABET]
        yield from level


# --------------------------------------------------------------------------- references as arguments

# sheet names Excel accepts (anything but : \\ / ? * [ ], at most 31 characters, no apostrophe at either end)
REF_SHEETS = ['Data', 'My Sheet', 'Sheet1 (2)', "it's", 'a"b', 'P&L (EU)', 'Costs+1,2', '2024', 'x{y}', 'a%b',
              'A1', 'say "hi" (1)', 'Σ-total', 'a)b', 'c(d', 'e!f', 'TRUE', 'R1C1', 'US$', 'Cost $ (net)']
GRID_ROWS, GRID_COLS = 4, 3


def grid_value(r, c):
    return 10 * r + c


def _a1(r, c):
    return f'{chr(64 + c)}{r}'


def reference_formulas(q):
    """(shape, formula, expected value): the references are on the sheet whose quoted prefix is ``q`` ('' = the
    formula's own sheet); expected values come from the grid itself"""
    g = grid_value
    cell = lambda r, c: f'{q}{_a1(r, c)}'                                  # noqa: E731
    rng = lambda r1, c1, r2, c2: f'{q}{_a1(r1, c1)}:{_a1(r2, c2)}'        # noqa: E731
    total = lambda r1, c1, r2, c2: sum(g(r, c) for r in range(r1, r2 + 1) for c in range(c1, c2 + 1))  # noqa: E731
    yield 'cell', f'={cell(2, 2)}', g(2, 2)
    yield 'cell-in-operator', f'=-{cell(1, 3)}+{cell(3, 1)}*2', -g(1, 3) + g(3, 1) * 2
    yield 'range-in-call', f'=SUM({rng(1, 1, 3, 2)})', total(1, 1, 3, 2)
    yield 'two-ranges-in-call', f'=SUM({rng(1, 1, 1, 3)},{rng(4, 1, 4, 2)},{cell(2, 2)})', \
        total(1, 1, 1, 3) + total(4, 1, 4, 2) + g(2, 2)
    yield 'intersection', f'=SUM({rng(1, 1, 3, 2)} {rng(2, 2, 4, 3)})', total(2, 2, 3, 2)
    yield 'intersection-in-one-cell', f'=SUM({rng(2, 1, 2, 3)} {rng(1, 2, 4, 2)})', g(2, 2)
    # (row 5 and the rows below it are empty)
    yield 'intersection-in-one-blank-cell', f'=1+SUM({rng(5, 1, 5, 3)} {rng(4, 2, 6, 2)})', 1
    if not q:
        # (with a sheet on both sides pycel declines: NotImplementedError 'Non-rectangular formulas')
        yield 'range-operator', f'=SUM({cell(1, 1)}:{cell(2, 2)})', total(1, 1, 2, 2)
    for r, c in ((1, 0), (0, 2), (2, 1)):
        yield 'offset-of-cell', f'=OFFSET({cell(1, 1)},{r},{c})', g(1 + r, 1 + c)
        yield 'offset-of-cell', f'=OFFSET({cell(2, 1)},{r},{c})+1', g(2 + r, 1 + c) + 1
    yield 'offset-sized', f'=SUM(OFFSET({cell(1, 1)},1,1,2,2))', total(2, 2, 3, 3)
    yield 'offset-of-range', f'=SUM(OFFSET({rng(1, 1, 2, 2)},2,1))', total(3, 2, 4, 3)
    yield 'offset-computed-arguments', f'=OFFSET({cell(1, 1)},(1+1),ABS(-1))', g(3, 2)
    yield 'offset-of-offset', f'=OFFSET(OFFSET({cell(1, 1)},1,1),2,1)', g(4, 3)
    yield 'row-of-cell', f'=ROW({cell(3, 2)})', 3
    yield 'column-of-cell', f'=COLUMN({cell(3, 2)})*10', 20
    yield 'column-of-offset', f'=COLUMN(OFFSET({cell(1, 1)},2,2))', 3
    yield 'index-of-range', f'=INDEX({rng(1, 1, 4, 3)},3,2)', g(3, 2)
    yield 'index-column-vector', f'=INDEX({rng(1, 2, 4, 2)},4)', g(4, 2)
    yield 'count-of-ranges', f'=COUNT({rng(1, 1, 4, 3)},{cell(1, 1)})', GRID_ROWS * GRID_COLS + 1
    yield 'if-of-references', f'=IF({cell(1, 1)}>{cell(1, 2)},{cell(2, 1)},{cell(2, 2)})', g(2, 2)
    # a call which returns a reference, as an operand and as an argument
    off = f'OFFSET({cell(2, 1)},1,1)'
    yield 'reference-call-as-operand', f'={off}+1', g(3, 2) + 1
    yield 'reference-call-as-operand', f'=2*{off}', 2 * g(3, 2)
    yield 'reference-call-as-operand', f'=-{off}', -g(3, 2)
    yield 'reference-call-as-operand', f'={off}%', g(3, 2) / 100
    yield 'reference-call-as-operand', f'={off}&"x"', f'{g(3, 2)}x'
    yield 'reference-call-as-operand', f'={off}^2', g(3, 2) ** 2
    yield 'reference-call-as-operand', f'={off}>{cell(1, 1)}', True
    yield 'reference-call-as-operand', f'={off}-OFFSET({cell(1, 1)},0,1)', g(3, 2) - g(1, 2)
    yield 'reference-call-as-operand', f'={off}=OFFSET({cell(1, 1)},2,1)', True
    yield 'reference-call-as-operand', f'={off}&OFFSET({cell(1, 1)},0,1)', f'{g(3, 2)}{g(1, 2)}'
    yield 'reference-call-as-argument', f'=ABS(-{off})', g(3, 2)
    yield 'reference-call-as-argument', f'=SUM({off},1)', g(3, 2) + 1
    yield 'reference-call-as-argument', f'=SUM(OFFSET({rng(1, 1, 2, 2)},1,1))', total(2, 2, 3, 3)
    yield 'reference-call-as-argument', f'=AVERAGE(OFFSET({cell(1, 1)},0,0,2,1))', (g(1, 1) + g(2, 1)) / 2
    yield 'reference-call-as-argument', f'=MAX(OFFSET({cell(1, 1)},0,0,4,3))', g(4, 3)
    yield 'reference-call-as-argument', f'=MIN(OFFSET({cell(1, 1)},1,0,3,3),99)', g(2, 1)
    yield 'reference-call-as-argument', f'=COUNT(OFFSET({cell(1, 1)},0,0,3,3))', 9
    yield 'reference-call-as-argument', f'=IF(AND({off}>0,TRUE),{off},0)', g(3, 2)
    yield 'reference-call-as-argument', f'=IFERROR({off}+1,0)', g(3, 2) + 1
    yield 'reference-call-as-argument', f'=SUMPRODUCT(OFFSET({cell(1, 1)},0,0,2,1),OFFSET({cell(1, 2)},0,0,2,1))', \
        g(1, 1) * g(1, 2) + g(2, 1) * g(2, 2)
    text = f'{q}{_a1(3, 3)}'.replace('"', '""')
    yield 'indirect-of-text', f'=INDIRECT("{text}")', g(3, 3)
    yield 'reference-call-as-operand', f'=INDIRECT("{text}")+1', g(3, 3) + 1
    rtext = f'{q}{_a1(2, 1)}:{_a1(3, 2)}'.replace('"', '""')
    yield 'reference-call-as-argument', f'=SUM(INDIRECT("{rtext}"))', total(2, 1, 3, 2)


def spaced(formula):
    """the same formula with a blank after every argument separator outside quotes"""
    out, quote = [], None
    for ch in formula:
        if quote:
            if ch == quote:
                quote = None
        elif ch in '"\'':
            quote = ch
        out.append(ch)
        if ch == ',' and not quote:
            out.append(' ')
    return ''.join(out)


def judge_reference_calls(ctx, only=None):
    """formulas whose arguments are references to (other) sheets with every kind of legal name: the value is read
    off a grid of distinct numbers, in the workbook route (these need sheets to refer to)"""
    from vp import wb
    grid = {_a1(r, c): grid_value(r, c) for r in range(1, GRID_ROWS + 1) for c in range(1, GRID_COLS + 1)}
    k = 0
    for name in REF_SHEETS:
        for own in (False, True):
            q = '' if own else (name if name == 'Data' else "'" + name.replace("'", "''") + "'") + '!'
            home = name if own else 'Sheet1'
            for shape, text, want in reference_formulas(q):
                for style in ('min', 'spaced'):
                    k += 1
                    if only is not None and only != (name, own, shape, text, style):
                        continue
                    if only is None and not ctx.mine(k):
                        continue
                    f = text if style == 'min' else spaced(text)
                    sheets = [[home, dict(grid)]] if own else [['Sheet1', {}], [name, dict(grid)]]
                    sheets[0][1]['Z99'] = f
                    spec = {'sheets': sheets, 'names': {}, 'arrays': [], 'calc': None}
                    got = wb.outcome(lambda: wb.compile_mem(spec).evaluate(wb.addr(home, 'Z99')))
                    ctx.count('reference-call')
                    ctx.count('reference-call:' + shape)
                    ctx.count('reference-sheet:' + ('own' if own else 'other') + ':' + sheet_class(name))
                    ctx.case(None)
                    if not wb.same_outcome(got, ('v', want)):
                        ctx.violation(f'reference-call/{shape}/{sheet_class(name)}',
                                      f'{f!r} on sheet {home!r} -> {got[1]!r}{"" if got[0] == "v" else " (raised)"}; '
                                      f'the cells it names hold {want!r} (grid value of row r, column c = 10r+c)',
                                      {'kind': 'reference', 'only': [name, own, shape, text, style]})


def sheet_class(name):
    if all(c.isalnum() or c == '_' for c in name) and not name[0].isdigit() and not name.isupper():
        return 'plain-name'
    marks = sorted({c for c in name if not (c.isalnum() or c in ' _')})
    if marks:
        return 'name-with-' + ''.join(marks)
    return 'name-needing-quotes'


# --------------------------------------------------------------------------- floors (deterministic parts)

FLOORS = {
    'quick': {'depth1': 2380, 'depth2-one-inner': 43000, 'depth2-two-inner': 32000,
              'function-call': 4100, 'function-as-operand': 1100, 'oracle:determinate': 70000,
              'oracle:error-value': 2800, 'rendering:min': 83000, 'rendering:full': 83000,
              'text-literal': 1300, 'number-literal': 136, 'error-literal': 56, 'route:workbook': 1500,
              'sampled-trees': 400, 'text-order': 486, 'reference-call': 3000,
              'reference-call:reference-call-as-operand': 700, 'reference-call:reference-call-as-argument': 700},
    'thorough': {'depth2-one-inner': 43000, 'depth2-two-inner': 32000, 'depth3-chain': 560000,
                 'function-call': 4100, 'oracle:determinate': 400000, 'rendering:min': 640000,
                 'text-literal': 25000, 'route:workbook': 10000, 'sampled-trees': 20000,
                 'reference-call': 3000},
}


# --------------------------------------------------------------------------- run / replay

def run(ctx):
    # literals
    if ctx.shard == 0:
        judge_scalar_literals(ctx)
    for i, s in enumerate(DIRECTED_TEXT + list(all_texts(2 if ctx.quick else 3))):
        if ctx.mine(i):
            judge_text_literal(ctx, s)
    judge_reference_calls(ctx)
    # exhaustive trees
    spaces = [quick_trees()] + ([] if ctx.quick else [chain_trees()])
    i = 0
    for space in spaces:
        for part, tree in space:
            i += 1
            if not ctx.mine(i):
                continue
            env = ENVS[i % len(ENVS)]
            judge_tree(ctx, tree, env, styles_for(i // 16), workbook=(i // 16) % 50 == 0, part=part)
    # comparisons of text literals whose order depends on how case is folded (punctuation between Z and a)
    k = 0
    for a in ORDER_TEXTS:
        for b in ORDER_TEXTS:
            for op in ref.COMPARE:
                k += 1
                if ctx.mine(k):
                    judge_tree(ctx, binop(op, txt(a), txt(b)), ENVS[0], styles_for(k), workbook=k % 40 == 0,
                               part='text-order')
    # sampled deeper trees (a fixed minimum, then until the budget ends)
    rng = ctx.rng
    n = 0
    while n < MIN_SAMPLED[ctx.tier] or not ctx.out_of_time():
        tree = random_tree(rng, rng.randint(3, 4) if ctx.quick else rng.randint(4, 6), SAMPLE_LEAVES)
        if size(tree) > 60:
            continue
        env = rng.choice(ENVS)
        if judge_tree(ctx, tree, env, styles_for(n), workbook=n % 50 == 0, sampled=True,
                      part='sampled-trees') != 'dropped':
            n += 1
        if n % 25 == 0:
            s = ''.join(rng.choice(ALPHABET) for _ in range(rng.randint(3, 8)))
            ctx.count('text-literal:sampled')
            judge_text_literal(ctx, s)


def replay(ctx, case):
    k = case['kind']
    if k == 'tree':
        judge_tree(ctx, case['tree'], case['env'], tuple(case['styles']), workbook=case['workbook'])
    elif k == 'text':
        judge_text_literal(ctx, case['text'])
    elif k == 'number':
        judge_scalar_literals(ctx)
    elif k == 'reference':
        o = case['only']
        judge_reference_calls(ctx, only=(o[0], o[1], o[2], o[3], o[4]))
    else:
        got = ctx_route().run(case['formula'], {})
        ctx.case(None)
        if fails(got, case['want']):
            ctx.violation('logical-literal' if isinstance(case['want'], bool) else 'error-literal',
                          f'{case["formula"]!r} -> {show(got[1])}; expected {case["want"]!r}', case)
