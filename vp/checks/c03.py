"""C03 - persisted models are observationally equivalent to the model that was saved.

Lock-step twin run: the original model and the model read back (yml / json / pkl; in the same
process, on a fresh thread, in a fresh process) receive the same post-load history and every
return value is compared.  Determinism and idempotence of saving are checked on the bytes of the
text file (second save of the unchanged model) and on the parsed content of the re-saved loaded
model.  Iteration settings, workbook file name, source hash and user extra_data must survive.
An audit hook records which files to_file / from_file really open.
"""
import hashlib
import glob
import json
import os
import shutil
import subprocess
import sys

from vp import realbooks, hist, wb, wbgen
from vp.core import PY, check_env, h64

PROP = 'C03'
LEVEL = 'exploration'
RULE = ('seeded workbooks (vp.wbgen.dag) whose constants are replaced by a hostile pool (yaml/json look-alikes, '
        'numbers 1e-7/1e22/-0.0/18 digit ints, leading/trailing blanks, CR/LF/TAB, BOM, NEL, U+2028/9, non-BMP, '
        '200 character lines, text starting with "=") x {yml, json, pkl} x {cycles on, off} x load site '
        '{same process, fresh thread, fresh process} x user extra_data x post-load set_value/evaluate histories. '
        'A case is one save/load round trip; non-trivial = the model holds at least one hostile constant and one '
        'formula; distinct by (cells, format, site, history).')
BUDGET = {'quick': 30, 'thorough': 300}
FLOORS = {
    'quick': {'round_trips': 80, 'fmt:yml': 15, 'fmt:json': 15, 'fmt:pkl': 15, 'site:thread': 10,
              'site:process': 3, 'value_compares': 1000, 'history_compares': 500, 'second_saves': 40,
              'resaves_of_loaded': 40, 'with_extra_data': 15, 'cycles_on': 10, 'hostile_constants': 200,
              'files_opened_seen': 150, 'workbook_changed_on_disk_after_compile': 10, 'real_book_cases': 2,
              'real_value_compares': 250, 'directed:big_model_saves': 15},
    'thorough': {'round_trips': 3000, 'site:process': 150, 'site:thread': 500, 'cycles_on': 500,
                 'hostile_constants': 8000},
}
ASSUMPTIONS = ['only cells that were in the model when it was saved are compared (unsaved cells are blank after a '
               'load: documented)',
               'text constants are limited to what openpyxl accepts in a cell (no C0 control characters except '
               'TAB/LF/CR)']

HOSTILE = [
    'true', 'false', 'null', '~', 'yes', 'no', 'on', 'off', 'True', 'None', '1e3', '0x10', '0o17', '1_000',
    '2021-01-01', '12:30:00', ': x', '- a', '#x', "'q'", '"dq"', '[1]', '{a}', '{"a": 1}', '|', '>', '&a', '*a',
    '!t', '%x', '@x', '`b`', 'a: b', 'a #c', '? k', '---', '...', ' lead', 'trail ', '  ', '\tTab', 'a\tb',
    'line1\nline2', 'cr\rlf', 'crlf\r\nx', 'end\n', '\nstart', '﻿bom', 'nel\u0085x', 'ls x',
    'ps x', 'emoji\U0001F600', 'café', '日本', 'x' * 200, ('word ' * 40).strip(), '\\',
    'a\\nb', '"', "'", "it's", '""', '3', ' 3 ', '1e2', '-0', '.5', '5.', '0.1', '1,5', 'NaN', 'inf',
    '#N/A', '#VALUE!', 'TRUE', 'FALSE', '=1+1', '=A1', '=SUM(1)',
]
NUMBERS = [1e-7, 1e22, -0.0, 123456789012345678, 0.1, 1 / 3, -2.5, 2 ** 53 + 1, 1e-300, 12345.678901234567,
           # floats whose shortest spelling has 16-17 digits and an exponent (a yaml writer that remembers the width
           # of what it read may drop the last one when it writes the value again)
           1.152921504606847e+18, 1.2345678901234567e+20, 9.007199254740993e+15, 1.7976931348623157e+308,
           2.2250738585072014e-308, 6.02214076e+23, 5e-324]
KNOWN_TEXT_CLASSES = [
    ('\u0085', 'text-constant/NEL-U+0085'),
]


def hostile_spec(rng, cycles):
    spec, meta = wbgen.dag(rng, arrays=rng.random() < 0.2, formula_ratio=0.55)
    n_h = 0
    for sheet, cells in spec['sheets']:
        for c, v in list(cells.items()):
            if wb.is_formula(v):
                continue
            r = rng.random()
            if r < 0.45:
                cells[c] = rng.choice(HOSTILE[:-3])      # text starting with '=' only through set_value
                n_h += 1
            elif r < 0.6:
                cells[c] = rng.choice(NUMBERS)
                n_h += 1
    if cycles:
        spec['calc'] = {'iterate': True, 'count': 30, 'delta': 1e-6}
    return spec, meta, n_h


def sha(path):
    with open(path, 'rb') as f:
        return hashlib.sha256(f.read()).hexdigest()


def parse_text(path):
    from ruamel.yaml import YAML
    with open(path, encoding='utf-8') as f:
        if path.endswith('json'):
            return json.load(f)
        return json.loads(json.dumps(YAML(typ='safe').load(f), default=str))


CHILD = r'''
import json, sys, logging
logging.disable(logging.CRITICAL)
from pycel import ExcelCompiler
from vp import wb
job = json.load(open(sys.argv[1]))
out = {'values': {}, 'history': []}
try:
    comp = ExcelCompiler.from_file(job['path'])
    out['cycles'] = comp.cycles
    out['filename'] = comp.filename
    out['hash'] = comp._excel_file_md5_digest
    out['extra'] = {k: v for k, v in (comp.extra_data or {}).items()}
    for a in job['cells']:
        o = wb.outcome(comp.evaluate, a)
        out['values'][a] = [o[0], wb.norm(o[1]) if o[0] == 'v' else o[1]]
    for op in job['ops']:
        if op[0] == 'set':
            o = wb.outcome(comp.set_value, op[1], op[2])
            out['history'].append([o[0], None if o[0] == 'v' else o[1]])
        else:
            o = wb.outcome(comp.evaluate, op[1])
            out['history'].append([o[0], wb.norm(o[1]) if o[0] == 'v' else o[1]])
except Exception as exc:
    out['load_error'] = wb.describe(exc)
json.dump(out, open(sys.argv[2], 'w'), default=str)
import os
sys.stdout.flush()
os._exit(0)
'''

OPENED = {'on': False, 'files': [], 'installed': False}


def _audit(event, args):
    if OPENED['on'] and event == 'open' and isinstance(args[0], str):
        OPENED['files'].append((args[0], args[1]))


def classify_text(spec, inputs_written):
    texts = [v for _, cells in spec['sheets'] for v in cells.values() if isinstance(v, str)]
    texts += [v for v in inputs_written if isinstance(v, str)]
    keys = []
    for needle, key in KNOWN_TEXT_CLASSES:
        if any(needle in t for t in texts):
            keys.append(key)
    if any(isinstance(t, str) and t.startswith('=') for t in inputs_written):
        keys.append('text-constant/written-text-starting-with-equals')
    return keys


def one_round_trip(ctx, spec, meta, fmt, site, extra, ops, pre_ops, n_hostile, replaying=False, source='mem'):
    from pycel import ExcelCompiler
    if not OPENED['installed']:
        sys.addaudithook(_audit)
        OPENED['installed'] = True
    case = {'spec': spec, 'meta': meta, 'fmt': fmt, 'site': site, 'extra': extra, 'ops': ops,
            'pre_ops': pre_ops, 'source': source}
    tmp = ctx.tmpdir
    base = os.path.join(tmp, f'm{ctx.evaluations % 7}')
    for ext in ('yml', 'json', 'pkl'):
        if os.path.exists(f'{base}.{ext}'):
            os.unlink(f'{base}.{ext}')
    cells = wb.all_addresses(spec)
    cycles = bool(spec.get('calc'))

    eq_cells = {o[1] for o in pre_ops if o[0] == 'set' and isinstance(o[2], str) and o[2].startswith('=')}
    eq_related = set(eq_cells)
    for a in eq_cells:
        eq_related |= wbgen.dependants(meta, a)

    def bad(key, msg, cell=None, want=None):
        """mechanism keys for the two text classes recorded as known findings are decided by an explicit
        predicate over the diverging cell, never by 'the workbook contains such a text somewhere'"""
        wv = want[1] if isinstance(want, (tuple, list)) and len(want) == 2 and want[0] == 'v' else None
        if isinstance(wv, (list, tuple)) and len(wv) == 2 and wv[0] == 's':
            wv = wv[1]
        if isinstance(wv, str) and '\x85' in wv and fmt in ('yml', 'pkl') and key.startswith(
                ('value-differs', 'history-differs')):
            key = 'text-constant/NEL-U+0085-comes-back-as-a-blank'
        elif eq_cells and (cell in eq_related or key.startswith(('load-raises', 'save-raises', 'resave'))):
            key = 'text-constant/written-text-starting-with-equals-becomes-a-formula'
        ctx.violation(f'{key}/{fmt}', msg + f' [format={fmt}, load site={site}, cycles={cycles}]', case)

    xlsx = os.path.join(tmp, 'source.xlsx')
    try:
        if source == 'xlsx':
            # a model compiled from a workbook file: the file is changed on disk after compiling, the
            # saved model must still carry the hash of the workbook it was compiled from
            O = wb.compile_xlsx(spec, xlsx, None)
            ctx.count('source:xlsx')
        else:
            O = wb.compile_mem(spec)
        for a in cells:
            wb.outcome(O.evaluate, a)
        if source == 'xlsx':
            changed = wb.with_inputs(spec, {})
            changed['sheets'][0][1]['J30'] = 'changed after compiling'
            wb.write_xlsx(changed, xlsx, None)
            ctx.count('workbook_changed_on_disk_after_compile')
        for op in pre_ops:          # writes before the save (hostile text through set_value)
            if op[1] in O.cell_map:
                O.set_value(op[1], op[2])
        for a in cells:
            wb.outcome(O.evaluate, a)
        if extra is not None:
            O.extra_data = json.loads(json.dumps(extra))
        OPENED['files'] = []
        OPENED['on'] = True
        O.to_file(base, file_types=(fmt,) if fmt != 'pkl' else ('pkl', 'yml'))
    except Exception as exc:
        OPENED['on'] = False
        if not wb.raised_outside_harness(exc):
            raise
        bad('save-raises', f'to_file raised {wb.describe(exc)}')
        return
    OPENED['on'] = False
    ctx.count('round_trips')
    ctx.count('fmt:' + fmt)
    ctx.count('site:' + site)
    ctx.count('hostile_constants', n_hostile)
    ctx.count('files_opened_seen', len(OPENED['files']))
    if cycles:
        ctx.count('cycles_on')
    if extra is not None:
        ctx.count('with_extra_data')
    outside = [f for f, _ in OPENED['files'] if isinstance(f, str) and not os.path.abspath(f).startswith(tmp)
               and not f.endswith(('.py', '.pyc')) and '/site-packages/' not in f and '/lib/python' not in f]
    if outside:
        bad('save-touches-other-files', f'to_file opened {outside[:3]}')
        return
    text = f'{base}.{"yml" if fmt == "pkl" else fmt}'
    ctx.case((repr(spec['sheets']), fmt, site, repr(ops), repr(extra)), nontrivial=n_hostile > 0)

    # idempotence: saving the unchanged model again
    try:
        h1 = sha(text)
        O.to_file(base, file_types=(fmt,) if fmt != 'pkl' else ('pkl', 'yml'))
        ctx.count('second_saves')
        if sha(text) != h1:
            bad('second-save-changes-the-text-file' + ('/with-extra_data' if extra is not None else ''),
                'saving the unchanged model a second time changed the bytes of the text file')
            return
    except Exception as exc:
        if not wb.raised_outside_harness(exc):
            raise
        bad('second-save-raises', f'second to_file raised {wb.describe(exc)}')
        return

    want = {a: wb.outcome(O.evaluate, a) for a in cells}
    target = f'{base}.{fmt}'

    # ---- load
    if site == 'process':
        job, res = os.path.join(tmp, 'job.json'), os.path.join(tmp, 'res.json')
        with open(job, 'w') as f:
            json.dump({'path': target, 'cells': cells, 'ops': ops}, f)
        r = subprocess.run([PY, '-X', 'faulthandler', '-c', CHILD, job, res], env=check_env(),
                           capture_output=True, text=True, timeout=120)
        if not os.path.exists(res):
            raise RuntimeError(f'child process failed: {r.stderr[-800:]}')
        with open(res) as f:
            got = json.load(f)
        os.unlink(res)
        if 'load_error' in got:
            bad('load-raises/fresh-process', f'from_file in a brand-new process raised {got["load_error"]}')
            return
        for a in cells:
            ctx.count('value_compares')
            w = want[a]
            g = got['values'][a]
            wn = [w[0], json.loads(json.dumps(wb.norm(w[1]) if w[0] == 'v' else w[1]))]
            if not _same_norm(g, wn):
                bad('value-differs-after-load', f'fresh process: evaluate({a!r}) = {g!r}, original {w!r}',
                    cell=a, want=w)
                return
        if not _meta_same(ctx, bad, O, got['cycles'], got['filename'], got['hash'], got['extra'], extra):
            return
        for op, g in zip(ops, got['history']):
            if op[0] == 'set':
                o = wb.outcome(O.set_value, op[1], op[2])
                wn = [o[0], None if o[0] == 'v' else o[1]]
            else:
                o = wb.outcome(O.evaluate, op[1])
                wn = [o[0], json.loads(json.dumps(wb.norm(o[1]) if o[0] == 'v' else o[1]))]
            ctx.count('history_compares')
            if not _same_norm(g, wn):
                bad('history-differs-after-load', f'fresh process: {op} gives {g!r}, original {wn!r}',
                    cell=op[1] if isinstance(op[1], str) else None, want=wn)
                return
        return

    def load():
        return ExcelCompiler.from_file(target)
    try:
        if site == 'thread':
            import threading
            box = {}

            def body():
                try:
                    box['m'] = load()
                except Exception as exc:  # noqa
                    box['e'] = exc
            t = threading.Thread(target=body)
            t.start()
            t.join(60)
            if 'e' in box:
                raise box['e']
            L = box['m']
        else:
            L = load()
    except Exception as exc:
        if not wb.raised_outside_harness(exc):
            raise
        bad(f'load-raises/{site}', f'from_file raised {wb.describe(exc)}')
        return
    for a in cells:
        g = wb.outcome(L.evaluate, a)
        ctx.count('value_compares')
        # (texts are compared with the numbers in them read numerically - computed values carry float noise of
        #  the summation order - except constants, which must come back character by character)
        constant_text = (not wb.is_formula(wb.spec_cells(spec).get(a)) and a not in wb.array_members(spec) and
                         want[a][0] == 'v' and isinstance(want[a][1], str) and g[0] == 'v' and
                         isinstance(g[1], str))
        if (g[1] != want[a][1]) if constant_text else not wb.same_outcome(g, want[a]):
            bad('value-differs-after-load', f'evaluate({a!r}) = {g!r} on the loaded model, original {want[a]!r}',
                cell=a, want=want[a])
            return
    if not _meta_same(ctx, bad, O, L.cycles, L.filename, L._excel_file_md5_digest,
                      dict(L.extra_data or {}), extra):
        return

    # ---- saving the loaded model reproduces the content
    try:
        if source == 'xlsx' and os.path.exists(xlsx):
            os.unlink(xlsx)         # the loaded model is saved where the workbook is not available
        rbase = os.path.join(tmp, 'resave')
        L.to_file(rbase, file_types=('json' if fmt == 'json' else 'yml',))
        a_, b_ = parse_text(text), parse_text(f'{rbase}.{"json" if fmt == "json" else "yml"}')
        os.unlink(f'{rbase}.{"json" if fmt == "json" else "yml"}')
        ctx.count('resaves_of_loaded')
        if json.dumps(a_, sort_keys=True, default=str) != json.dumps(b_, sort_keys=True, default=str):
            diff = [k for k in set(a_) | set(b_) if a_.get(k) != b_.get(k)]
            cm = [k for k in set(a_.get('cell_map', {})) | set(b_.get('cell_map', {}))
                  if a_.get('cell_map', {}).get(k) != b_.get('cell_map', {}).get(k)]
            bad('resave-content-differs', f'saving the loaded model differs from the original save in {diff} '
                f'(cells {cm[:4]}: {[(a_["cell_map"].get(k), b_["cell_map"].get(k)) for k in cm[:2]]})')
            return
    except Exception as exc:
        if not wb.raised_outside_harness(exc):
            raise
        bad('resave-raises', f'saving the loaded model raised {wb.describe(exc)}')
        return

    # ---- post-load history in lock step
    for op in ops:
        if op[0] == 'set':
            a_, b_ = wb.outcome(O.set_value, op[1], op[2]), wb.outcome(L.set_value, op[1], op[2])
            a_, b_ = (a_[0], None if a_[0] == 'v' else a_[1]), (b_[0], None if b_[0] == 'v' else b_[1])
        else:
            t = tuple(op[1]) if isinstance(op[1], list) else op[1]
            a_, b_ = wb.outcome(O.evaluate, t), wb.outcome(L.evaluate, t)
        ctx.count('history_compares')
        if not wb.same_outcome(a_, b_) if op[0] != 'set' else a_ != b_:
            bad('history-differs-after-load', f'{op}: loaded model {b_!r}, original {a_!r}',
                cell=op[1] if isinstance(op[1], str) else None, want=a_)
            return
    if ctx.counters['round_trips'] % 40 == 1:
        ctx.sample({'cells': spec['sheets'], 'fmt': fmt, 'site': site, 'extra_data': extra, 'ops': ops[:6],
                    'files_opened': sorted({os.path.basename(f) for f, _ in OPENED['files']})})


def _same_norm(g, w):
    if g[0] != w[0]:
        return False
    if g[0] == 'x':
        return g[1] == w[1]
    return _eq(g[1], w[1])


def _eq(a, b):
    if isinstance(a, list) and isinstance(b, list):
        if len(a) != len(b):
            return False
        if a and a[0] == 'n' and b[0] == 'n':
            x, y = float(a[1]), float(b[1])
            return x == y or abs(x - y) <= 1e-9 * max(abs(x), abs(y)) + 1e-12
        return all(_eq(x, y) for x, y in zip(a, b))
    return a == b


def _meta_same(ctx, bad, O, cycles, filename, digest, got_extra, extra):
    ctx.count('meta_compares')
    oc = O.cycles if O.cycles else False
    lc = cycles if cycles else False
    if json.dumps(oc, sort_keys=True) != json.dumps(lc, sort_keys=True):
        bad('iteration-settings-lost', f'cycles: saved {O.cycles!r}, loaded {cycles!r}')
        return False
    if filename != O.filename:
        bad('filename-lost', f'filename: saved {O.filename!r}, loaded {filename!r}')
        return False
    if digest != O._excel_file_md5_digest:
        bad('source-hash-lost', f'hash: saved {O._excel_file_md5_digest!r}, loaded {digest!r}')
        return False
    if extra is not None:
        user = {k: v for k, v in got_extra.items() if k in extra}
        if json.dumps(user, sort_keys=True, default=str) != json.dumps(extra, sort_keys=True):
            bad('extra_data-lost', f'extra_data: saved {extra!r}, loaded {user!r}')
            return False
    return True


def gen_ops(rng, spec, meta, n):
    cells = wb.all_addresses(spec)
    inputs = [a for a in meta['inputs'] if not a.startswith(wbgen.SD + '!')]
    ops = []
    for _ in range(n):
        if inputs and rng.random() < 0.45:
            v = rng.choice(HOSTILE[:-3] + NUMBERS + [None, True, False, 0, 1, 2.5, 7])
            ops.append(['set', rng.choice(inputs), v])
        else:
            ops.append(['eval', rng.choice(cells)])
    ops += [['eval', a] for a in cells]
    return ops


DIRECTED_SPEC = {'sheets': [['Sheet1', {'A1': 'nel\u0085x', 'A2': 7, 'B1': '=A1&"|"', 'B2': '=A2*2'}]],
                 'names': {}, 'arrays': [], 'calc': None}
DIRECTED_META = {'inputs': ['Sheet1!A1', 'Sheet1!A2'],
                 'formulas': {'Sheet1!B1': {'form': 'concat', 'deps': ['Sheet1!A1']},
                              'Sheet1!B2': {'form': 'arith', 'deps': ['Sheet1!A2']}},
                 'order': ['Sheet1!A1', 'Sheet1!A2', 'Sheet1!B1', 'Sheet1!B2']}


# a whole-column reference whose used part is the target of an array formula (both nodes carry a formula)
COLUMN_OVER_ARRAY_SPEC = {'sheets': [['Sheet1', {'A1': 1, 'A2': 2, 'A3': 3, 'E1': '=SUM(C:C)', 'E2': '=E1+A1'}]],
                          'names': {}, 'arrays': [['Sheet1', 'C1:C3', '=A1:A3*2']], 'calc': None}
COLUMN_OVER_ARRAY_META = {'inputs': ['Sheet1!A1', 'Sheet1!A2', 'Sheet1!A3'],
                          'formulas': {'Sheet1!E1': {'form': 'unbounded', 'deps': ['Sheet1!A1', 'Sheet1!A2', 'Sheet1!A3']},
                                       'Sheet1!E2': {'form': 'arith', 'deps': ['Sheet1!E1', 'Sheet1!A1']},
                                       'Sheet1!C1': {'form': 'cse', 'deps': ['Sheet1!A1']},
                                       'Sheet1!C2': {'form': 'cse', 'deps': ['Sheet1!A2']},
                                       'Sheet1!C3': {'form': 'cse', 'deps': ['Sheet1!A3']}},
                          'order': ['Sheet1!A1', 'Sheet1!A2', 'Sheet1!A3', 'Sheet1!C1', 'Sheet1!C2', 'Sheet1!C3',
                                    'Sheet1!E1', 'Sheet1!E2']}


def array_over_column(target):
    """the other way round: an array formula which reads a whole column (its target left or right of that column)"""
    cells = wb.range_cells(target)
    members = [f'Sheet1!{r[0]}' for r in cells]
    spec = {'sheets': [['Sheet1', {'D1': 1, 'D2': 2, 'D3': 3, 'F1': f'=SUM({target})', 'F2': '=F1+D1'}]],
            'names': {}, 'arrays': [['Sheet1', target, '=D:D*2']], 'calc': None}
    inputs = ['Sheet1!D1', 'Sheet1!D2', 'Sheet1!D3']
    formulas = {m: {'form': 'cse', 'deps': [i]} for m, i in zip(members, inputs)}
    formulas['Sheet1!F1'] = {'form': 'agg', 'deps': inputs}
    formulas['Sheet1!F2'] = {'form': 'arith', 'deps': inputs + ['Sheet1!F1']}
    return spec, {'inputs': inputs, 'formulas': formulas, 'order': inputs + members + ['Sheet1!F1', 'Sheet1!F2']}


def unbounded_onto_named_sheets():
    """whole columns / rows of sheets whose names begin with the characters of the wrapper which the saved text puts
    around a resolved range (=_REF_("...")), end with them, or need quotes"""
    names = ['Revenue', 'Expenses', 'FY 2024', '_data', 'REF', 'F', 'E=R', 'Rate)', 'q"F']
    sheets = [['Sheet1', {}]]
    formulas, inputs, order = {}, [], []
    for k, n in enumerate(names):
        sheets.append([n, {'A1': k + 1, 'A2': 10 * (k + 1), 'B1': 100 * (k + 1)}])
        q = wb.quote_sheet(n)
        ins = [f'{n}!A1', f'{n}!A2', f'{n}!B1']
        inputs += ins
        sheets[0][1][f'A{k + 1}'] = f'=SUM({q}!A:A)'
        sheets[0][1][f'B{k + 1}'] = f'=SUM({q}!1:1)+A{k + 1}'
        formulas[f'Sheet1!A{k + 1}'] = {'form': 'unbounded', 'deps': ins[:2]}
        formulas[f'Sheet1!B{k + 1}'] = {'form': 'unbounded', 'deps': ins}
        order += [f'Sheet1!A{k + 1}', f'Sheet1!B{k + 1}']
    spec = {'sheets': sheets, 'names': {}, 'arrays': [], 'calc': None}
    return spec, {'inputs': inputs, 'formulas': formulas, 'order': inputs + order}, names


def directed(ctx):
    """the two text classes recorded as known findings, reproduced on every run"""
    spec, meta, names = unbounded_onto_named_sheets()
    for fmt in ('yml', 'json', 'pkl'):
        ops = [['eval', a] for a in meta['order'] if a.startswith('Sheet1!')]
        ops += [['set', f'{n}!A2', 7] for n in names] + [['eval', a] for a in meta['order'] if a.startswith('Sheet1!')]
        one_round_trip(ctx, spec, meta, fmt, 'same', None, ops, [], 1)
        ctx.count('directed:unbounded-onto-named-sheets')
    for fmt in ('yml', 'json', 'pkl'):
        for target in ('A1:A3', 'G1:G3'):
            spec, meta = array_over_column(target)
            one_round_trip(ctx, spec, meta, fmt, 'same', None,
                           [['eval', 'Sheet1!F2'], ['set', 'Sheet1!D2', 20], ['eval', 'Sheet1!F2'],
                            ['eval', meta['order'][4]]], [], 1)
            ctx.count('directed:array-over-column')
        one_round_trip(ctx, COLUMN_OVER_ARRAY_SPEC, COLUMN_OVER_ARRAY_META, fmt, 'same', None,
                       [['eval', 'Sheet1!E2'], ['set', 'Sheet1!A2', 20], ['eval', 'Sheet1!E2'], ['eval', 'Sheet1!C2']],
                       [], 1)
        ctx.count('directed:column-over-array')
    ops = [['eval', a] for a in DIRECTED_META['order']]
    for fmt in ('yml', 'json', 'pkl'):
        one_round_trip(ctx, DIRECTED_SPEC, DIRECTED_META, fmt, 'same', None, ops, [], 1)
        one_round_trip(ctx, DIRECTED_SPEC, DIRECTED_META, fmt, 'same', None, ops,
                       [['set', 'Sheet1!A2', '=1+1']], 1)
        ctx.count('directed:text-classes')


def save_sequences(ctx):
    """directed: several saves of one model to one base name, with different file types and a change in between;
    whatever file a later to_file() call was asked to write must hold the model as it is then"""
    from pycel import ExcelCompiler
    spec = {'sheets': [['Sheet1', {'A1': 1, 'B1': '=A1*2', 'C1': '=B1&"x"'}]], 'names': {}, 'arrays': [], 'calc': None}
    # (every spelling of the file types to_file accepts: yml / yaml, pkl / pickle)
    for text, other, pkl in (('yml', 'json', 'pkl'), ('json', 'yml', 'pkl'), ('json', 'yaml', 'pkl'),
                             ('yaml', 'json', 'pickle'), ('json', 'yaml', 'pickle')):
        for between, revert in (((), False), ((text,), False), ((pkl, text), False), ((pkl,), False),
                                ((other,), False), ((pkl, other), False), ((pkl, other), True),
                                ((other,), True)):
            base = os.path.join(ctx.tmpdir, f'seq-{text}-{other}-{pkl}-{"-".join(between) or "none"}-{revert}-model')
            case = {'kind': 'save-sequence', 'text': text, 'other': other, 'pkl': pkl, 'between': list(between),
                    'revert': revert}
            comp = wb.compile_mem(spec)
            comp.evaluate('Sheet1!C1')
            try:
                comp.to_file(base, file_types=(pkl, text))            # state 0
                comp.set_value('Sheet1!A1', 10)
                comp.evaluate('Sheet1!C1')
                if between:
                    comp.to_file(base, file_types=between)            # state 1, some of the files
                if revert:
                    comp.set_value('Sheet1!A1', 1)                    # the text file of state 0 is current again
                    comp.evaluate('Sheet1!C1')
                comp.to_file(base, file_types=(pkl, text))            # the model as it is now, both files
                loaded = {ext: ExcelCompiler.from_file(f'{base}.{ext}') for ext in (pkl, text)}
            except Exception as exc:
                if not wb.raised_outside_harness(exc):
                    raise
                ctx.violation('save-sequence-raises', f'{wb.describe(exc)} [{case}]', case)
                continue
            finally:
                for f in glob.glob(base + '.*'):
                    os.remove(f)
            ctx.count('directed:save_sequences')
            ctx.case(('save-sequence', text, other, pkl, between, revert))
            want = '2x' if revert else '20x'
            for ext, model in loaded.items():
                got = wb.outcome(model.evaluate, 'Sheet1!C1')
                if got != ('v', want):
                    ctx.violation(f'file-written-by-to_file-holds-an-older-model/{"pkl" if ext == pkl else "text"}',
                                  f'to_file({pkl}+{text}); set_value; to_file({"+".join(between) or "nothing"}); '
                                  f'{"set_value back; " if revert else ""}to_file({pkl}+{text}): the model loaded from '
                                  f'the {ext} file gives C1 = {got!r}, the saved model has {want}', case)
                    break


def alternating_saves(ctx):
    """directed: one base name, the model alternates between two states and the saves between two text kinds (always
    with the pickle); after every save both files it wrote hold the model as it is then"""
    import time
    from pycel import ExcelCompiler
    spec = {'sheets': [['Sheet1', {'A1': 1, 'B1': '=A1*2', 'C1': '=B1&"x"'}]], 'names': {}, 'arrays': [], 'calc': None}
    for kinds in (('yml', 'json'), ('json', 'yml'), ('yaml', 'json')):
        for period in (2, 3):
            base = os.path.join(ctx.tmpdir, f'alt-{kinds[0]}-{kinds[1]}-{period}-model')
            comp = wb.compile_mem(spec)
            comp.evaluate('Sheet1!C1')          # (set_value needs the address in the cell map)
            case = {'kind': 'alternating-saves', 'kinds': list(kinds), 'period': period}
            try:
                for k in range(7):
                    value = (1, 10, 100)[k % period]
                    text = kinds[k % 2]
                    comp.set_value('Sheet1!A1', value)
                    comp.evaluate('Sheet1!C1')
                    time.sleep(0.02)
                    comp.to_file(base, file_types=('pkl', text))
                    ctx.count('directed:alternating_saves')
                    ctx.case(('alternating-saves', kinds, period, k))
                    for ext in ('pkl', text):
                        got = wb.outcome(ExcelCompiler.from_file(f'{base}.{ext}').evaluate, 'Sheet1!C1')
                        if got != ('v', f'{2 * value}x'):
                            ctx.violation(f'file-written-by-to_file-holds-an-older-model/{"pkl" if ext == "pkl" else "text"}',
                                          f'save number {k + 1} of a model alternating between {period} states, with the '
                                          f'pickle and alternately {kinds[0]} / {kinds[1]}: the model loaded from the {ext} '
                                          f'file gives C1 = {got!r}, the saved model has {2 * value}x', case)
                            raise StopIteration
            except StopIteration:
                pass
            except Exception as exc:
                if not wb.raised_outside_harness(exc):
                    raise
                ctx.violation('save-sequence-raises', f'{wb.describe(exc)} [{case}]', case)
            finally:
                for f in glob.glob(base + '.*'):
                    os.remove(f)


def big_model_saves(ctx, rng):
    """directed: a model of the large sizes (vp.wbgen.big; its text file is beyond 64 KiB) saved several times under one
    name - after a write to the cell its text ends with, after a write to the cell it starts with, with a save of the
    text file alone in between, with the other text format - and loaded back from every file each save wrote: what is
    loaded shows what the saved model shows, and follows the same write"""
    from pycel import ExcelCompiler
    spec, meta = wbgen.big(rng)
    comp = wb.compile_mem(spec)
    for a in sorted(meta['formulas']):
        wb.outcome(comp.evaluate, a)
    n_tab = max(int(a.rsplit('CB', 1)[1]) for a in meta['inputs'] if a.startswith('Sheet1!CB'))
    last, first = f'Sheet1!CB{n_tab}', 'S01!A1'
    chain = sorted((a for a in meta['formulas'] if a.startswith('Sheet1!H')), key=lambda a: int(a.rsplit('H', 1)[1]))
    watch = ['Sheet1!D415', 'Sheet1!D411', 'Sheet1!E420', 'Sheet1!C400', 'Sheet1!F433', 'Sheet1!G444', chain[-1],
             'Sheet1!A450', 'S01!B2']
    base = os.path.join(ctx.tmpdir, 'big-model')
    steps = [
        ('first save', None, None, [None], ('', '.yml', '.pkl')),
        ('write to the cell the text ends with', last, 777, [None], ('', '.yml', '.pkl')),
        ('write to the cell the text starts with, text file alone, then both', first, 5, [('yml',), None], ('', '.yml', '.pkl')),
        ('write to the last cell again, other text format', last, 778, [('json', 'pkl')], ('.json', '.pkl')),
        ('write to a cell in the middle', 'Sheet1!H1', 41, [None], ('', '.yml', '.pkl')),
    ]
    case = {'kind': 'big-model-saves'}
    try:
        for label, cell, value, saves, loads in steps:
            if cell:
                comp.set_value(cell, value)
            want = {a: wb.outcome(comp.evaluate, a) for a in watch}
            for types in saves:
                if types is None:
                    comp.to_file(base)
                else:
                    comp.to_file(base, file_types=types)
            ctx.count('directed:big_model_saves')
            ctx.case(('big-model-saves', label))
            for ext in loads:
                m = ExcelCompiler.from_file(base + ext)
                got = {a: wb.outcome(m.evaluate, a) for a in watch}
                bad = [a for a in watch if got[a][0] != want[a][0] or (got[a][0] == 'v' and not wb.same(got[a][1], want[a][1]))]
                if not bad:
                    # the loaded model follows a write like the saved one (on a copy of the saved values: comp stays)
                    m.set_value('Sheet1!A410', 3 * 7)
                    probe = wb.outcome(m.evaluate, 'Sheet1!D411')
                    if probe != ('v', 1007):
                        bad = ['Sheet1!D411 after set_value(A410, 21)']
                        got['x'] = probe
                if bad:
                    a = bad[0]
                    ctx.violation('file-written-by-to_file-holds-an-older-model/large-model/' +
                                  ('pkl' if ext in ('', '.pkl') else 'text'),
                                  f'{label}: the model loaded from {os.path.basename(base) + ext!r} gives {a} = '
                                  f'{got.get(a, got.get("x"))!r}, the saved model has {want.get(a)!r} (text file of '
                                  f'{os.path.getsize(base + (".json" if ext == ".json" else ".yml"))} bytes)', case)
                    raise StopIteration
    except StopIteration:
        pass
    except Exception as exc:
        if not wb.raised_outside_harness(exc):
            raise
        ctx.violation('save-sequence-raises/large-model', f'{wb.describe(exc)}', case)
    finally:
        for f in glob.glob(base + '.*'):
            os.remove(f)


def save_names(ctx):
    """directed: base names that end like one of the extensions without being one (model_json, mypkl), names with other
    dots; what to_file(name) wrote, from_file(name) reads"""
    from pycel import ExcelCompiler
    spec = {'sheets': [['Sheet1', {'A1': 1, 'B1': '=A1*2', 'C1': '=B1&"x"'}]], 'names': {}, 'arrays': [], 'calc': None}
    for name in ('model_json', 'mypkl', 'data.v2', 'x.yaml.bak', 'yml', 'a.b_pickle', 'plain', 'UPPER.JSON', 'tyaml'):
        for types in (None, ('json',), ('pkl',), ('pickle', 'yaml')):
            d = os.path.join(ctx.tmpdir, f'names-{name}-{"-".join(types or ("default",))}')
            os.makedirs(d, exist_ok=True)
            base = os.path.join(d, name)
            case = {'kind': 'save-names', 'name': name, 'types': list(types or ())}
            comp = wb.compile_mem(spec)
            comp.evaluate('Sheet1!C1')
            comp.set_value('Sheet1!A1', 21)
            comp.evaluate('Sheet1!C1')
            ctx.count('directed:save_names')
            ctx.case(('save-names', name, types))
            try:
                if types is None:
                    comp.to_file(base)
                else:
                    comp.to_file(base, file_types=types)
                got = wb.outcome(ExcelCompiler.from_file(base).evaluate, 'Sheet1!C1')
            except Exception as exc:
                if not wb.raised_outside_harness(exc):
                    raise
                ctx.violation('load-raises/file-name-that-ends-like-an-extension' if name in (
                    'model_json', 'mypkl', 'yml', 'a.b_pickle', 'tyaml') else 'load-raises/file-name',
                    f'to_file({name!r}, file_types={types}) wrote {sorted(os.listdir(d))}; from_file({name!r}): '
                    f'{wb.describe(exc)}', case)
                continue
            finally:
                shutil.rmtree(d, ignore_errors=True)
            if got != ('v', '42x'):
                ctx.violation('value-differs-after-load/file-name', f'to_file({name!r}, file_types={types}) then '
                              f'from_file({name!r}): C1 = {got!r}, the saved model has 42x', case)


def relative_name_case(ctx):
    """directed: a model compiled from a workbook given by a relative file name; the name is part of what survives"""
    from pycel import ExcelCompiler
    spec = {'sheets': [['Sheet1', {'A1': 1, 'B1': '=A1*2'}]], 'names': {}, 'arrays': [], 'calc': None}
    here = os.getcwd()
    work = os.path.join(ctx.tmpdir, 'relative')
    os.makedirs(work, exist_ok=True)
    try:
        os.chdir(work)
        wb.write_xlsx(spec, os.path.join(work, 'rel-book.xlsx'), {'Sheet1!B1': 2})
        for fmt in ('yml', 'json', 'pkl'):
            case = {'kind': 'relative-name', 'fmt': fmt}
            comp = ExcelCompiler(filename='rel-book.xlsx')
            comp.evaluate('Sheet1!B1')
            ctx.count('directed:relative_name')
            ctx.case(('relative-name', fmt))
            try:
                comp.to_file(file_types=(fmt,))
                loaded = ExcelCompiler.from_file('rel-book.xlsx.' + fmt)
                loaded.to_file('resaved', file_types=('yml',))
                again = ExcelCompiler.from_file('resaved.yml')
            except Exception as exc:
                if not wb.raised_outside_harness(exc):
                    raise
                ctx.violation(f'relative-workbook-name/raises/{fmt}', wb.describe(exc), case)
                continue
            names = {'original': comp.filename, 'loaded': loaded.filename, 'loaded, saved and loaded again': again.filename}
            if len(set(names.values())) != 1:
                ctx.violation(f'workbook-file-name-changes/{fmt}',
                              f'compiled from the relative name rel-book.xlsx: {names}', case)
    finally:
        os.chdir(here)


def run(ctx):
    rng = ctx.rng
    i = 0
    if ctx.shard == 0:
        directed(ctx)
        save_sequences(ctx)
        alternating_saves(ctx)
        relative_name_case(ctx)
        save_names(ctx)
    if ctx.shard % 4 == 3 or not ctx.quick:
        import random
        big_model_saves(ctx, random.Random(h64(('c03-big', ctx.seed, ctx.shard))))
    # save / load of the workbooks shipped with the repository
    realbooks.run_cases(ctx, realbooks.c03_case, realbooks.acyclic_books(), 6 if ctx.quick else 60, fraction=0.25)
    while not ctx.out_of_time():
        i += 1
        cycles = i % 4 == 0
        spec, meta, n_h = hostile_spec(rng, cycles)
        if any(o[0] == 'x' for o in wb.fresh_values(spec).values()):
            ctx.count('skipped_workbooks_with_failing_cells')
            continue
        fmt = ['yml', 'json', 'pkl'][i % 3]
        site = 'process' if i % 17 == 0 else ('thread' if i % 5 == 0 else 'same')
        extra = None
        if rng.random() < 0.3:
            extra = rng.choice([{'note': 'x', 'n': [1, 2, {'k': 'v'}]}, {'a': True, 'b': None, 'c': 1.5},
                                {'deep': {'er': {'est': ['true', 'null', '~']}}}, {'zeta': 1, 'alpha': 2}])
        pre_ops = []
        if rng.random() < 0.15:
            inputs = [a for a in meta['inputs'] if not a.startswith(wbgen.SD + '!')]
            if inputs:
                pre_ops.append(['set', rng.choice(inputs), rng.choice(HOSTILE[-3:] + HOSTILE[:20])])
        one_round_trip(ctx, spec, meta, fmt, site, extra, gen_ops(rng, spec, meta, rng.randint(4, 10)),
                       pre_ops, n_h + len(pre_ops), source='xlsx' if i % 4 == 1 else 'mem')


def replay(ctx, case):
    if case.get('kind') == 'relative-name':
        relative_name_case(ctx)
        return
    if case.get('kind') == 'save-sequence':
        save_sequences(ctx)
        return
    if case.get('kind') == 'alternating-saves':
        alternating_saves(ctx)
        return
    if case.get('kind') == 'big-model-saves':
        import random
        for k in range(4):
            big_model_saves(ctx, random.Random(h64(('c03-big', ctx.seed, 4 * k + 3))))
        return
    if case.get('kind') == 'save-names':
        save_names(ctx)
        return
    if case.get('kind') == 'real-book':
        realbooks.c03_case(ctx, case['book'], case['case_seed'])
        return
    one_round_trip(ctx, case['spec'], case['meta'], case['fmt'], case['site'], case['extra'], case['ops'],
                   case['pre_ops'], 1, replaying=True, source=case.get('source', 'mem'))
