"""C04 - declared precedents cover every cell a formula actually reads.

Online trace containment: the repo hook H1 (``read`` events, emitted by per-formula wrappers of
_C_/_R_) attributes every read to the formula that made it; the listener checks the read against
the formula's declared precedents and the live dependency graph *at the moment of the read*.
At quiescence: every declared precedent has its edge, ancestors(X) contains every ground-truth
influencer of X, and a differential influence test (perturb one input in a fresh compile; every
formula whose value changes must have that input among its graph ancestors).
"""
import re

import networkx as nx

from vp import realbooks, wb, wbgen

PROP = 'C04'
LEVEL = 'exploration'
RULE = ('seeded acyclic workbooks (vp.wbgen.dag) using every written reference form (plain, $, sheet-'
        'qualified/quoted, ranges, multi-colon, intersection, union, defined names, ROW/COLUMN/INDEX, '
        'unbounded A:A/1:1, CSE members) over value environments incl. errors and blanks; every cell '
        'evaluated in a random order with the read-trace hook on. A case is one workbook; non-trivial = '
        'at least one read event was checked; distinct by dependency shape. Counters give read events '
        'per reference form.')
BUDGET = {'quick': 30, 'thorough': 300}
_FORMS = sorted(set(wbgen.ALL_FORMS) | {'cse', 'cse-consumer'})
FLOORS = {
    'quick': dict({'read_events': 5000, 'edge_checks': 3000, 'influence_perturbations': 100,
                   'workbooks': 150}, **{f'reads:{f}': 12 for f in _FORMS if f != 'rowcol'}),
    'thorough': dict({'read_events': 400000, 'influence_perturbations': 5000},
                     **{f'reads:{f}': 500 for f in _FORMS if f != 'rowcol'}),
}
FLOORS['quick']['declared:rowcol'] = 12
FLOORS['quick']['failed_builds'] = 15
FLOORS['quick']['cells_built_before_the_failing_build'] = 30
FLOORS['quick']['graph_exports'] = 6
FLOORS['quick']['real_book_cases'] = 4
FLOORS['quick']['formula_cells_overwritten'] = 30
FLOORS['quick']['real_read_events'] = 400
for _tier in FLOORS:
    FLOORS[_tier]['suite:tests'] = 2000          # the repository's own suite ran under the monitors
ASSUMPTIONS = [
    'computed references (OFFSET / INDIRECT) are outside the statement and are not generated',
    'address strings are parsed by the harness itself (sheet!A1[:B2]); unbounded forms are matched by name',
]

COMPUTED = re.compile(r'\b(offset|indirect)\(')
STATE = {'comp': None, 'ctx': None, 'meta': None, 'spec': None, 'found': [], 'reads': set()}


def parse(address):
    """'Sheet!A1:B2' -> (sheet, c1, r1, c2, r2) or None for unbounded / unparsable forms"""
    try:
        sheet, ref = address.rsplit('!', 1)
        parts = ref.split(':')
        if len(parts) > 2:
            return None
        (c1, r1) = wb.split_coord(parts[0])
        (c2, r2) = wb.split_coord(parts[-1])
        return sheet, c1, r1, c2, r2
    except Exception:
        return None


def covered(read, declared):
    """is every cell of the read address inside some declared address (cell-level containment)?"""
    if read in declared:
        return True
    r = parse(read)
    if r is None:
        return False
    boxes = [p for p in (parse(d) for d in declared) if p is not None and p[0] == r[0]]
    for col in range(r[1], r[3] + 1):
        for row in range(r[2], r[4] + 1):
            if not any(b[1] <= col <= b[3] and b[2] <= row <= b[4] for b in boxes):
                return False
    return True


def listener(event, info):
    if event != 'read':
        return
    ctx, comp = STATE['ctx'], STATE['comp']
    formula = info['formula']
    cell = formula.cell
    if cell is None or comp is None:
        return
    x = cell.address.address
    read = str(info['address'])
    if STATE.get('skip_computed') and COMPUTED.search(formula.python_code or ''):
        return      # OFFSET / INDIRECT read what they compute (outside of the statement); shipped workbooks use them
    form = (STATE['meta']['formulas'].get(x) or {}).get('form', 'internal')
    ctx.count('read_events')
    ctx.count(f'reads:{form}')
    ctx.count(f'read_kind:{info["kind"]}')
    if read.startswith('#'):
        return      # an error value where a reference was expected: nothing is read
    declared = {a.address for a in formula.needed_addresses}
    if not covered(read, declared):
        STATE['found'].append((
            'read-not-declared', f'{x} ({formula.python_code}) read {read} which is not covered by its '
            f'declared precedents {sorted(declared)}', x))
        return
    # the edge is checked when the public call has returned (a build that failed earlier may leave
    # queued edge work which pycel finishes during the next build, i.e. possibly after this read)
    STATE['reads'].add((x, read))


def check_read_edges(ctx, comp):
    found = []
    g = comp.dep_graph
    for x, read in sorted(STATE['reads']):
        node = comp.cell_map.get(x)
        if node is None or node not in g:
            found.append(('reader-not-in-graph', f'{x} reads {read} but is not a graph node', x))
            continue
        preds = {p.address.address for p in g.predecessors(node)}
        ctx.count('edge_checks')
        if not covered(read, preds):
            found.append(('read-without-edge', f'{x} read {read} but its graph predecessors are only '
                          f'{sorted(preds)}', x))
    return found


def install():
    from pycel import _verif
    if not _verif.ENABLED:
        raise RuntimeError('PYCEL_VERIF hooks are not enabled')
    if listener not in _verif.listeners:
        _verif.listeners.append(listener)


def quiescent(ctx, comp, spec, meta):
    """structural invariants of the finished graph"""
    found = []
    g = comp.dep_graph
    for x, node in list(comp.cell_map.items()):
        formula = getattr(node, 'formula', None)
        if not formula or x in (spec.get('poison_cells') or ()):
            continue
        preds = ({p.address.address for p in g.predecessors(node)} if node in g else set())
        for need in formula.needed_addresses:
            ctx.count('declared_edge_checks')
            # the edge must come from *a* node standing for that address (pycel may hold two range
            # objects for one address; the statement only asks for the edge)
            if need.address not in preds:
                found.append(('declared-precedent-without-edge',
                              f'{x} declares {need.address} but the graph has no such edge', x))
        if x in meta['formulas']:
            ctx.count(f'declared:{meta["formulas"][x]["form"]}')
    for x, m in meta['formulas'].items():
        node = comp.cell_map.get(x)
        if node is None or node not in g:
            found.append(('formula-cell-not-in-graph', f'{x} was evaluated but is not a graph node', x))
            continue
        anc = {n.address.address for n in nx.ancestors(g, node)}
        truth = wbgen.influencers(meta, x)
        ctx.count('ancestor_checks')
        missing = sorted(truth - anc)
        if missing:
            found.append(('ancestors-miss-influencer',
                          f'ancestors({x}) lack the cells {missing} that its formula chain reads '
                          f'({m["form"]})', x))
    return found


def influence(ctx, comp, spec, meta, rng, base):
    """differential test: perturb one input in a fresh compile; whatever changes must have it as ancestor"""
    found = []
    inputs = [a for a in meta['inputs']]
    if not inputs:
        return found
    g = comp.dep_graph
    for a in rng.sample(inputs, min(2, len(inputs))):
        old = wb.spec_cells(spec).get(a)
        # (a blank would change the used area of the sheet that unbounded references are clipped to)
        pool = (17, 'zz', True, -3.5) if a.startswith(wbgen.SD + '!') else (17, 'zz', True, None, -3.5)
        new = rng.choice([v for v in pool if wb.norm(v) != wb.norm(old)])
        other = wb.fresh_values(wb.with_inputs(spec, {a: new}), list(meta['formulas']))
        ctx.count('influence_perturbations')
        node_a = comp.cell_map.get(a)
        for x in meta['formulas']:
            if not wb.same_outcome(base[x], other[x]):
                ctx.count('influence_changes_seen')
                node = comp.cell_map.get(x)
                ok = (node_a is not None and node is not None and node_a in g and node in g and
                      nx.has_path(g, node_a, node))
                if not ok:
                    found.append(('influence-outside-ancestors',
                                  f'changing {a} from {old!r} to {new!r} changes {x} '
                                  f'({base[x]!r} -> {other[x]!r}) but {a} is not an ancestor of {x}', x))
    return found


def overwrite_a_formula(ctx, comp, spec, meta):
    """a value written over a formula cell: the cell is still read by its dependants, so it keeps its edges to them"""
    members = wb.array_members(spec)
    for x in meta['order']:
        if x not in meta['formulas'] or x in members or meta['formulas'][x]['form'] in ('cse', 'cse-consumer'):
            continue
        deps = [d for d in wbgen.dependants(meta, x) if d in meta['formulas'] and d not in members]
        if not deps or x not in comp.cell_map:
            continue
        STATE.update(found=[], reads=set())
        STATE['comp'] = comp
        try:
            o = wb.outcome(comp.set_value, x, 7.25)
            if o[0] == 'x':
                return []
            for d in deps:
                wb.outcome(comp.evaluate, d)
        finally:
            STATE['comp'] = None
        ctx.count('formula_cells_overwritten')
        found = list(STATE['found']) + check_read_edges(ctx, comp)
        return [(k + '/after-a-value-was-written-over-a-formula', m, c) for k, m, c in found]
    return []


def one_workbook(ctx, spec, meta, order, config='mem', rng=None):
    install()
    STATE.update(ctx=ctx, meta=meta, spec=spec, found=[], reads=set())
    if config == 'xlsx':
        comp = wb.compile_xlsx(spec, f'{ctx.tmpdir}/c04.xlsx', None)
    else:
        comp = wb.compile_mem(spec)
    STATE['comp'] = comp
    before = ctx.counters.get('read_events', 0)
    base = {}
    poison = spec.get('poison')
    for a in spec.get('prebuild') or ():
        # (cells which are in the model before the build that fails: evaluating a cell which that build left
        # queued then builds nothing new)
        wb.outcome(comp.evaluate, a)
        ctx.count('cells_built_before_the_failing_build')
    if poison:
        # a build that fails part-way (reference into a linked workbook, after two good precedents): the
        # cells built so far must still get their edges when the model is used afterwards
        o = wb.outcome(comp.evaluate, poison)
        ctx.count('failed_builds' if o[0] == 'x' else 'poison_did_not_fail')
        if spec.get('poison_retry'):
            STATE['reads'] = set()
            o = wb.outcome(comp.evaluate, poison)
            ctx.count('retry_of_the_failed_build:' + ('value' if o[0] == 'v' else 'raises'))
            for key, msg, x in check_read_edges(ctx, comp):
                STATE['found'].append((key + '/retry-of-a-cell-whose-build-failed', msg + f' [second evaluate({poison!r}) '
                                       f'after its build failed; formula {dict(spec["sheets"])[poison.rsplit("!", 1)[0]][poison.rsplit("!", 1)[1]]}]', x))
            STATE['reads'] = set()
    for k, a in enumerate(order):
        spelled = a
        if poison and ':' not in a:
            # (after a build that failed: the same cell asked for in another spelling)
            sheet, coord_ = a.rsplit('!', 1)
            col, row = wb.split_coord(coord_)
            if k % 3 == 0:
                spelled = f'{wb.quote_sheet(sheet)}!${wb.col_letter(col)}${row}'
            elif k % 3 == 1 and sheet == spec['sheets'][0][0] and config == 'mem':
                spelled = coord_.lower()
            ctx.count('evaluate_by_another_spelling_after_a_failed_build', spelled != a)
        base[a] = wb.outcome(comp.evaluate, spelled)
        if poison:
            # the public call has returned: what it read has its edge now, not only after some later build
            for key, msg, x in check_read_edges(ctx, comp):
                STATE['found'].append((key + '/when-evaluate-returned', msg + f' [after evaluate({spelled!r})]', x))
            STATE['reads'] = set()
        if spec.get('export_at') == k:
            # exporting the graph must not disturb the live graph
            o = wb.outcome(comp.export_to_gexf, f'{ctx.tmpdir}/g.gexf')
            ctx.count('graph_exports' if o[0] == 'v' else 'graph_export_raised')
    STATE['comp'] = None
    foreign = [n for n in comp.dep_graph.nodes if not hasattr(n, 'address')]
    if foreign:
        ctx.violation('graph-node-is-not-a-cell', f'after evaluating (and exporting) the dependency graph holds '
                      f'{len(foreign)} nodes that are not cells, e.g. {foreign[0]!r}',
                      {'spec': spec, 'meta': meta, 'order': order, 'config': config})
        ctx.count('workbooks')
        return
    found = list(STATE['found']) + check_read_edges(ctx, comp)
    if not any(o[0] == 'x' for o in base.values()):
        found += quiescent(ctx, comp, spec, meta)
        if rng is not None:
            found += influence(ctx, comp, spec, meta, rng, base)
        if not found:
            found += overwrite_a_formula(ctx, comp, spec, meta)
    else:
        ctx.count('workbooks_with_failing_cells')
    ctx.count('workbooks')
    ctx.count('cfg:' + config)
    ctx.case(wbgen.shape_signature(spec, meta),
             nontrivial=ctx.counters.get('read_events', 0) > before)
    case = {'spec': spec, 'meta': meta, 'order': order, 'config': config}
    if ctx.evaluations % 40 == 1:
        ctx.sample({'cells': spec['sheets'], 'arrays': spec['arrays'], 'names': spec['names'],
                    'order': order[:8], 'reads_so_far': ctx.counters.get('read_events', 0)})
    seen = set()
    for key, msg, x in found:
        form = (meta['formulas'].get(x) or {}).get('form', 'internal')
        k = f'{key}/{form}'
        if k not in seen:
            seen.add(k)
            ctx.violation(k, msg, case)


def side_branch_after_trim(ctx):
    """directed: trim_graph keeps every dependant of an input with its formula, also one that is not an output and
    whose other precedents it removes from the model; evaluated again after a write to the input, that formula reads
    those precedents - which need their edges then like at any other time"""
    install()
    for variant in range(3):
        cells = {'A1': 1, 'B1': 2, 'B2': '=B1*3', 'C1': '=A1+1', 'D1': ('=A1+B1+B2', '=A1+SUM(B1:B2)', '=IF(A1>3,B2,B1)+A1')[variant]}
        spec = {'sheets': [['Sheet1', cells]], 'names': {}, 'arrays': [], 'calc': None}
        meta = {'inputs': ['Sheet1!A1', 'Sheet1!B1'], 'order': [f'Sheet1!{c}' for c in cells],
                'formulas': {'Sheet1!B2': {'form': 'arith', 'deps': ['Sheet1!B1']}, 'Sheet1!C1': {'form': 'arith', 'deps': ['Sheet1!A1']},
                             'Sheet1!D1': {'form': 'arith', 'deps': ['Sheet1!A1', 'Sheet1!B1', 'Sheet1!B2']}}}
        comp = wb.compile_mem(spec)
        STATE.update(ctx=ctx, meta=meta, spec=spec, found=[], reads=set(), comp=comp)
        case = {'kind': 'side-branch-after-trim'}
        ctx.count('directed:side_branch_after_trim')
        ctx.case(('side-branch-after-trim', variant))
        try:
            for a in ('Sheet1!C1', 'Sheet1!D1'):
                comp.evaluate(a)
            comp.trim_graph(['Sheet1!A1'], ['Sheet1!C1'])
            comp.set_value('Sheet1!A1', 5)
            STATE['reads'] = set()
            got = wb.outcome(comp.evaluate, 'Sheet1!D1')
        except Exception as exc:
            if not wb.raised_outside_harness(exc):
                raise
            ctx.violation('side-branch-after-trim/raises', wb.describe(exc), case)
            continue
        finally:
            STATE['comp'] = None
        found = list(STATE['found']) + (check_read_edges(ctx, comp) if got[0] == 'v' else [])
        for key, msg, x in found[:1]:
            ctx.violation(key + '/side-branch-after-trim', msg + f' [D1 = {cells["D1"]}, after trim_graph([A1], [C1]) and '
                          f'set_value(A1, 5): evaluate(D1) = {got!r}]', case)


def range_operator_workbook():
    """the range operator between two written references, one of them in parentheses: the rectangle it names covers
    cells that neither operand holds"""
    grid = {f'{"ABC"[c]}{r + 1}': 3 * r + c + 1 for r in range(3) for c in range(3)}
    whole = [f'Sheet1!{a}' for a in grid]
    formulas = {'E1': '=SUM((A1:B2):C3)', 'E2': '=SUM((C3):A1)', 'E3': '=SUM((A1):B2)+C3', 'E4': '=MAX(($A$1:$A$2):$C$1)',
                # (the parentheses on the right, on both sides, around an intersection)
                'E5': '=SUM(A1:(B2:C3))', 'E6': '=SUM((A1):(C3))', 'E7': '=MAX((A1:A2):(C1:C2))',
                'E8': '=SUM(A1:(B2:C3 B1:B3))'}
    six = ['Sheet1!A1', 'Sheet1!B1', 'Sheet1!C1', 'Sheet1!A2', 'Sheet1!B2', 'Sheet1!C2']
    deps = {'E1': whole, 'E2': whole, 'E3': ['Sheet1!A1', 'Sheet1!B1', 'Sheet1!A2', 'Sheet1!B2', 'Sheet1!C3'],
            'E4': six, 'E5': whole, 'E6': whole, 'E7': six,
            'E8': ['Sheet1!A1', 'Sheet1!B1', 'Sheet1!A2', 'Sheet1!B2', 'Sheet1!A3', 'Sheet1!B3']}
    spec = {'sheets': [['Sheet1', dict(grid, **formulas)]], 'names': {}, 'arrays': [], 'calc': None}
    meta = {'inputs': whole, 'formulas': {f'Sheet1!{a}': {'form': 'range-operator', 'deps': deps[a]} for a in formulas},
            'order': whole + [f'Sheet1!{a}' for a in formulas]}
    return spec, meta


def run(ctx):
    if ctx.shard == ctx.nshards - 1:
        # the repository's own test-suite as one more workload under the monitors (vp.suitemon)
        from vp import suiteload
        suiteload.run_suite(ctx)
    rng = ctx.rng
    i = 0
    if ctx.shard == 1 % ctx.nshards:
        side_branch_after_trim(ctx)
    if ctx.shard == 0:
        import random
        spec, meta = range_operator_workbook()
        for order in (meta['order'], list(reversed(meta['order']))):
            ctx.count('directed:range-operator')
            one_workbook(ctx, spec, meta, order, config='mem', rng=random.Random(1))
    if ctx.shard % 4 == 1 or not ctx.quick:
        # one workbook of the sizes the small generator never reaches (vp.wbgen.big): every formula cell and some
        # of the inputs in a shuffled order
        spec, meta = wbgen.big(rng)
        order = sorted(meta['formulas']) + rng.sample(meta['inputs'], 40)
        rng.shuffle(order)
        ctx.count('big_workbooks')
        reads0 = ctx.counters.get('read_events', 0)
        one_workbook(ctx, spec, meta, order, config='xlsx' if ctx.shard % 8 == 5 else 'mem', rng=rng)
        ctx.count('big_workbook_read_events', ctx.counters.get('read_events', 0) - reads0)
    # read traces of the workbooks shipped with the repository
    realbooks.run_cases(ctx, realbooks.c04_case, realbooks.acyclic_books(), 6 if ctx.quick else 60, fraction=0.3)
    while not ctx.out_of_time():
        i += 1
        spec, meta = wbgen.dag(rng, errors=True, formula_ratio=0.7)
        order = wb.all_addresses(spec)
        rng.shuffle(order)
        first_sheet = spec['sheets'][0][0]
        fcells = [a for a in meta['formulas'] if a.startswith(first_sheet + '!') and
                  meta['formulas'][a]['form'] not in ('cse',)]
        if i % 3 == 0 and len(fcells) >= 2:
            p1, p2 = rng.sample(fcells, 2)
            spec = dict(spec, sheets=[[s, dict(c)] for s, c in spec['sheets']])
            c1, c2 = p1.rsplit('!', 1)[1], p2.rsplit('!', 1)[1]
            bad = '[1]Other!A1'
            variant = (i // 3) % 5
            if variant == 4:
                # the reference that cannot be built is not read for its value: the second evaluate of the cell
                # succeeds, and what it reads then needs its edges like any other read
                bad = rng.choice(['ROW(NoSuchSheet!A5)', 'COLUMN(NoSuchSheet!B7)', 'ROW([1]Other!A3)'])
                spec['poison_retry'] = True
                variant = rng.randrange(3)
            if variant == 3:
                # the unbuildable reference sits one level down, in a precedent that comes first
                spec['sheets'][0][1]['A21'] = f'={bad}+1'
                bad = 'A21'
                variant = 1
            spec['sheets'][0][1]['A20'] = (f'={c1}+{c2}+{bad}', f'={bad}+{c1}+{c2}', f'={c1}+{bad}+{c2}')[variant]
            spec['poison'] = f'{first_sheet}!A20'
            spec['poison_cells'] = [f'{first_sheet}!A20', f'{first_sheet}!A21']
            if (i // 12) % 2:
                spec['prebuild'] = [a for a in order if a in meta['inputs']]
            order = [a for a in order if a not in spec['poison_cells']]
        if i % 7 == 0:
            spec = dict(spec, export_at=len(order) // 2)
        one_workbook(ctx, spec, meta, order, config='xlsx' if i % 5 == 0 else 'mem', rng=rng)


def replay(ctx, case):
    if case.get('kind') == 'side-branch-after-trim':
        side_branch_after_trim(ctx)
        return
    if case.get('kind') == 'suite':
        from vp import suiteload
        suiteload.run_suite(ctx)
        return
    import random
    if case.get('kind') == 'real-book':
        realbooks.c04_case(ctx, case['book'], case['case_seed'])
        return
    one_workbook(ctx, case['spec'], case['meta'], case['order'], case.get('config', 'mem'),
                 rng=random.Random(0))
