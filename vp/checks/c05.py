"""C05 - a cell has one value, however and in whatever order it is reached.

For every generated acyclic workbook: one fresh compile per permutation of the first-evaluation
order (all n! for n <= 6 addresses, sampled beyond), each result compared with the reference
(raster order) values; then every access path - the cell, again the cell, enclosing rectangles,
unbounded column/row forms clipped to the used area, list / tuple / generator of addresses, the
sheet-less address on the active sheet - both on a model in which everything is evaluated and as
the very first access of a fresh model.
"""
import itertools
import math

from vp import realbooks, wb, wbgen

PROP = 'C05'
LEVEL = 'exploration'
RULE = ('seeded acyclic workbooks (3-6 addresses: all n! first-evaluation orders; 7-12: 120 sampled orders) '
        'x access paths {cell, repeat, every enclosing rectangle of the used grid (sampled to 12), A:A / 1:1 / '
        'A:B / 1:2 forms, list, tuple, generator, sheet-less address}; oracle = all observations of one cell '
        'agree type-strictly with the raster-order evaluation. A case is one (workbook, order) or one '
        '(workbook, access path); distinct by (shape, order | path).')
BUDGET = {'quick': 30, 'thorough': 300}
FLOORS = {
    'quick': {'orders': 800, 'exhaustive_order_workbooks': 4, 'path:rect': 200, 'path:unbounded': 100,
              'path:list': 20, 'path:tuple': 20, 'path:generator': 20, 'path:sheetless': 60,
              'path:repeat': 60, 'path:first_access_range': 20, 'element_compares': 6000,
              'cfg:xlsx-with-stale-stored-results': 2, 'real_book_cases': 6, 'real_value_compares': 250,
              'pristine_process_workbooks': 16, 'workbooks_with_iterative_calculation_on': 6},
    'thorough': {'orders': 60000, 'exhaustive_order_workbooks': 400, 'path:unbounded': 4000,
                 'element_compares': 400000},
}
ASSUMPTIONS = ['the reference values are pycel\'s own raster-order evaluation of a fresh model',
               'unbounded forms are only asked for sheets whose used area has at least 2 rows and 2 columns '
               '(the one-cell / no-overlap clippings are the directed cases clip_edge_cases())']


def used_area(spec, sheet):
    cells = dict(spec['sheets'])[sheet]
    coords = [wb.split_coord(c) for c, v in cells.items() if v is not None]
    for s, ref, _ in spec.get('arrays', ()):
        if s == sheet:
            coords += [wb.split_coord(c) for row in wb.range_cells(ref) for c in row]
    if not coords:
        return 0, 0
    return max(c for c, r in coords), max(r for c, r in coords)


def expected_range(ref, sheet, c1, r1, c2, r2):
    rows = tuple(tuple(ref.get(wb.addr(sheet, wb.coord(c, r)), ('v', None)) for c in range(c1, c2 + 1))
                 for r in range(r1, r2 + 1))
    return rows


def elements(result, h, w):
    """undo pycel's documented trimming of excess dimensions: -> {(i, j): value}"""
    out = {}
    if h > 1 and w > 1:
        if len(result) != h or any(len(r) != w for r in result):
            raise ValueError('shape')
    elif h == 1 and w > 1:
        if len(result) != w:
            raise ValueError('shape')
    elif w == 1 and h > 1:
        if len(result) != h:
            raise ValueError('shape')
    for i in range(h):
        for j in range(w):
            if h == 1 and w == 1:
                v = result
            elif h == 1:
                v = result[j]
            elif w == 1:
                v = result[i]
            else:
                v = result[i][j]
            out[(i, j)] = v
    return out


class Book:
    def __init__(self, ctx, spec, meta, factory=None, config='mem'):
        self.ctx, self.spec, self.meta = ctx, spec, meta
        self.config = config
        self.factory = factory or (lambda: wb.compile_mem(spec))
        self.addresses = wb.all_addresses(spec)
        comp = self.factory()
        self.ref = {a: wb.outcome(comp.evaluate, a) for a in self.addresses}
        self.failing = any(o[0] == 'x' for o in self.ref.values())
        self.found = []
        self.truth = None
        self.shape = wbgen.shape_signature(spec, meta)

    def case(self):
        return {'spec': self.spec, 'meta': self.meta, 'config': self.config,
                'stored': getattr(self.factory, 'stored', None)}

    def bad(self, key, msg, extra):
        c = self.case()
        c.update(extra)
        self.ctx.violation(key, msg, c)

    # ---- orders
    def check_order(self, order):
        comp = self.factory()
        self.ctx.count('orders')
        for a in order:
            got = wb.outcome(comp.evaluate, a)
            self.ctx.count('element_compares')
            if not wb.same_outcome(got, self.ref[a]):
                self.bad('order-dependent-value',
                         f'with first-evaluation order {order} evaluate({a!r}) = {got!r}, raster order gives '
                         f'{self.ref[a]!r}', {'kind': 'order', 'order': list(order)})
                return False
        self.ctx.case(('order', self.shape, tuple(order)))
        if self.config == 'xlsx-stale':
            # recalculate() drops every stored result: whatever order the cells entered the model in, each cell then
            # shows what its formula gives (the values of a compile without stored results)
            if self.truth is None:
                self.truth = wb.fresh_values(self.spec, self.addresses)
            out = wb.outcome(comp.recalculate)
            self.ctx.count('recalculate_after_order' if out[0] == 'v' else f'recalculate_raised:{out[1]}')
            if out[0] == 'v':
                for a in self.addresses:
                    got = wb.outcome(comp.evaluate, a)
                    self.ctx.count('element_compares')
                    if not wb.same_outcome(got, self.truth[a]):
                        self.bad('value-after-recalculate-depends-on-the-order-of-first-evaluation',
                                 f'stored results stale, cells first evaluated in the order {order}, then '
                                 f'recalculate(): evaluate({a!r}) = {got!r}, the formulas give {self.truth[a]!r}',
                                 {'kind': 'order', 'order': list(order)})
                        return False
        return True

    def orders(self, rng, max_sampled):
        n = len(self.addresses)
        if n <= 6 and self.config == 'mem':
            self.ctx.count('exhaustive_order_workbooks')
            for perm in itertools.permutations(self.addresses):
                if not self.check_order(perm):
                    return
        else:
            for _ in range(min(max_sampled, math.factorial(n))):
                perm = list(self.addresses)
                rng.shuffle(perm)
                if not self.check_order(perm):
                    return

    # ---- access paths
    def compare_range(self, comp, sheet, text, c1, r1, c2, r2, tag, first=False):
        got = wb.outcome(comp.evaluate, text)
        h, w = r2 - r1 + 1, c2 - c1 + 1
        self.ctx.count('path:' + tag)
        if '!' not in text:
            self.ctx.count('path:sheetless-' + tag)
            tag = 'sheetless-' + tag
        if first:
            self.ctx.count('path:first_access_range')
        self.ctx.case(('path', self.shape, tag, text, first))
        exp = expected_range(self.ref, sheet, c1, r1, c2, r2)
        if any(o[0] == 'x' for row in exp for o in row):
            return
        if got[0] == 'x':
            self.bad(f'{tag}-raises', f'evaluate({text!r}) raised {got[1]}',
                     {'kind': 'path', 'path': text, 'first': first})
            return
        if tag.endswith('unbounded') and isinstance(got[1], tuple):
            # openpyxl creates cells on access, so an earlier evaluate of a rectangle reaching beyond the
            # used area makes the used area (and with it the clipped range) larger: extra blank
            # rows/columns are not a disagreement about any cell
            g = got[1]
            if w == 1 and len(g) >= h and not isinstance(g[0], tuple):
                h = len(g)
            elif h == 1 and len(g) >= w and not isinstance(g[0], tuple):
                w = len(g)
            elif g and isinstance(g[0], tuple):
                h, w = max(h, len(g)), max(w, len(g[0]))
            r2, c2 = r1 + h - 1, c1 + w - 1
            exp = expected_range(self.ref, sheet, c1, r1, c2, r2)
        try:
            el = elements(got[1], h, w)
        except Exception:
            self.bad(f'{tag}-wrong-shape', f'evaluate({text!r}) = {got[1]!r} does not have shape {h}x{w} '
                     '(after trimming excess dimensions)', {'kind': 'path', 'path': text, 'first': first})
            return
        for (i, j), v in el.items():
            self.ctx.count('element_compares')
            want = exp[i][j][1]
            if not wb.same(v, want):
                cell = wb.addr(sheet, wb.coord(c1 + j, r1 + i))
                key = f'{tag}-element-differs'
                if self.config == 'xlsx-stale':
                    # mechanism: the range starts at the first cell of an array formula, so pycel gives the range
                    # the array formula and computes it, while the member cells serve their (stale) stored results
                    for a_sheet, a_ref, _f in self.spec['arrays']:
                        rows = wb.range_cells(a_ref)
                        if a_sheet == sheet and rows[0][0] == wb.coord(c1, r1) and \
                                wb.coord(c1 + j, r1 + i) in [c for row in rows for c in row] and \
                                all(wb.coord(c, r) in [x for row in rows for x in row]
                                    for c in range(c1, c2 + 1) for r in range(r1, r2 + 1)):
                            key += '/array-range-computed-while-its-cells-serve-stale-stored-results'
                self.bad(key,
                         f'element [{i}][{j}] of evaluate({text!r}) is {v!r} but evaluate({cell!r}) is {want!r}',
                         {'kind': 'path', 'path': text, 'first': first})
                return

    def range_paths(self, rng, comp_factory, n_rects):
        sheets = [s for s, _ in self.spec['sheets']]
        plans = []
        for sheet in sheets:
            mc, mr = used_area(self.spec, sheet)
            if not mc:
                continue
            for _ in range(n_rects):
                c1, r1 = rng.randint(1, mc), rng.randint(1, mr)
                c2, r2 = rng.randint(c1, min(mc + 1, c1 + 3)), rng.randint(r1, min(mr + 1, r1 + 3))
                if (c1, r1) == (c2, r2):
                    continue
                text = f'{wb.quote_sheet(sheet)}!{wb.coord(c1, r1)}:{wb.coord(c2, r2)}'
                plans.append((sheet, text, c1, r1, c2, r2, 'rect'))
            if mc >= 2 and mr >= 2:
                for form in ('A:A', 'B:B', 'A:B', '1:1', '2:2', '1:2'):
                    a, b = form.split(':')
                    if a.isalpha():
                        c1, c2 = ord(a) - 64, ord(b) - 64
                        if c2 > mc:
                            continue
                        plans.append((sheet, f'{wb.quote_sheet(sheet)}!{form}', c1, 1, c2, mr, 'unbounded'))
                        if sheet == sheets[0] and form != 'B:B':
                            # the same on the active sheet, without naming it
                            plans.append((sheet, form, c1, 1, c2, mr, 'unbounded'))
                    else:
                        r1, r2 = int(a), int(b)
                        if r2 > mr:
                            continue
                        plans.append((sheet, f'{wb.quote_sheet(sheet)}!{form}', 1, r1, mc, r2, 'unbounded'))
                        if sheet == sheets[0] and form != '2:2':
                            plans.append((sheet, form, 1, r1, mc, r2, 'unbounded'))
        return plans

    def paths(self, rng, n_rects):
        comp = self.factory()
        for a in self.addresses:
            wb.outcome(comp.evaluate, a)
        # repeat
        for a in self.addresses:
            got = wb.outcome(comp.evaluate, a)
            self.ctx.count('path:repeat')
            self.ctx.count('element_compares')
            if not wb.same_outcome(got, self.ref[a]):
                self.bad('repeat-differs', f'second evaluate({a!r}) = {got!r}, first was {self.ref[a]!r}',
                         {'kind': 'path', 'path': a, 'first': False})
        plans = self.range_paths(rng, None, n_rects)
        for sheet, text, c1, r1, c2, r2, tag in plans:
            self.compare_range(comp, sheet, text, c1, r1, c2, r2, tag)
        # the same paths as the first access of a fresh model (builds ranges before cells)
        for sheet, text, c1, r1, c2, r2, tag in rng.sample(plans, min(len(plans), 4)):
            self.compare_range(self.factory(), sheet, text, c1, r1, c2, r2, tag, first=True)
        # containers of addresses
        k = min(len(self.addresses), 4)
        for tag, make in (('list', list), ('tuple', tuple), ('generator', lambda x: (a for a in x)),
                          ('generator', iter), ('generator', lambda x: map(str, x))):
            pick = [rng.choice(self.addresses) for _ in range(k)]
            for model in (comp, self.factory()):
                got = wb.outcome(model.evaluate, make(pick))
                self.ctx.count('path:' + tag)
                self.ctx.case(('path', self.shape, tag, tuple(pick), model is comp))
                want_type = list if tag == 'list' else tuple
                if any(self.ref[a][0] == 'x' for a in pick):
                    continue
                ok = (got[0] == 'v' and isinstance(got[1], want_type) and len(got[1]) == k and
                      all(wb.same(v, self.ref[a][1]) for v, a in zip(got[1], pick)))
                self.ctx.count('element_compares', k)
                if not ok:
                    self.bad(f'{tag}-of-addresses-differs',
                             f'evaluate({tag} {pick}) = {got!r}, cells give '
                             f'{[self.ref[a] for a in pick]}', {'kind': 'container', 'tag': tag, 'pick': pick})
        # sheet-less address on the active sheet
        active = self.spec['sheets'][0][0]
        for a in self.addresses:
            s, c = a.rsplit('!', 1)
            if s != active:
                continue
            for model in (comp, self.factory()):
                got = wb.outcome(model.evaluate, c)
                self.ctx.count('path:sheetless')
                self.ctx.count('element_compares')
                self.ctx.case(('path', self.shape, 'sheetless', c, model is comp))
                if not wb.same_outcome(got, self.ref[a]):
                    self.bad('sheetless-address-differs',
                             f'evaluate({c!r}) = {got!r} but evaluate({a!r}) = {self.ref[a]!r}',
                             {'kind': 'path', 'path': c, 'first': model is not comp})


CLIP_SPECS = [
    # used area one row high: A:A clips to the single cell A1
    ('unbounded-range-clipped-to-a-single-cell',
     {'sheets': [['Sheet1', {'A1': 5, 'B1': 7, 'C1': '=A1+B1'}]], 'names': {}, 'arrays': [], 'calc': None},
     'Sheet1!A:A', 5),
    # used area one column wide: 1:1 clips to the single cell A1
    ('unbounded-range-clipped-to-a-single-cell',
     {'sheets': [['Sheet1', {'A1': 5, 'A2': 7, 'A3': '=A1+A2'}]], 'names': {}, 'arrays': [], 'calc': None},
     'Sheet1!1:1', 5),
    # the single cell an unbounded range clips to holds a formula that was never evaluated
    ('unbounded-range-clipped-to-a-single-cell',
     {'sheets': [['Sheet1', {'A1': 5, 'B1': '=A1+1', 'C1': '=SUM(B:B)+1'}]], 'names': {}, 'arrays': [],
      'calc': None}, 'Sheet1!B:B', 6),
    ('unbounded-range-clipped-to-a-single-cell',
     {'sheets': [['Sheet1', {'A1': 5, 'A2': '=A1*2', 'A3': '=SUM(2:2)+1'}]], 'names': {}, 'arrays': [],
      'calc': None}, 'Sheet1!2:2', 10),
    # the whole used area is one cell
    ('unbounded-range-clipped-to-a-single-cell',
     {'sheets': [['Sheet1', {'A1': 5}]], 'names': {}, 'arrays': [], 'calc': None}, 'Sheet1!A:A', 5),
    ('unbounded-range-clipped-to-a-single-cell',
     {'sheets': [['Sheet1', {'A1': 5}]], 'names': {}, 'arrays': [], 'calc': None}, 'Sheet1!1:1', 5),
    # the whole used area is one cell and the unbounded range does not pass through it: nothing to clip to
    ('unbounded-range-outside-the-used-area',
     {'sheets': [['Sheet1', {'A1': 5}]], 'names': {}, 'arrays': [], 'calc': None}, 'Sheet1!B:B', None),
    ('unbounded-range-outside-the-used-area',
     {'sheets': [['Sheet1', {'A1': 5}]], 'names': {}, 'arrays': [], 'calc': None}, 'Sheet1!2:2', None),
    ('unbounded-range-outside-the-used-area',
     {'sheets': [['Sheet1', {'A1': '=SUM(T!B:B)+COUNT(T!2:2)+1'}], ['T', {'A1': 42}]], 'names': {}, 'arrays': [],
      'calc': None}, 'Sheet1!A1', 1),
    ('unbounded-range-clipped-to-a-single-cell',
     {'sheets': [['Sheet1', {'A1': '=SUM(T!A:A)+COUNT(T!1:1)+1'}], ['T', {'A1': 42}]], 'names': {}, 'arrays': [],
      'calc': None}, 'Sheet1!A1', 44),
    # a column right of the used area: nothing to clip to
    ('unbounded-range-outside-the-used-area',
     {'sheets': [['Sheet1', {'A1': 5, 'A2': 7, 'B1': 1, 'B2': 2}]], 'names': {}, 'arrays': [], 'calc': None},
     'Sheet1!D:D', None),
]


ARRAY_EDGE = [
    # a rectangle that starts on the first cell of an array formula's target and reaches over other cells
    ({'sheets': [['Sheet1', {'A1': 1, 'A2': 2, 'A3': 3, 'E1': 5, 'E2': 'x'}]], 'names': {},
      'arrays': [['Sheet1', 'D1:D3', '=A1:A3*2']], 'calc': None}, 'Sheet1!D1:E3', ((2, 5), (4, 'x'), (6, None))),
    ({'sheets': [['Sheet1', {'A1': 1, 'A2': 2, 'A3': 3, 'D4': 7}]], 'names': {},
      'arrays': [['Sheet1', 'D1:D3', '=A1:A3*2']], 'calc': None}, 'Sheet1!D1:D5', (2, 4, 6, 7, None)),
    ({'sheets': [['Sheet1', {'A1': 1, 'A2': 2, 'A3': 3}]], 'names': {},
      'arrays': [['Sheet1', 'D1:D3', '=A1:A3*2']], 'calc': None}, 'Sheet1!D1:D5', (2, 4, 6, None, None)),
]


ARRAY_NEIGHBOURS = [
    # two array formulas side by side: the text of the first is the beginning of the text of the second
    ({'sheets': [['Sheet1', {'A1': 1, 'A2': 2}]], 'names': {},
      'arrays': [['Sheet1', 'F6:F7', '=A1:A2'], ['Sheet1', 'G6:G7', '=A1:A2*10']], 'calc': None},
     'Sheet1!F6:G7', ((1, 10), (2, 20))),
    # the same text entered over two separate targets, another cell between them
    ({'sheets': [['Sheet1', {'A1': 1, 'A2': 2, 'B1': 3, 'B2': 4, 'H1': 1000, 'H2': 2000}]], 'names': {},
      'arrays': [['Sheet1', 'F1:G2', '=A1:B2*2'], ['Sheet1', 'I1:J2', '=A1:B2*2']], 'calc': None},
     'Sheet1!F1:J2', ((2, 6, 1000, 2, 6), (4, 8, 2000, 4, 8))),
    # ... and directly next to each other
    ({'sheets': [['Sheet1', {'A1': 1, 'A2': 2, 'B1': 3, 'B2': 4}]], 'names': {},
      'arrays': [['Sheet1', 'F1:G2', '=A1:B2*2'], ['Sheet1', 'H1:I2', '=A1:B2*2']], 'calc': None},
     'Sheet1!F1:I2', ((2, 6, 2, 6), (4, 8, 4, 8))),
]


ARRAY_BLANKS = [
    # an array formula whose result has a blank element (it refers to an empty cell): the member cell shows 0, as
    # every formula result does, and so must the element of the range
    ({'sheets': [['Sheet1', {'A1': 1, 'A3': 3}]], 'names': {}, 'arrays': [['Sheet1', 'D1:D3', '=A1:A3']],
      'calc': None}, 'Sheet1!D1:D3', (1, 0, 3)),
    ({'sheets': [['Sheet1', {'A1': 1, 'B2': 4}]], 'names': {}, 'arrays': [['Sheet1', 'D1:E2', '=IF(A1:B2>0,A1:B2,A1:B2)']],
      'calc': None}, 'Sheet1!D1:E2', ((1, 0), (0, 4))),
]


def array_edge_cases(ctx):
    for spec, text, want in ARRAY_BLANKS:
        for first in (True, False):
            comp = wb.compile_mem(spec)
            if not first:
                for a in wb.all_addresses(spec):
                    wb.outcome(comp.evaluate, a)
            got = wb.outcome(comp.evaluate, text)
            cells = [wb.outcome(comp.evaluate, f'Sheet1!{c}')[1] for row in wb.range_cells(text.rsplit('!', 1)[1])
                     for c in row]
            ctx.count('directed:array_blanks')
            ctx.case(('array-blanks', text, first))
            if got[0] != 'v' or not wb.same(got[1], want):
                ctx.violation('array-formula-range-shows-blank-where-its-cell-shows-0',
                              f'evaluate({text!r}) ({"first access" if first else "after evaluating every cell"}) of '
                              f'{{{spec["arrays"][0][2]}}} gives {got!r}; its cells evaluate to {cells!r}',
                              {'kind': 'array-edge', 'spec': spec, 'path': text})
    for spec, text, want in ARRAY_NEIGHBOURS:
        for first in (True, False):
            comp = wb.compile_mem(spec)
            if not first:
                for a in wb.all_addresses(spec):
                    wb.outcome(comp.evaluate, a)
            got = wb.outcome(comp.evaluate, text)
            ctx.count('directed:array_neighbours')
            ctx.case(('array-neighbours', text, repr(spec['arrays']), first))
            if got[0] != 'v' or not wb.same(got[1], want):
                ctx.violation('range-over-two-array-formulas',
                              f'evaluate({text!r}) ({"first access" if first else "after evaluating every cell"}) '
                              f'over the array formulas {spec["arrays"]} gives {got!r}; the cells hold {want!r}',
                              {'kind': 'array-edge', 'spec': spec, 'path': text})
    for spec, text, want in ARRAY_EDGE:
        for first in (True, False):
            comp = wb.compile_mem(spec)
            if not first:
                for a in wb.all_addresses(spec):
                    wb.outcome(comp.evaluate, a)
            got = wb.outcome(comp.evaluate, text)
            ctx.count('directed:array_edge_cases')
            ctx.case(('array-edge', text, repr(spec['sheets']), first))
            if got[0] != 'v' or not wb.same(got[1], want):
                ctx.violation('range-from-array-formula-corner-over-other-cells',
                              f'evaluate({text!r}) ({"first access" if first else "after evaluating every cell"}) '
                              f'gives {got!r}; the cells hold {want!r}',
                              {'kind': 'array-edge', 'spec': spec, 'path': text})


def clip_edge_cases(ctx):
    """directed: unbounded forms whose clipping to the used area is one cell / empty"""
    for key, spec, text, want in CLIP_SPECS:
        got = wb.outcome(wb.compile_mem(spec).evaluate, text)
        ctx.count('directed:clip_edge_cases')
        ctx.case(('clip', text, repr(spec['sheets'])))
        ok = got[0] == 'v' and (
            wb.same(got[1], want) or wb.same(got[1], (want,)) or wb.same(got[1], ((want,),)) or
            (want is None and got[1] in ((), None, ((),))))
        if not ok:
            ctx.violation(key, f'evaluate({text!r}) on a sheet whose used area is '
                          f'{used_area(spec, "Sheet1")} (cols, rows) gives {got!r}; the clipped range holds '
                          f'{want!r}', {'kind': 'clip', 'spec': spec, 'path': text, 'want': want, 'key': key})


CONTEXT_SPECS = [
    # an ordinary cell using IFERROR / IFNA / IF on a range feeds a CSE array formula: its value must not
    # depend on whether it is first evaluated on its own or while the array formula is being computed
    {'sheets': [['Sheet1', {'A1': 5, 'A2': 6, 'A3': 7, 'C1': '=IFERROR(A1:A3,-1)', 'C2': '=C1*100'}]],
     'names': {}, 'arrays': [['Sheet1', 'E1:E3', '=A1:A3+C1']], 'calc': None},
    {'sheets': [['Sheet1', {'A1': 1, 'A2': '#N/A', 'A3': 3, 'C1': '=IFNA(A1:A3,9)', 'C2': '=C1+1'}]],
     'names': {}, 'arrays': [['Sheet1', 'E1:E2', '=A1:A2*C1']], 'calc': None},
    {'sheets': [['Sheet1', {'A1': 2, 'A2': 0, 'B1': 10, 'B2': 20, 'C1': '=SUM(A1:A2*B1:B2)', 'C2': '=C1&"x"'}]],
     'names': {}, 'arrays': [['Sheet1', 'E1:E2', '=A1:A2+C1']], 'calc': None},
]


COMPUTED_REFERENCE_SPECS = [
    # a formula whose result is a reference (INDIRECT, OFFSET) to a formula cell: what it shows must not depend
    # on whether that cell was evaluated before
    {'sheets': [['Sheet1', {'A1': 1, 'B1': '=A1*2', 'C1': '=INDIRECT("B1")', 'D1': '=OFFSET(A1,0,1)',
                            'E1': '=C1+D1'}]], 'names': {}, 'arrays': [], 'calc': None},
    {'sheets': [['Sheet1', {'A1': 3, 'A2': '=A1+1', 'A3': '=A2+1', 'C1': '=SUM(OFFSET(A1,0,0,3,1))',
                            'C2': '=INDEX(OFFSET(A1,1,0,2,1),2)', 'C3': '=OFFSET(A3,-1,0)'}]],
     'names': {}, 'arrays': [], 'calc': None},
]


SHEET_ARRAY_SPECS = [
    # array formulas on sheets whose names need care (a blank, a second sheet sharing a word with it)
    {'sheets': [['Sheet1', {'A1': 10, 'B1': "=SUM('My Sheet'!C1:C3)+A1"}], ['My Sheet', {'A1': 1, 'A2': 2, 'A3': 3}]],
     'names': {}, 'arrays': [['My Sheet', 'C1:C3', '=A1:A3*2']], 'calc': None},
    {'sheets': [['Sheet1', {'A1': 10}], ['My Sheet', {'A1': 1, 'A2': 2, 'B1': 5}], ['Sheet', {'C1': 100, 'C2': 200}]],
     'names': {}, 'arrays': [['My Sheet', 'C1:D2', '=A1:A2+B1']], 'calc': None},
]


def intersection_first_access(ctx):
    """directed: a formula with the intersection operator whose result is one formula cell that was not evaluated
    yet, reached first through a range that contains the formula (the ranges of one build are evaluated eagerly, the
    order they are taken in must not matter)"""
    spec = {'sheets': [['Sheet1', {'A1': 1, 'B1': '=A1*2', 'C1': 3, 'B2': 5, 'B3': 6, 'F1': '=A1:C1 B1:B3',
                                   'F2': '=F1+1', 'G1': '=B1*10'}]], 'names': {}, 'arrays': [], 'calc': None}
    meta = {'inputs': [], 'formulas': {f'Sheet1!{c}': {'form': 'intersect', 'deps': []} for c in ('B1', 'F1', 'F2', 'G1')},
            'order': []}
    book = Book(ctx, spec, meta)
    for first in ('Sheet1!F1:F2', 'Sheet1!F:F', 'Sheet1!A1:G3', 'Sheet1!1:1', 'Sheet1!F1', 'Sheet1!G1'):
        comp = book.factory()
        wb.outcome(comp.evaluate, first)
        ctx.count('directed:intersection_first_access')
        for text, c1, r1, c2, r2 in (('Sheet1!A1:C1', 1, 1, 3, 1), ('Sheet1!B1:B3', 2, 1, 2, 3),
                                     ('Sheet1!A1:G3', 1, 1, 7, 3), ('Sheet1!F1:F2', 6, 1, 6, 2)):
            book.compare_range(comp, 'Sheet1', text, c1, r1, c2, r2, 'rect')
        for a in book.addresses:
            got = wb.outcome(comp.evaluate, a)
            if not wb.same_outcome(got, book.ref[a]):
                book.bad('order-dependent-value', f'after evaluate({first!r}) first, evaluate({a!r}) = {got!r}, raster '
                         f'order gives {book.ref[a]!r}', {'kind': 'intersection-first', 'order': [first, a]})


def context_books(ctx, rng):
    for spec in CONTEXT_SPECS + SHEET_ARRAY_SPECS + COMPUTED_REFERENCE_SPECS:
        members = wb.array_members(spec)
        meta = {'inputs': [], 'formulas': {a: {'form': 'cse', 'deps': []} for a in members}, 'order': []}
        for a, v in wb.spec_cells(spec).items():
            if wb.is_formula(v):
                meta['formulas'][a] = {'form': 'context', 'deps': []}
        book = Book(ctx, spec, meta)
        ctx.count('directed:context_books')
        if book.failing:
            ctx.count('context_book_reference_fails')
            bad = sorted(a for a, o in book.ref.items() if o[0] == 'x')
            ctx.violation('directed-workbook-cell-raises',
                          f'evaluate({bad[0]!r}) raises {book.ref[bad[0]][1]} in a workbook whose every cell can be '
                          f'evaluated: {spec["sheets"]} {spec["arrays"]}', {'spec': spec, 'meta': meta,
                                                                           'kind': 'path', 'path': bad[0], 'first': True})
            continue
        # all orders over the formula cells and two members (constants cannot matter)
        focus = [a for a in book.addresses if a in meta['formulas']][:6]
        book.addresses = focus
        book.orders(rng, 120)
        book.addresses = wb.all_addresses(spec)
        book.paths(rng, 4)


def stale_xlsx_factory(ctx, spec, meta, rng, stored=None):
    """an .xlsx whose stored formula results are NOT what the formulas produce (a stale cache: manual
    calculation mode, volatile functions).  Whatever pycel serves for a cell - the stored result or a
    recalculation - it must be the same whichever way and in whichever order the cell is reached."""
    from pycel import ExcelCompiler
    if stored is None:
        fresh = wb.fresh_values(spec)
        stored = {}
        for a, o in fresh.items():
            if o[0] != 'v' or o[1] is None or a not in meta['formulas']:
                continue
            v = o[1]
            if rng.random() < 0.6:
                v = (v + 1000) if isinstance(v, (int, float)) and not isinstance(v, bool) else (
                    f'{v}-stale' if isinstance(v, str) and not v.startswith('#') else v)
            stored[a] = v
    path = f'{ctx.tmpdir}/stale.xlsx'
    wb.write_xlsx(spec, path, stored)
    factory = lambda: ExcelCompiler(filename=path)          # noqa: E731
    factory.stored = stored
    return factory


def stale_array_case(ctx):
    """directed: an array formula whose stored results in the file are stale.  The range that carries the array
    formula is computed, its cells serve the stored results (a known finding, see known_findings.json)."""
    import random
    spec = {'sheets': [['Sheet1', {'A1': 1, 'B1': 2, 'C1': 3}]], 'names': {},
            'arrays': [['Sheet1', 'A3:C3', '=A1:C1*10']], 'calc': None}
    meta = {'formulas': {f'Sheet1!{c}3': {'form': 'cse', 'deps': []} for c in 'ABC'}, 'inputs': [], 'order': []}
    stored = {'Sheet1!A3': 10, 'Sheet1!B3': 1020, 'Sheet1!C3': 30}
    book = Book(ctx, spec, meta, stale_xlsx_factory(ctx, spec, meta, random.Random(0), stored), 'xlsx-stale')
    comp = book.factory()
    for a in book.addresses:
        wb.outcome(comp.evaluate, a)
    ctx.count('directed:stale_array_case')
    book.compare_range(comp, 'Sheet1', 'Sheet1!A3:C3', 1, 3, 3, 3, 'rect')
    book.compare_range(book.factory(), 'Sheet1', 'Sheet1!A3:B3', 1, 3, 2, 3, 'rect', first=True)


def one_book(ctx, spec, meta, rng, max_sampled=120, n_rects=12, do_orders=True, config='mem'):
    if config == 'xlsx-stale':
        book = Book(ctx, spec, meta, stale_xlsx_factory(ctx, spec, meta, rng), config)
        max_sampled = 40
        ctx.count('cfg:xlsx-with-stale-stored-results')
    else:
        book = Book(ctx, spec, meta)
    if book.failing:
        # the generator only uses implemented functions, so a cell that cannot be evaluated on its own is itself
        # a disagreement as soon as another access path (a range containing it) returns a value
        ctx.count('skipped_workbooks_with_failing_cells')
        comp = wb.compile_mem(spec)
        for a, o in book.ref.items():
            if o[0] != 'x':
                continue
            s_, c_ = a.rsplit('!', 1)
            col, row = wb.split_coord(c_)
            text = f'{wb.quote_sheet(s_)}!{wb.coord(col, row)}:{wb.coord(col + 1, row)}'
            got = wb.outcome(comp.evaluate, text)
            form = (meta['formulas'].get(a) or {}).get('form', '?')
            if got[0] == 'v':
                ctx.violation(f'cell-raises-but-range-evaluates/{form}',
                              f'evaluate({a!r}) raises {o[1]} while evaluate({text!r}) = {got[1]!r}',
                              {'spec': spec, 'meta': meta, 'kind': 'path', 'path': text, 'first': True})
                break
        return
    ctx.count('workbooks')
    if do_orders:
        book.orders(rng, max_sampled)
    book.paths(rng, n_rects)
    if ctx.counters['workbooks'] % 10 == 1:
        ctx.sample({'cells': spec['sheets'], 'arrays': spec['arrays'], 'names': spec['names'],
                    'addresses': book.addresses})


def run(ctx):
    rng = ctx.rng
    if ctx.shard == 0:
        clip_edge_cases(ctx)
        array_edge_cases(ctx)
        stale_array_case(ctx)
        intersection_first_access(ctx)
    if ctx.shard == 1 % ctx.nshards:
        context_books(ctx, rng)
    # the workbooks shipped with the repository (date, text, lookup, ... functions; CSE arrays; several sheets)
    realbooks.run_cases(ctx, realbooks.c05_case, realbooks.acyclic_books(), 6 if ctx.quick else 60, fraction=0.3)
    i = 0
    late = []
    while not ctx.out_of_time():
        i += 1
        if i % 4:
            spec, meta = wbgen.dag(rng, n_cells=rng.randint(3, 6), data_sheet=False, arrays=False,
                                   two_sheets=rng.random() < 0.3)
            while len(wb.all_addresses(spec)) > 6:
                spec, meta = wbgen.dag(rng, n_cells=rng.randint(3, 5), data_sheet=False, arrays=False,
                                       two_sheets=False)
        else:
            spec, meta = wbgen.dag(rng, n_cells=rng.randint(5, 9), arrays=(i % 8 == 0) or None,
                                   two_sheets=(i % 8 == 0) or None)
        if i % 6 == 1:
            # the same acyclic workbook saved with iterative calculation switched on
            spec = dict(spec, calc={'iterate': True, 'count': 100, 'delta': 0.001})
            ctx.count('workbooks_with_iterative_calculation_on')
        one_book(ctx, spec, meta, rng, config='xlsx-stale' if i % 5 == 0 else 'mem')
        if i % 7 == 0:
            late.append((spec, meta))
    pristine_reference(ctx, late[-5:] + [(CANARY_SPEC, {'formulas': {}})])


# cells whose value shows a setting of the thread or of the process that an earlier evaluation could have left
# changed (decimal precision and rounding mode, locale, numpy's error state), first; then one call of a function
# from each part of the library, which is what this process has done many times and the pristine one never
CANARY_SPEC = {'sheets': [['Sheet1', {
    'A1': '=CEILING(0.1+0.2,0.1)', 'A2': '=FLOOR(0.1+0.7,0.1)', 'A3': '=ROUND(2.5,0)', 'A4': '=ROUND(0.125,2)',
    'A5': '=ROUND(1234567890123.4567,3)', 'A6': '=TEXT(2.5,"0")', 'A7': '=TEXT(0.125,"0.00")', 'A8': '=ROUND(-2.5,0)',
    'A9': '=MOD(0.3,0.1)', 'A10': '=TEXT(1234567.891,"#,##0.00")', 'A11': '=1/3', 'A12': '=TRUNC(2.675*100)/100',
    'A13': '=VALUE("1.5")+VALUE("1e3")', 'A14': '=0.1+0.2&""', 'A15': '=ROUNDUP(0.1+0.2,1)', 'A16': '=INT(-0.5)',
    'B1': '=TEXT(1234.5678,"0.00")', 'B2': '=TEXT(0.285,"0%")', 'B3': '=TEXT(43831,"yyyy-mm-dd")',
    'B4': '=DEC2BIN(5)&HEX2DEC("FF")', 'B5': '=YEARFRAC(DATE(2020,1,31),DATE(2021,3,1),1)',
    'B6': '=SUMPRODUCT(C1:C3,D1:D3)', 'B7': '=VLOOKUP(2,C1:D3,2,FALSE)', 'B8': '=SUMIF(C1:C3,">1",D1:D3)',
    'B9': '=IFERROR(1/0,"e")', 'B10': '=LEFT("abc",2)&MID("hello",2,3)', 'B11': '=SLOPE(D1:D3,C1:C3)',
    'B12': '=POWER(2,0.5)', 'B13': '=CONCATENATE(0.00001,"x")', 'B14': '=ROUND(2.675,2)',
    'C1': 1, 'C2': 2, 'C3': 3, 'D1': 2.5, 'D2': 4.5, 'D3': 7.5}]], 'names': {}, 'arrays': [], 'calc': None}


def pristine_reference(ctx, books):
    """the values this long-lived process computes for a workbook against those of a process that never saw
    another workbook: state that outlives a workbook (a cache on a class, a module level dict) shows here"""
    if not books:
        return
    wb.fresh_values(CANARY_SPEC)     # (so that this thread has done all of it before, whatever came earlier)
    mine = [wb.fresh_values(spec) for spec, _ in books]
    theirs = wb.pristine_outcomes([{'spec': spec} for spec, _ in books], ctx.tmpdir)
    for (spec, meta), got, want in zip(books, mine, theirs):
        if want is None:
            raise RuntimeError('pristine child gave no result')
        ctx.count('pristine_process_workbooks')
        for a, o in got.items():
            ctx.count('pristine_process_compares')
            if not wb.same_as_pristine(o, want[a]):
                form = (meta['formulas'].get(a) or {}).get('form', '?')
                ctx.violation(f'value-depends-on-earlier-workbooks-of-the-process/{form}',
                              f'evaluate({a!r}) on a fresh model gives {o!r} in a process that has compiled other '
                              f'workbooks before and {want[a]!r} in a process that has not',
                              {'spec': spec, 'meta': meta, 'kind': 'pristine', 'path': a})
                break


def replay(ctx, case):
    import random
    if case.get('kind') == 'clip':
        clip_edge_cases(ctx)
        return
    if case.get('kind') == 'array-edge':
        array_edge_cases(ctx)
        return
    if case.get('kind') == 'real-book':
        realbooks.c05_case(ctx, case['book'], case['case_seed'])
        return
    if case.get('kind') == 'intersection-first' or (case.get('path') in ('Sheet1!A1:C1', 'Sheet1!B1:B3') and
                                                    'F1' in str(case.get('spec'))):
        intersection_first_access(ctx)
        return
    if case.get('config') == 'xlsx-stale' and case.get('stored') is not None:
        book = Book(ctx, case['spec'], case['meta'],
                    stale_xlsx_factory(ctx, case['spec'], case['meta'], random.Random(0), case['stored']),
                    'xlsx-stale')
    else:
        book = Book(ctx, case['spec'], case['meta'])
    if case.get('kind') == 'order':
        book.check_order(case['order'])
        return
    path = str(case.get('path') or '')
    try:
        sheet, ref = path.rsplit('!', 1) if '!' in path else (case['spec']['sheets'][0][0], path)
        a, b = ref.split(':')
        (c1, r1), (c2, r2) = wb.split_coord(a), wb.split_coord(b)
    except Exception:
        sheet = None
    if sheet is not None:
        # the very path of the witness: after everything was evaluated, or as the first access of a model
        comp = book.factory()
        if not case.get('first'):
            for x in book.addresses:
                wb.outcome(comp.evaluate, x)
        book.compare_range(comp, sheet.strip("'").replace("''", "'"), path, c1, r1, c2, r2, 'rect',
                           first=bool(case.get('first')))
    book.paths(random.Random(0), 30)
