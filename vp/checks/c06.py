"""C06 - iterative calculation: bounded, tolerance-honest, agrees with plain evaluation.

Monitors: hook H3 (iter_begin / iter_pass events of the tracker) gives the number of passes of each
evaluate call; a recording replacement of the _CycleCell.value setter gives, per pass, every
(cell, new value); the COUNTPASS plugin inside a cycle is an independent count of how often a cell
was really evaluated.  Oracles: passes <= requested; early stop => no cell changed by more than
tol*(1+1e-5) between the last two passes (the monitor's own record, not pycel's todo set) and the
result is within q/(1-q)*tol of numpy's fixed point; an acyclic workbook behaves exactly like its
non-iterative twin along a set_value/evaluate history.
"""
import os

from vp import hist, plugins, wb, wbgen

PROP = 'C06'
LEVEL = 'exploration'
RULE = ('(1) circular linear systems x = Ax+b, n=2..5, ||A||inf <= q in {0.2,0.5,0.8}, optionally through '
        'SUM(range), x (iterations, tolerance) from {1,2,5,100}x{1e-1,1e-3,1e-9} and workbook defaults, '
        'requested through {evaluate(...) arguments, workbook calcPr in-memory, .xlsx calcPr, deserialised '
        'model}, every cell (and the list of all cells) as first evaluation target; (2) acyclic workbooks '
        '(vp.wbgen.dag) evaluated in lock step by a plain and an iterative model along set_value/evaluate '
        'histories. A case is one evaluate call on a system or one twin history; distinct by '
        '(system, settings, channel, target) or (shape, ops).')
BUDGET = {'quick': 30, 'thorough': 300}
FLOORS = {
    'quick': {'systems': 40, 'iter_pass_events': 600, 'setter_events': 2000, 'stopped_by_tolerance': 20,
              'stopped_by_cap': 8, 'countpass_checked': 10, 'twin_histories': 20, 'twin_compares': 500,
              'channel:args': 6, 'channel:mem': 6, 'channel:xlsx': 3, 'channel:json': 1,
              'channel:yml': 1, 'channel:pkl': 1, 'via_range': 6, 'twin_writes': 60,
              'second_call_without_arguments': 3, 'twins_with_reference_valued_cells': 6, 'directed:slow_system': 1},
    'thorough': {'systems': 2500, 'stopped_by_tolerance': 1200, 'stopped_by_cap': 500,
                 'twin_histories': 1500, 'twin_compares': 40000},
}
for _tier in FLOORS:
    FLOORS[_tier]['suite:tests'] = 2000          # the repository's own suite ran under the monitors
ASSUMPTIONS = [
    'ExcelCompiler(excel=openpyxl_wb, cycles={...}) replaces the dict by the workbook settings; requests are '
    'made through evaluate(...) arguments, calcPr, or a deserialised model only',
    'true fixed point from numpy.linalg.solve; bound q/(1-q)*tol*(1+1e-5) + 1e-9*max(1,|x*|)',
]

LOG = {'passes': [], 'begin': None, 'sets': [], 'installed': False, 'armed': False}


def _listener(event, info):
    if event == 'iter_begin':
        LOG['begin'] = (info['iterations'], info['tolerance'])
        LOG['passes'] = []
    elif event == 'iter_pass':
        LOG['passes'].append(info['number'])


def install():
    if LOG['installed']:
        return
    from pycel import _verif
    from pycel.excelcompiler import _CycleCell
    if not _verif.ENABLED:
        raise RuntimeError('PYCEL_VERIF hooks are not enabled')
    _verif.listeners.append(_listener)
    prop = _CycleCell.__dict__['value']

    def recording_set(self, a_value):
        # pass 0 = outside of an evaluate call being observed (build / load time evaluation)
        LOG['sets'].append((len(LOG['passes']) if LOG['armed'] else 0, self.address.address, a_value))
        prop.fset(self, a_value)
    _CycleCell.value = property(prop.fget, recording_set)
    LOG['installed'] = True


def is_num(v):
    return isinstance(v, (int, float)) and not isinstance(v, bool) and v == v and abs(v) != float('inf')


# --------------------------------------------------------------------------- circular systems

def build(channel, spec, settings, tmpdir, plugin):
    """returns (compiler, evaluate-kwargs)"""
    from pycel import ExcelCompiler
    its, tol = settings
    plug = 'vp.plugins' if plugin else None
    if channel == 'args':
        s = dict(spec, calc={'iterate': True, 'count': 100, 'delta': 0.001})
        return wb.compile_mem(s, plugins=plug), {'iterations': its, 'tolerance': tol}
    s = dict(spec, calc={'iterate': True, 'count': its, 'delta': tol})
    if channel == 'mem':
        return wb.compile_mem(s, plugins=plug), {}
    if channel == 'xlsx':
        return wb.compile_xlsx(s, os.path.join(tmpdir, 'c06.xlsx'), None, plugins=plug), {}
    # deserialised: the model must contain the cells, which only evaluate can bring in
    comp = wb.compile_mem(s, plugins=plug)
    for a in wb.all_addresses(s):
        wb.outcome(comp.evaluate, a)
    return hist.reload(comp, channel, tmpdir, 'c06', plugins=plug), {}


def as_container(target, container):
    import collections
    if not isinstance(target, list):
        return target
    if container == 'list':
        return list(target)
    if container == 'deque':
        return collections.deque(target)
    if container == 'generator':
        return (a for a in target)
    if container == 'iterator':
        return iter(list(target))
    if container == 'map':
        return map(str, target)
    return tuple(target)


def one_system(ctx, spec, info, channel, settings, target, plugin, container=None):
    install()
    its, tol = settings
    case = {'kind': 'system', 'spec': spec, 'info': info, 'channel': channel, 'settings': list(settings),
            'target': target, 'plugin': plugin, 'container': container}
    if container:
        ctx.count('container:' + container)
    LOG.update(begin=None, passes=[], sets=[], armed=False)
    try:
        comp, kw = build(channel, spec, settings, ctx.tmpdir, plugin)
    except Exception as exc:
        if not wb.raised_outside_harness(exc):
            raise
        ctx.count('systems')
        ctx.violation(f'obtaining-the-model-raises/{channel}',
                      f'building the iterative model through {channel} raised {wb.describe(exc)}', case)
        return
    plugins.reset()
    LOG.update(begin=None, passes=[], armed=True)
    tgt = as_container(target, container)
    out = wb.outcome(comp.evaluate, tgt, **kw)
    LOG['armed'] = False
    passes, sets, begin = list(LOG['passes']), list(LOG['sets']), LOG['begin']
    ctx.count('systems')
    ctx.count('channel:' + channel)
    ctx.count('iter_pass_events', len(passes))
    ctx.count('setter_events', len(sets))
    ctx.count(f'passes:{min(len(passes), 20)}')
    if info['via_range']:
        ctx.count('via_range')
    ctx.case((repr(spec['sheets']), channel, tuple(settings), repr(target), plugin))
    if ctx.counters['systems'] % 40 == 1:
        ctx.sample({'cells': spec['sheets'][0][1], 'q': info['q'], 'fixed': info['fixed'],
                    'channel': channel, 'iterations': its, 'tolerance': tol, 'target': target,
                    'passes': len(passes), 'result': repr(out)})
    if out[0] == 'x':
        ctx.violation('evaluate-raises', f'iterative evaluate({target!r}) raised {out[1]} '
                      f'[channel={channel}, iterations={its}, tolerance={tol}]', case)
        return
    if begin is None or not passes:
        ctx.violation('no-pass-observed', 'evaluate returned without any iteration pass event', case)
        return
    if begin != (its, tol):
        ctx.violation('settings-not-honoured', f'requested iterations={its}, tolerance={tol} through '
                      f'{channel}; the tracker was started with {begin}', case)
        return
    n = len(passes)
    if n > its:
        ctx.violation('more-passes-than-requested', f'{n} passes for iterations={its}', case)
        return
    if plugin:
        ctx.count('countpass_checked')
        c = plugins.count('p')
        if c > its:
            ctx.violation('cell-evaluated-more-often-than-requested',
                          f'a cell inside the cycle was evaluated {c} times for iterations={its} '
                          f'({n} passes counted by the tracker)', case)
            return
        if c != n:
            ctx.count('suspect:countpass_differs_from_tracker')
    result = out[1]
    cells = info['cells']
    fixed = dict(zip(cells, info['fixed']))
    targets = list(target) if isinstance(target, list) else [target]
    results = list(result) if isinstance(target, list) else [result]
    if n < its:
        ctx.count('stopped_by_tolerance')
        # the monitor's own record: last value per cell in each pass
        per_pass = {}
        for p, a, v in sets:
            per_pass.setdefault(a, {})[p] = v
        for a, by_pass in per_pass.items():
            if n in by_pass:
                before = [p for p in by_pass if p < n]
                prev = by_pass[max(before)] if before else None
                new = by_pass[n]
                ctx.count('last_pass_changes_checked')
                if is_num(new) and is_num(prev):
                    ok = abs(new - prev) <= tol * (1 + 1e-5)
                else:
                    ok = wb.same(new, prev)
                if not ok:
                    ctx.violation('stopped-while-a-cell-still-moved',
                                  f'stopped after {n} < {its} passes although {a} went from {prev!r} to '
                                  f'{new!r} in the last pass (tolerance {tol})', case)
                    return
        q = info['q']
        for a, v in zip(targets, results):
            if a not in fixed:
                continue
            x = fixed[a]
            ctx.count('fixed_point_compares')
            bound = q / (1 - q) * tol * (1 + 1e-5) + 1e-9 * max(1.0, abs(x))
            if not is_num(v) or abs(v - x) > bound:
                key = 'first-evaluate-returns-blank' if v is None else 'result-outside-fixed-point-bound'
                ctx.violation(key, f'evaluate({a!r}) = {v!r} after {n} < {its} passes; fixed point {x!r}, '
                              f'bound {bound:.3g} (q={q:.3f}, tolerance={tol}) [channel={channel}]', case)
                return
    else:
        ctx.count('stopped_by_cap')
        for a, v in zip(targets, results):
            if a in fixed and not is_num(v):
                ctx.violation('cap-bound-result-is-not-a-number',
                              f'evaluate({a!r}) = {v!r} after all {its} passes', case)
                return
    if channel == 'args':
        # a later call without arguments must use the workbook's own settings again (100, 0.001)
        LOG.update(begin=None, passes=[], armed=True)
        out2 = wb.outcome(comp.evaluate, as_container(target, container))
        LOG['armed'] = False
        ctx.count('second_call_without_arguments')
        if LOG['begin'] != (100, 0.001):
            ctx.violation('per-call-settings-leak-into-the-model',
                          f'evaluate(..., iterations={its}, tolerance={tol}) followed by evaluate(...) without '
                          f'arguments: the second call ran with {LOG["begin"]}, the workbook says (100, 0.001)', case)
            return
        if out2[0] == 'v' and len(LOG['passes']) < 100:
            vals = list(out2[1]) if isinstance(target, list) else [out2[1]]
            q = info['q']
            for a, v in zip(targets, vals):
                if a in fixed:
                    bound = q / (1 - q) * 0.001 * (1 + 1e-5) + 1e-9 * max(1.0, abs(fixed[a]))
                    if not is_num(v) or abs(v - fixed[a]) > bound:
                        ctx.violation('result-outside-fixed-point-bound/second-call',
                                      f'second evaluate({a!r}) = {v!r}; fixed point {fixed[a]!r}, bound {bound:.3g}',
                                      case)
                        return


def systems(ctx, rng):
    spec, info = wbgen.contraction(rng)
    channel = rng.choice(['args', 'args', 'mem', 'mem', 'xlsx', 'json', 'yml', 'pkl'])
    # (from_file(plugins=...) installs the plugins only after the load has already evaluated the
    #  ranges of the model, so the counting plugin is used with the workbook channels only)
    plugin = rng.random() < 0.5 and channel in ('args', 'mem', 'xlsx')
    if plugin:
        cells = spec['sheets'][0][1]
        # wrap one cell of the loop: same value, every evaluation counted
        k = rng.choice([c for c in cells if c.startswith('A')])
        cells[k] = f'=COUNTPASS("p",{cells[k][1:]})'
    settings = (rng.choice([1, 2, 5, 100, 100]), rng.choice([1e-1, 1e-3, 1e-9]))
    if rng.random() < 0.15:
        settings = (100, 0.001)
    r = rng.random()
    target = list(info['cells']) if r < 0.3 else rng.choice(info['cells'])
    container = rng.choice(['tuple', 'list', 'deque', 'generator', 'iterator', 'map']) if isinstance(target, list) else None
    if rng.random() < 0.2 and channel in ('args', 'mem', 'xlsx'):
        # a cell whose whole formula is a reference into the loop, and a reader of it as the target
        cells = spec['sheets'][0][1]
        first = info['cells'][0].rsplit('!', 1)[1]
        cells['H1'] = rng.choice([f'=OFFSET({first},0,0)', f'=INDIRECT("{first}")'])
        cells['H2'] = '=H1+0'
        target, container = info['cells'][0].rsplit('!', 1)[0] + '!H2', None
        ctx.count('target_reads_a_reference_valued_cell')
    one_system(ctx, spec, info, channel, settings, target, plugin, container)


# --------------------------------------------------------------------------- acyclic twins

def add_reference_cells(rng, spec, meta):
    """cells which show a reference made at run time (=OFFSET(x,0,0)) onto formula cells, and a reader of one of them:
    what they show follows the cell referred to in both modes"""
    first = spec['sheets'][0][0]
    members = wb.array_members(spec)
    fcells = sorted(a for a in meta['formulas'] if a.startswith(first + '!') and a not in members and
                    meta['formulas'][a]['form'] not in ('cse', 'cse-consumer'))
    if not fcells:
        return spec, meta
    spec = dict(spec, sheets=[[s_, dict(c)] for s_, c in spec['sheets']])
    meta = dict(meta, formulas=dict(meta['formulas']), order=list(meta['order']))
    cells = spec['sheets'][0][1]
    for k, target in enumerate(rng.sample(fcells, min(2, len(fcells)))):
        coord_ = target.rsplit('!', 1)[1]
        here = f'{"AB"[k]}8'
        cells[here] = f'=OFFSET({coord_},0,0)'
        meta['formulas'][f'{first}!{here}'] = {'form': 'reference-cell', 'deps': [target]}
        meta['order'].append(f'{first}!{here}')
    cells['C8'] = '=ISNUMBER(A8)&"/"&ISTEXT(A8)'
    meta['formulas'][f'{first}!C8'] = {'form': 'reference-cell-reader', 'deps': [f'{first}!A8']}
    meta['order'].append(f'{first}!C8')
    return spec, meta


def one_twin(ctx, spec, meta, channel, ops=None, rng=None, n_ops=14):
    install()
    iter_spec = dict(spec, calc={'iterate': True, 'count': 100, 'delta': 0.001})
    plain = wb.compile_mem(spec)
    try:
        it = _twin_model(ctx, spec, iter_spec, channel, plain)
    except Exception as exc:
        if not wb.raised_outside_harness(exc):
            raise
        ctx.count('twin_histories')
        form = 'cse' if spec['arrays'] else 'no-array'
        ctx.violation(f'obtaining-the-iterative-model-raises/{channel}/{form}',
                      f'obtaining the iterative twin through {channel} raised {wb.describe(exc)}',
                      {'kind': 'twin', 'spec': spec, 'meta': meta, 'channel': channel, 'ops': []})
        return
    _twin_history(ctx, spec, meta, channel, plain, it, ops, rng, n_ops)


def _twin_model(ctx, spec, iter_spec, channel, plain):
    if channel == 'mem':
        it = wb.compile_mem(iter_spec)
    elif channel == 'xlsx':
        it = wb.compile_xlsx(iter_spec, os.path.join(ctx.tmpdir, 'c06t.xlsx'),
                             {a: o[1] for a, o in wb.fresh_values(spec).items() if o[0] == 'v'})
    else:
        it = wb.compile_mem(iter_spec)
        for a in wb.all_addresses(spec):
            wb.outcome(it.evaluate, a)
        it = hist.reload(it, channel, ctx.tmpdir, 'c06t')
        for a in wb.all_addresses(spec):
            wb.outcome(plain.evaluate, a)
    return it


def _twin_history(ctx, spec, meta, channel, plain, it, ops, rng, n_ops):
    addresses = wb.all_addresses(spec)
    done, found = [], None
    inputs = {}

    def cur(a):
        if a in inputs:
            return inputs[a]
        s, c = a.rsplit('!', 1)
        return dict(spec['sheets'])[s].get(c)

    def compare(target, label):
        t = tuple(target) if isinstance(target, list) else target
        a_, b_ = wb.outcome(plain.evaluate, t), wb.outcome(it.evaluate, t)
        ctx.count('twin_compares')
        if not wb.same_outcome(a_, b_):
            wrote = any(o[0] == 'set' for o in done)
            form = 'list'
            if isinstance(target, str):
                form = (meta['formulas'].get(target) or {}).get('form', 'input-or-range')
            if b_[0] == 'x':
                key = f'iterative-raises/{form}'
            elif not wrote:
                key = f'first-use-differs/{form}'
            else:
                key = f'differs-after-set_value/{form}'
            return key, (f'{label} evaluate({target!r}): plain = {a_!r}, iterative = {b_!r} '
                         f'[iterative model from {channel}]')
        return None

    step = 0
    while found is None:
        if ops is not None:
            if step >= len(ops):
                break
            op = ops[step]
            if op == ['final']:
                step += 1
                continue
        else:
            if step >= n_ops:
                break
            r = rng.random()
            cands = sorted(a for a in plain.cell_map if a in it.cell_map and ':' not in a and
                           a not in meta['formulas'])
            if r < 0.4 and cands:
                a = rng.choice(cands)
                v = hist.propose_write(rng, cur(a))
                if a.startswith(wbgen.SD + '!'):
                    # keep the used area of the sheet under unbounded references as it is (see C01)
                    sd = dict(spec['sheets'])[wbgen.SD]
                    c_, r_ = wb.split_coord(a.rsplit('!', 1)[1])
                    if v is None or c_ > max(wb.split_coord(c)[0] for c in sd) or \
                            r_ > max(wb.split_coord(c)[1] for c in sd):
                        v = 7
                op = ['set', a, v]
            elif r < 0.5:
                op = ['eval', [rng.choice(addresses) for _ in range(2)]]
            elif r < 0.6:
                # a range address: a CSE target, or a rectangle of the first sheet
                if spec['arrays'] and rng.random() < 0.5:
                    sh, ref, _ = spec['arrays'][0]
                    op = ['eval', f'{sh}!{ref}'] if ':' in ref else ['eval', rng.choice(addresses)]
                else:
                    c1, r1 = rng.randint(1, 4), rng.randint(1, 5)
                    op = ['eval', f'{spec["sheets"][0][0]}!{wb.coord(c1, r1)}:{wb.coord(c1 + rng.randint(0, 1), r1 + 1)}']
            else:
                op = ['eval', rng.choice(addresses)]
        step += 1
        done.append(op)
        if op[0] == 'set':
            if op[1] in plain.cell_map and op[1] in it.cell_map:
                plain.set_value(op[1], op[2])
                o = wb.outcome(it.set_value, op[1], op[2])
                inputs[op[1]] = op[2]
                ctx.count('twin_writes')
                if o[0] == 'x':
                    found = ('iterative-set_value-raises', f'set_value({op[1]!r}, {op[2]!r}) raised {o[1]}')
        else:
            found = compare(op[1], 'first' if not any(o[0] == 'set' for o in done) else 'after writes')
            if found is None and rng is not None and rng.random() < 0.3:
                found = compare(op[1], 'repeated')
    if found is None and (ops is None or ['final'] in ops):
        if ops is None:
            done.append(['final'])
        for a in addresses:
            found = found or compare(a, 'final')
    ctx.count('twin_histories')
    ctx.count('twin_channel:' + channel)
    ctx.case((wbgen.shape_signature(spec, meta), channel, repr(done)))
    if found:
        ctx.violation(found[0], found[1], {'kind': 'twin', 'spec': spec, 'meta': meta, 'channel': channel,
                                           'ops': done})


def slow_system(ctx):
    """directed: a loop that contracts so slowly that the tolerance is only met after more than 32 767 passes (the
    largest iteration count Excel's own dialog takes), asked for 40 000: A1 = A1*0.9998+1, tolerance 0.001"""
    spec = {'sheets': [['Sheet1', {'A1': '=A1*0.9998+1'}]], 'names': {}, 'arrays': [], 'calc': None}
    info = {'A': [[0.9998]], 'b': [1.0], 'q': 0.9998, 'fixed': [5000.0], 'cells': ['Sheet1!A1'], 'via_range': False, 'n': 1}
    ctx.count('directed:slow_system')
    one_system(ctx, spec, info, 'args', (40000, 0.001), 'Sheet1!A1', False)


def run(ctx):
    if ctx.shard == 2 % ctx.nshards:
        slow_system(ctx)
    if ctx.shard == ctx.nshards - 1:
        # the repository's own test-suite as one more workload under the monitors (vp.suitemon)
        from vp import suiteload
        suiteload.run_suite(ctx)
    rng = ctx.rng
    i = 0
    while not ctx.out_of_time():
        i += 1
        if i % 3:
            systems(ctx, rng)
        else:
            spec, meta = wbgen.dag(rng)
            if any(o[0] == 'x' for o in wb.fresh_values(spec).values()):
                ctx.count('skipped_workbooks_with_failing_cells')
                continue
            if i % 2 == 0:
                spec, meta = add_reference_cells(rng, spec, meta)
                ctx.count('twins_with_reference_valued_cells')
            one_twin(ctx, spec, meta, rng.choice(['mem', 'mem', 'xlsx', 'json', 'pkl']), rng=rng,
                     n_ops=rng.randint(8, 16))


def replay(ctx, case):
    if case.get('kind') == 'suite':
        from vp import suiteload
        suiteload.run_suite(ctx)
        return
    if case['kind'] == 'system':
        one_system(ctx, case['spec'], case['info'], case['channel'], tuple(case['settings']),
                   case['target'], case['plugin'], case.get('container'))
    else:
        one_twin(ctx, case['spec'], case['meta'], case['channel'], ops=case['ops'])
