"""C07 - evaluations on different threads are isolated from each other.

(1) controlled scheduling: two real OS threads (the mechanism under test is threading.local) are
    driven through preemption points at cell-evaluation granularity - the listeners of hook H2
    (eval_enter / eval_inside / eval_exit) and H3 (iter_pass) hand a baton according to a plan
    [(A, j), (B, k), (A, m), (B, rest), (A, rest)]: A parks mid-evaluation after j points, B after k of
    its own, A runs m more, then both finish.  k = "rest" is "B runs to completion inside A's j-th
    evaluation".  Oracle: each thread's results and pass counts equal those of its solo run.
(2) stress: 4-8 threads on distinct compilers, switch interval 1e-6 and sys.monitoring LINE
    callbacks yielding with a seeded probability.
(3) fresh thread: load / evaluate / set_value / trim_graph / validate_calcs as the first pycel call of
    a brand-new thread, plain and iterative.
"""
import os
import sys
import threading
import time

from vp import realbooks, hist, wb, wbgen
from vp.core import h64

PROP = 'C07'
LEVEL = 'exploration'
RULE = ('pairs of workloads from {iterative cap-bound, iterative tolerance-bound, CSE array 1-column target, '
        'CSE array 3-column target fed by formulas, plain DAG} on two OS threads under baton plans '
        '(A j)(B k)(A m)(B rest)(A rest) over the H2/H3 preemption points (systematic points: eval_inside, '
        'iter_pass; all j, k=rest always; (j,k,m) sampled in quick, enumerated in thorough); plus stress rounds '
        'and fresh-thread first calls. A case is one schedule; distinct = distinct recorded interleaving '
        '(sequence of (thread, event, cell)); non-trivial = both threads were preempted mid-evaluation or one '
        'ran completely inside the other.')
BUDGET = {'quick': 25, 'thorough': 300}
FLOORS = {
    # (the machine the checks are run on for acceptance was seen to be 4 to 18 times slower than an idle 16 core box:
    #  1026 evaluations against 3939; the floors of the time-budgeted parts sit below that)
    'quick': {'schedules': 100, 'distinct_interleavings': 40, 'both_parked_mid_evaluation': 40,
              'points': 1000, 'fresh_thread_ops': 24, 'stress_rounds': 3, 'pair:iter+iter': 5,
              'pair:iter+cse': 5, 'pair:cse+iter': 5, 'pair:cse+cse': 5, 'pair:plain+iter': 2,
              'pair:cse+plain': 2, 'pair:offset+offset': 2, 'pair:iter+offset': 2},
    'thorough': {'schedules': 8000, 'distinct_interleavings': 3000, 'fresh_thread_ops': 22,
                 'stress_rounds': 60, 'pair:cse+cse': 50, 'pair:plain+iter': 50, 'pair:iter+iter': 50,
                 'pair:cse+iter': 50, 'pair:iter+cse': 50},
}
ASSUMPTIONS = ['preemption is enumerated at cell-evaluation granularity; below it only the randomised stress '
               'tier (GIL switch interval + line-level yield injection) reaches',
               'each thread works on its own compiled workbook (the statement is about different workbooks)']

SYSTEMATIC = ('eval_inside', 'iter_pass')
ALL_POINTS = ('eval_enter', 'eval_inside', 'eval_exit', 'iter_pass')


# --------------------------------------------------------------------------- workloads

def _contraction(seed, n=2):
    import random
    return wbgen.contraction(random.Random(seed), n=n, q=0.5, via_range=False)


def wl_iter(seed, iterations, tolerance, n=2):
    spec, info = _contraction(seed, n)
    spec = dict(spec, calc={'iterate': True, 'count': 100, 'delta': 0.001})
    target = info['cells'][0]
    return {'name': f'iter({iterations},{tolerance:g})', 'spec': spec,
            'calls': [('evaluate', target, {'iterations': iterations, 'tolerance': tolerance})]}


def wl_cse(width):
    if width == 1:
        spec = {'sheets': [['Sheet1', {'A1': 1, 'A2': 2, 'A3': 3, 'E1': '=C1+C3'}]], 'names': {},
                'arrays': [['Sheet1', 'C1:C3', '=A1:A3*2']], 'calc': None}
        targets = ['Sheet1!C1', 'Sheet1!C3', 'Sheet1!E1']
    else:
        spec = {'sheets': [['Sheet1', {'A1': '=H1+1', 'A2': '=H2*3', 'H1': 4, 'H2': 5,
                                       'G5': '=SUM(C1:E2)'}]], 'names': {},
                'arrays': [['Sheet1', 'C1:E2', '=A1:A2*10']], 'calc': None}
        targets = ['Sheet1!D2', 'Sheet1!E1', 'Sheet1!G5']
    return {'name': f'cse({width}col)', 'spec': spec, 'calls': [('evaluate', t, {}) for t in targets]}


def wl_plain(seed):
    import random
    for k in range(50):
        spec, meta = wbgen.dag(random.Random(seed * 1000 + k), n_cells=5, arrays=False, data_sheet=False,
                               two_sheets=False, forms=['arith', 'agg', 'if', 'cmp'])
        if len(meta['formulas']) >= 3:
            break
    return {'name': 'plain', 'spec': spec, 'calls': [('evaluate', a, {}) for a in list(meta['formulas'])[:3]]}


def wl_offset(seed):
    """computed references: library functions given an address resolve it through their workbook's evaluator.
    Both workbooks of a pair use the same sheet name and addresses, with different values."""
    k = 1 + seed % 7
    cells = {'A1': 1 * k, 'A2': 2 * k, 'A3': 3 * k, 'A4': 4 * k, 'B1': 1,
             'C1': '=INDEX(OFFSET(A1,B1,0,3,1),2)', 'D1': '=ABS(OFFSET(A1,B1,0))+C1',
             'E1': '=ROUND(ABS(OFFSET(A1,B1,0))/4,0)+D1'}
    spec = {'sheets': [['Data Sheet', cells]], 'names': {}, 'arrays': [], 'calc': None}
    return {'name': 'offset', 'spec': spec,
            'calls': [('evaluate', 'Data Sheet!E1', {}), ('set_value', 'Data Sheet!B1', {'value': 0}),
                      ('evaluate', 'Data Sheet!E1', {}), ('evaluate', 'Data Sheet!C1', {})]}


def wl_lookup(seed):
    """linear scans (exact and descending MATCH, VLOOKUP with FALSE) for keys that are there and keys that are not:
    what a scan has found so far belongs to that call alone"""
    k = seed % 5
    cells = {}
    for i in range(1, 13):
        cells[f'A{i}'] = f'k{(i * 7 + k) % 12:02d}'
        cells[f'B{i}'] = i * 10 + k
        cells[f'C{i}'] = 130 - i * 10
    cells.update({'E1': '=MATCH("zzz",A1:A12,0)', 'E2': f'=MATCH("k{(3 + k) % 12:02d}",A1:A12,0)',
                  'E3': '=VLOOKUP("nope",A1:B12,2,FALSE)', 'E4': f'=VLOOKUP("k{(8 + k) % 12:02d}",A1:B12,2,FALSE)',
                  'E5': '=MATCH(35,C1:C12,-1)', 'E6': '=MATCH(1000,C1:C12,-1)',
                  'E7': '=IFERROR(E1,0)+E2+IFERROR(E3,0)+E4+E5+IFERROR(E6,0)'})
    spec = {'sheets': [['Sheet1', cells]], 'names': {}, 'arrays': [], 'calc': None}
    return {'name': 'lookup', 'spec': spec,
            'calls': [('evaluate', f'Sheet1!E{i}', {}) for i in (1, 2, 3, 4, 5, 6, 7)]}


def wl_cellref(seed):
    """functions that are handed a reference and look the cell up themselves (CELL, INDEX over a reference): they
    have to look it up in the workbook of the formula that called them.  Every workbook of this kind has the same
    sheet name and addresses, and values of its own."""
    k = 1 + seed % 9
    # (B3: OFFSET with an array argument hands INDEX an array of references, and the argument cell D1 is evaluated
    # between the moment the formula is loaded and the moment INDEX looks the cell up)
    cells = {'A1': 11 * k, 'A2': 7 * k, 'B1': '=CELL("contents",OFFSET(A1,0,0))', 'B2': '=INDEX(OFFSET(A1,0,0,2,1),2,1)',
             'D1': '=A2*0', 'B3': '=INDEX(OFFSET(A1,{0,0;0,0},D1),2,1)', 'C1': '=B1+B2+B3'}
    spec = {'sheets': [['Data Sheet', cells]], 'names': {}, 'arrays': [], 'calc': None}
    return {'name': 'cellref', 'spec': spec,
            'calls': [('evaluate', 'Data Sheet!C1', {}), ('set_value', 'Data Sheet!A1', {'value': 5 * k}),
                      ('evaluate', 'Data Sheet!B1', {}), ('evaluate', 'Data Sheet!C1', {})]}


def wl_book(book, calls):
    """a workbook shipped with the repository (formulas only: everything is computed)"""
    return {'name': f'book({book})', 'book': book, 'calls': calls}


def workloads(seed):
    k = 50 + seed % 5 * 25
    return [wl_iter(seed, 3, 1e-9), wl_iter(seed + 1, 200, 1e-6), wl_cse(1), wl_cse(3), wl_plain(seed),
            # array formulas of tests/fixtures/excelcompiler.xlsx; the circular workbook of the test-suite
            wl_book('excelcompiler', [('evaluate', 'ArrayForm!E7', {}), ('evaluate', 'ArrayForm!H17', {}),
                                      ('evaluate', 'ArrayForm!H30', {})]),
            wl_book('circular', [('evaluate', 'Sheet1!B3', {}), ('set_value', 'Sheet1!B3', {'value': k}),
                                 ('evaluate', 'Sheet1!B1', {}), ('evaluate', 'Sheet1!B8', {})]),
            wl_lookup(seed), wl_cellref(seed),
            wl_offset(seed)]


def compile_workload(wl):
    if 'book' in wl:
        return realbooks._compile_book(realbooks._load_formulas(wl['book']))
    return wb.compile_mem(wl['spec'])


def run_workload(wl, comp=None):
    comp = comp or compile_workload(wl)
    out = []
    for op, target, kw in wl['calls']:
        if op == 'set_value':
            out.append(wb.outcome(comp.set_value, target, kw['value']))
        else:
            out.append(wb.outcome(getattr(comp, op), target, **kw))
    return out


# --------------------------------------------------------------------------- scheduler

def interpreter_settings():
    """settings of the whole interpreter that an evaluation on another thread lives with"""
    return {'recursion limit': sys.getrecursionlimit(), 'switch interval': sys.getswitchinterval(),
            'working directory': os.getcwd()}


class Sched:
    def __init__(self, plan, points):
        self.cv = threading.Condition()
        self.plan = [list(p) for p in plan]
        self.idx = 0
        self.alive = {'A', 'B'}
        self.current = self.plan[0][0]
        self.points = points
        self.trace = []
        self.counts = {'A': {}, 'B': {}}
        self.depth = {'A': 0, 'B': 0}
        self.parked_mid = set()
        self.error = None
        self.armed = set()
        self.baseline = interpreter_settings()
        self.changed = None
        self.record = None

    def _advance(self):
        self.idx += 1
        while self.idx < len(self.plan) and self.plan[self.idx][0] not in self.alive:
            self.idx += 1
        if self.idx < len(self.plan):
            self.current = self.plan[self.idx][0]
        else:
            self.current = min(self.alive) if self.alive else None
        self.cv.notify_all()

    def _wait(self, me):
        t0 = time.monotonic()
        while self.current != me:
            self.cv.wait(1.0)
            if time.monotonic() - t0 > 60:
                self.error = f'scheduler stuck waiting for {me}'
                self.current = me
                raise RuntimeError(self.error)

    def start(self, me):
        with self.cv:
            self._wait(me)
            self.armed.add(me)

    def finish(self, me):
        with self.cv:
            self.armed.discard(me)
            self.alive.discard(me)
            if self.current == me:
                self._advance()

    def event(self, me, event, info):
        if event == 'line':
            # a statement of the library starts on this thread (sys.monitoring): a preemption point below the
            # granularity of the hooks; nothing is recorded but the place where the baton changes hands
            if 'line' not in self.points:
                return
            with self.cv:
                c = self.counts[me]
                c['line'] = c.get('line', 0) + 1
                if self.record is not None:
                    self.record.append(info.get('where', ''))
                if self.current != me:
                    self.error = f'{me} ran without the baton'
                    return
                if self.idx < len(self.plan) and self.plan[self.idx][1] is not None:
                    self.plan[self.idx][1] -= 1
                    if self.plan[self.idx][1] <= 0:
                        self.trace.append((me, 'line', info.get('where', '')))
                        if self.depth[me] > 0:
                            self.parked_mid.add(me)
                        self._advance()
                self._wait(me)
            return
        cell = ''
        f = info.get('formula')
        if f is not None and getattr(f, 'cell', None) is not None:
            cell = f.cell.address.address
        c = self.counts[me]
        c[event] = c.get(event, 0) + 1
        if event == 'eval_enter':
            self.depth[me] += 1
        elif event == 'eval_exit':
            self.depth[me] -= 1
        with self.cv:
            self.trace.append((me, event, cell))
            if self.changed is None:
                now = interpreter_settings()
                if now != self.baseline:
                    # seen from inside an evaluation: some evaluation (this one or the parked one) has changed
                    # what every thread of the process works with
                    self.changed = (me, event, cell, {k: (self.baseline[k], v) for k, v in now.items()
                                                      if v != self.baseline[k]})
            if event not in self.points:
                return
            if self.current != me:       # cannot happen under the baton; do not deadlock if it does
                self.error = f'{me} ran without the baton'
                return
            if self.idx < len(self.plan) and self.plan[self.idx][1] is not None:
                self.plan[self.idx][1] -= 1
                if self.plan[self.idx][1] <= 0:
                    if self.depth[me] > 0 or event == 'iter_pass':
                        self.parked_mid.add(me)
                    self._advance()
            self._wait(me)


ACTIVE = {'sched': None, 'installed': False, 'passes': {}}


def _listener(event, info):
    name = threading.current_thread().name
    if event == 'iter_pass':
        ACTIVE['passes'][name] = ACTIVE['passes'].get(name, 0) + 1
    sched = ACTIVE['sched']
    if sched is not None and name in sched.armed:
        sched.event(name, event, info)


def install():
    if not ACTIVE['installed']:
        from pycel import _verif
        if not _verif.ENABLED:
            raise RuntimeError('PYCEL_VERIF hooks are not enabled')
        _verif.listeners.append(_listener)
        ACTIVE['installed'] = True


def in_thread(name, fn):
    """run fn() in a brand-new thread with the given name; returns ('v', result) | ('x', description)"""
    box = {}

    def target():
        try:
            box['r'] = ('v', fn())
        except Exception as exc:  # noqa
            box['r'] = ('x', wb.describe(exc) if wb.raised_outside_harness(exc) else None)
            if box['r'][1] is None:
                box['harness'] = exc
    t = threading.Thread(target=target, name=name)
    t.start()
    t.join(120)
    if t.is_alive():
        raise RuntimeError(f'thread {name} did not finish')
    if 'harness' in box:
        raise box['harness']
    return box['r']


def solo(wl, warm):
    """reference: the workload alone on a fresh thread; returns (outcomes, passes, points per kind)"""
    install()
    ACTIVE['passes'] = {}
    sched = Sched([['A', None]], ALL_POINTS)
    sched.alive = {'A'}
    ACTIVE['sched'] = sched
    comp = compile_workload(wl)

    def body():
        if warm:
            run_workload(wl_iter(99, 2, 0.5))
        sched.start('A')
        try:
            return run_workload(wl, comp)
        finally:
            sched.finish('A')
    try:
        r = in_thread('A', body)
    finally:
        ACTIVE['sched'] = None
    return r, ACTIVE['passes'].get('A', 0), dict(sched.counts['A'])


def scheduled(wa, wb_, plan, points, warm):
    install()
    ACTIVE['passes'] = {}
    sched = Sched(plan, points)
    comps = {'A': compile_workload(wa), 'B': compile_workload(wb_)}
    box = {}

    def make(name, wl):
        def body():
            try:
                if warm.get(name):
                    run_workload(wl_iter(99, 2, 0.5))
                sched.start(name)
                box[name] = ('v', run_workload(wl, comps[name]))
            except Exception as exc:  # noqa
                if wb.raised_outside_harness(exc):
                    box[name] = ('x', wb.describe(exc))
                else:
                    box[name] = ('harness', repr(exc))
            finally:
                sched.finish(name)
        return body
    ta = threading.Thread(target=make('A', wa), name='A')
    tb = threading.Thread(target=make('B', wb_), name='B')
    ACTIVE['sched'] = sched      # only threads past sched.start() are routed to it
    ta.start()
    tb.start()
    ta.join(120)
    tb.join(120)
    ACTIVE['sched'] = None
    if ta.is_alive() or tb.is_alive() or sched.error:
        raise RuntimeError(f'schedule did not complete: {sched.error}')
    for n in 'AB':
        if box[n][0] == 'harness':
            raise RuntimeError(box[n][1])
    return box, dict(ACTIVE['passes']), sched


def same_results(a, b):
    if a[0] != b[0]:
        return False
    if a[0] == 'x':
        return True
    return len(a[1]) == len(b[1]) and all(wb.same_outcome(x, y) for x, y in zip(a[1], b[1]))


def one_schedule(ctx, ia, ib, seed, plan, points, warm, refs):
    ws = workloads(seed)
    # thread B works on a workbook of the same kind with other values (what leaks between the two is then seen)
    wa, wb_ = ws[ia], workloads(seed + 3)[ib] if ws[ib]['name'] in OTHER_VALUES_FOR_B else ws[ib]
    case = {'kind': 'schedule', 'a': ia, 'b': ib, 'seed': seed, 'plan': [list(p) for p in plan],
            'points': list(points), 'warm': warm}
    box, passes, sched = scheduled(wa, wb_, plan, points, warm)
    ctx.count('schedules')
    ctx.count('points', sum(1 for t in sched.trace if t[1] in points))
    ctx.count('events', len(sched.trace))
    if len(sched.parked_mid) == 2:
        ctx.count('both_parked_mid_evaluation')
    if plan[1][1] is None:
        ctx.count('b_ran_to_completion_inside_a')
    sig = h64(repr(sched.trace))
    ctx.case(('sched', ia, ib, sig), nontrivial=bool(sched.parked_mid))
    ctx.count('interpreter_settings_samples', len(sched.trace))
    if sched.changed:
        me, event, cell, diff = sched.changed
        ctx.violation('interpreter-wide-setting-changed-inside-an-evaluation/' + '+'.join(sorted(diff)),
                      f'at {event} of {cell} on thread {me} the {", ".join(f"{k} is {v[1]!r} (was {v[0]!r})" for k, v in diff.items())}'
                      f': an evaluation changes a setting that every other thread of the process runs under '
                      f'(plan {plan})', case)
        return sig
    ctx.count(f'pair:{wa["name"].split("(")[0]}+{wb_["name"].split("(")[0]}')
    for name, idx in (('A', ia), ('B', ib)):
        rkey = ('B', idx) if (name == 'B' and ws[idx]['name'] in OTHER_VALUES_FOR_B) else idx
        ref_out, ref_passes, _ = refs[(rkey, bool(warm.get(name)))]
        got = box[name]
        if got[0] == 'x' and ref_out[0] == 'v':
            ctx.violation(f'raises-under-interleaving/{ws[idx]["name"].split("(")[0]}',
                          f'thread {name} ({ws[idx]["name"]}) raised {got[1]} under plan {plan} against '
                          f'{ws[ib if name == "A" else ia]["name"]}; alone it returns {ref_out[1]!r}', case)
            return sig
        if not same_results(got, ref_out):
            ctx.violation(f'result-differs-under-interleaving/{ws[idx]["name"].split("(")[0]}',
                          f'thread {name} ({ws[idx]["name"]}) returned {got[1]!r} under plan {plan} against '
                          f'{ws[ib if name == "A" else ia]["name"]}; alone it returns {ref_out[1]!r}', case)
            return sig
        if passes.get(name, 0) != ref_passes:
            ctx.violation(f'pass-count-differs-under-interleaving/{ws[idx]["name"].split("(")[0]}',
                          f'thread {name} ({ws[idx]["name"]}) made {passes.get(name, 0)} passes under plan '
                          f'{plan}; alone it makes {ref_passes}', case)
            return sig
    if ctx.counters['schedules'] % 150 == 1:
        ctx.sample({'a': wa['name'], 'b': wb_['name'], 'plan': [list(p) for p in plan], 'warm': warm,
                    'trace_head': [list(t) for t in sched.trace[:14]], 'trace_len': len(sched.trace)})
    return sig


_REFS = {}


def references(seed):
    if seed not in _REFS:
        _REFS[seed] = _references(seed)
    return _REFS[seed]


def _references(seed):
    refs = {}
    ws = workloads(seed)
    for i, wl in enumerate(ws):
        for warm in (False, True):
            refs[(i, warm)] = solo(wl, warm)
    # thread B runs these workloads on a workbook with other values
    other = workloads(seed + 3)
    for i, wl in enumerate(ws):
        if wl['name'] in OTHER_VALUES_FOR_B:
            for warm in (False, True):
                refs[(('B', i), warm)] = solo(other[i], warm)
    return refs


OTHER_VALUES_FOR_B = ('offset', 'cellref', 'lookup')


def schedules(ctx):
    rng = ctx.rng
    seed = 1000 + ctx.seed
    refs = references(seed)
    for (i, warm), (out, passes, counts) in refs.items():
        if out[0] != 'v' or any(o[0] == 'x' for o in out[1]):
            wl = workloads(seed)[i if isinstance(i, int) else i[1]]
            ctx.violation(f'solo-run-on-a-fresh-thread-raises/{wl["name"].split("(")[0]}',
                          f'{wl["name"]} alone on a {"warmed-up" if warm else "fresh"} thread: {out!r}',
                          {'kind': 'solo', 'i': i, 'seed': seed, 'warm': warm})
            return
    nw = len(workloads(seed))
    pairs = [(a, b) for a in range(nw) for b in range(nw)]
    seen = set()
    n = 0
    full = not ctx.quick
    work = []
    for (ia, ib) in pairs:
        na = sum(refs[(ia, False)][2].get(p, 0) for p in SYSTEMATIC)
        nb = sum(refs[(ib, False)][2].get(p, 0) for p in SYSTEMATIC)
        for j in range(1, na + 1):
            work.append((ia, ib, j, None, None))           # B to completion inside A's j-th point
            for k in range(1, nb + 1):
                for m in (range(1, na - j + 1) if full else [rng.randint(1, max(1, na - j))]):
                    work.append((ia, ib, j, k, m))
    # round robin over the 25 workload pairs, so that a budget-limited run covers them evenly
    by_pair = {}
    rng.shuffle(work)
    for item in work:
        by_pair.setdefault(item[:2], []).append(item)
    work = []
    queues = [by_pair[k] for k in sorted(by_pair)]
    while any(queues):
        for q in queues:
            if q:
                work.append(q.pop())
    done_here = 0
    for item in work:
        n += 1
        if not ctx.mine(n):
            continue
        # (a minimum that does not depend on the clock: on a slow machine the parts before this one use up the budget)
        if ctx.out_of_time() and done_here >= (60 if ctx.quick else 200):
            ctx.count('schedule_plan_items_not_run')
            continue
        done_here += 1
        ia, ib, j, k, m = item
        if k is None:
            plan = [['A', j], ['B', None], ['A', None]]
        else:
            plan = [['A', j], ['B', k], ['A', m], ['B', None], ['A', None]]
        points = SYSTEMATIC if rng.random() < 0.7 else ALL_POINTS
        warm = {'A': rng.random() < 0.25, 'B': rng.random() < 0.25}
        sig = one_schedule(ctx, ia, ib, seed, plan, points, warm, refs)
        if sig not in seen:
            seen.add(sig)
            ctx.count('distinct_interleavings')
        ctx.count(f'pairkind:{ia}{ib}')


# --------------------------------------------------------------------------- statement level preemption

class LineHook:
    """sys.monitoring LINE events of the library's own files, routed to the active scheduler as 'line' points"""

    def __init__(self):
        import pycel
        self.mon = getattr(sys, 'monitoring', None)
        self.root = os.path.dirname(os.path.abspath(pycel.__file__)) + os.sep
        self.tool = None

    def __enter__(self):
        mon = self.mon
        if mon is None:
            return self
        try:
            mon.use_tool_id(mon.COVERAGE_ID, 'vp-c07-lines')
        except ValueError:
            return self
        self.tool = mon.COVERAGE_ID
        root = self.root

        def on_line(code, line):
            if not code.co_filename.startswith(root) or code.co_filename.endswith('_verif.py'):
                return mon.DISABLE
            sched = ACTIVE['sched']
            if sched is not None:
                name = threading.current_thread().name
                if name in sched.armed:
                    sched.event(name, 'line', {'where': f'{code.co_filename[len(root):]}:{line}'})
        mon.register_callback(self.tool, mon.events.LINE, on_line)
        mon.set_events(self.tool, mon.events.LINE)
        return self

    def __exit__(self, *exc):
        if self.tool is not None:
            self.mon.set_events(self.tool, 0)
            self.mon.register_callback(self.tool, self.mon.events.LINE, None)
            self.mon.free_tool_id(self.tool)
            self.tool = None
        return False


def line_trace(wl):
    """the places (file:line) of the statement starts of the library, in order, while the workload runs alone
    (compiled before, like under a plan)"""
    sched = Sched([['A', None]], ('line',))
    sched.alive = {'A'}
    sched.record = []
    ACTIVE['sched'] = sched
    comp = compile_workload(wl)

    def body():
        sched.start('A')
        try:
            return run_workload(wl, comp)
        finally:
            sched.finish('A')
    try:
        in_thread('A', body)
    finally:
        ACTIVE['sched'] = None
    return sched.record


def line_schedules(ctx, budget_fraction=0.3):
    """thread A is stopped at a statement inside the library (any statement, not only the hooks), thread B runs
    completely - or to one of its own statements, after which A finishes first - and both must return what they
    return alone.  The stops are chosen by place: every distinct statement (file:line) that a workload executes is a
    stop at one of its occurrences (first, last or any), so that a window between two hooks is entered wherever in
    the code it lies; the (workload, place) pairs are dealt out over the shards and taken until the budget is used."""
    import random
    seed = 1000 + ctx.seed
    ws = workloads(seed)
    refs = references(seed)
    hook = LineHook()
    with hook:
        if hook.tool is None:
            ctx.count('line_level:no_monitoring_available')
            return
        places, traces = [], {}
        light = [i for i in range(len(ws)) if 'book' not in ws[i]]       # (a shipped workbook takes 0.3 s to load)
        for i in light:
            tr = line_trace(ws[i])
            traces[i] = tr
            traces[('B', i)] = line_trace(workloads(seed + 3)[i]) if ws[i]['name'] in OTHER_VALUES_FOR_B else tr
            where = {}
            for pos, w in enumerate(tr, 1):
                where.setdefault(w, []).append(pos)
            places += [(i, w, occ) for w, occ in sorted(where.items())]
            if ctx.shard == 0:
                ctx.count('line_level:statements_in_the_workloads', len(tr))
                ctx.count('line_level:distinct_places_in_the_workloads', len(where))
        # the same deal for every shard, each takes its share
        random.Random(h64(('c07-places', ctx.seed))).shuffle(places)
        rng = ctx.rng
        deadline = time.monotonic() + ctx.budget * budget_fraction
        seen = set()
        for n, (ia, w, occ) in enumerate(places):
            if not ctx.mine(n):
                continue
            if time.monotonic() >= deadline or ctx.out_of_time():
                ctx.count('line_level:places_not_reached_in_the_budget')
                continue
            ib = ia if rng.random() < 0.4 else rng.choice(light)
            nb = len(traces[('B', ib)])
            if nb < 2:
                continue
            j = rng.choice((occ[0], occ[-1], rng.choice(occ)))
            if rng.random() < 0.65:
                plan = [['A', j], ['B', None], ['A', None]]
            else:
                plan = [['A', j], ['B', rng.randint(1, nb)], ['A', None], ['B', None]]
            sig = one_schedule(ctx, ia, ib, seed, plan, ('line',), {'A': False, 'B': False}, refs)
            ctx.count('line_level:schedules')
            if w not in seen:
                seen.add(w)
                ctx.count('line_level:distinct_places_stopped_at')


# --------------------------------------------------------------------------- fresh thread first calls

def fresh_ops(ctx):
    from pycel import ExcelCompiler
    rng = ctx.rng
    tmp = ctx.tmpdir
    cases = []
    for iterative in (False, True):
        if iterative:
            spec, info = _contraction(7 + ctx.seed)
            spec = dict(spec, calc={'iterate': True, 'count': 50, 'delta': 1e-6})
            target, inp = info['cells'][0], None
        else:
            # (ROUND/TEXT/CEILING on exact ties: their decimal arithmetic must not depend on the thread)
            spec = {'sheets': [['Sheet1', {'A1': 2, 'A2': 3, 'B1': '=A1+A2',
                                           'B2': '=SUM(A1:A2)*B1+ROUND(A1+0.5,0)+ROUND(A2/24,2)+CEILING(0.3,0.1)'
                                                 '+LEN(TEXT(A1+0.5,"0"))+ROUND(25,-1)'}]],
                    'names': {}, 'arrays': [], 'calc': None}
            target, inp = 'Sheet1!B2', 'Sheet1!A1'
        ref = wb.outcome(wb.compile_mem(spec).evaluate, target)
        for op in ('evaluate', 'evaluate-xlsx', 'set_value', 'trim_graph', 'validate_calcs',
                   'load-yml', 'load-json', 'load-pkl', 'to_file', 'evaluate-built-elsewhere',
                   'set_value-then-evaluate-built-elsewhere'):
            cases.append((iterative, op, spec, target, inp, ref))
    # an array formula whose result has not the shape of its target (a scalar repeated, a column cut): the array
    # context of the thread is what fits it, and the very first thing the new thread does is evaluating it
    arr = {'sheets': [['Sheet1', {'B1': 1, 'B2': 2, 'B3': 3}]], 'names': {}, 'calc': None,
           'arrays': [['Sheet1', 'A1:A3', '=SUM(B1:B3)'], ['Sheet1', 'D1:E2', '=B1:B3*2']]}
    for target in ('Sheet1!A1:A3', 'Sheet1!D1:E2', 'Sheet1!A2'):
        ref = wb.outcome(wb.compile_mem(arr).evaluate, target)
        for op in ('evaluate', 'evaluate-xlsx', 'load-yml', 'load-pkl', 'evaluate-built-elsewhere',
                   'set_value-then-evaluate-built-elsewhere'):
            cases.append((False, op, arr, target, 'Sheet1!B1', ref))
    # a workbook whose functions look references up themselves (CELL, INDEX over OFFSET): built and evaluated on the
    # main thread, then a workbook of the same kind with other values is evaluated there (it loads the functions
    # last), then the first one is used on a new thread
    cr = wl_cellref(ctx.seed)['spec']
    cr = dict(cr, decoy=wl_cellref(ctx.seed + 3)['spec'])
    for op in ('evaluate-built-elsewhere', 'set_value-then-evaluate-built-elsewhere'):
        clean = {k: v for k, v in cr.items() if k != 'decoy'}
        cases.append((False, op, cr, 'Data Sheet!C1', 'Data Sheet!A1',
                      wb.outcome(wb.compile_mem(clean).evaluate, 'Data Sheet!C1')))
    for n, (iterative, op, spec, target, inp, ref) in enumerate(cases):
        if not ctx.mine(n):
            continue
        tag = f'{"iterative" if iterative else "cellref" if spec.get("decoy") else "array" if spec["arrays"] else "plain"}'
        decoy = spec.get('decoy')
        spec = {k: v for k, v in spec.items() if k != 'decoy'}
        path = os.path.join(tmp, f'f{n}')
        stored = {a: o[1] for a, o in wb.fresh_values(spec).items() if o[0] == 'v'} if not iterative else None
        # prepared on the main thread
        if op.startswith('load-') or op == 'to_file':
            comp = wb.compile_mem(spec)
            wb.outcome(comp.evaluate, target)
            if op != 'to_file':
                comp.to_file(path, file_types=(op[5:],))
        elif op == 'evaluate-xlsx':
            wb.write_xlsx(spec, path + '.xlsx', stored)
        else:
            if op == 'set_value-then-evaluate-built-elsewhere':
                # the reference: the same write on a model of the main thread (computed first, so that the
                # model handed to the new thread is the last thing the main thread evaluated)
                other = wb.compile_mem(spec)
                wb.outcome(other.evaluate, target)
                a_ = inp or [c for c in wb.all_addresses(spec) if c != target][0]
                wb.outcome(other.set_value, a_, 5)
                ref = wb.outcome(other.evaluate, target)
            comp = wb.compile_mem(spec)
            if op in ('set_value', 'trim_graph') or op.endswith('built-elsewhere'):
                wb.outcome(comp.evaluate, target)       # cells are built and evaluated on the main thread
            if decoy:
                wb.outcome(wb.compile_mem(decoy).evaluate, target)

        def body():
            if op in ('evaluate', 'evaluate-built-elsewhere'):
                return comp.evaluate(target)
            if op == 'set_value-then-evaluate-built-elsewhere':
                comp.set_value(inp or [c for c in wb.all_addresses(spec) if c != target][0], 5)
                return comp.evaluate(target)
            if op == 'evaluate-xlsx':
                return ExcelCompiler(filename=path + '.xlsx').evaluate(target)
            if op == 'set_value':
                a = inp or target
                comp.set_value(a, 5)
                return 'ok'
            if op == 'trim_graph':
                comp.trim_graph([inp] if inp else [], [target])
                return 'ok'
            if op == 'validate_calcs':
                return comp.validate_calcs([target])
            if op == 'to_file':
                comp.to_file(path, file_types=('yml',))
                return 'ok'
            return ExcelCompiler.from_file(f'{path}.{op[5:]}').evaluate(target)
        got = in_thread(f'fresh-{n}', body)
        ctx.count('fresh_thread_ops')
        ctx.count(f'fresh:{tag}:{op}')
        ctx.case(('fresh', tag, op))
        case = {'kind': 'fresh', 'iterative': iterative, 'op': op}
        if got[0] == 'x':
            ctx.violation(f'first-call-on-a-fresh-thread-raises/{tag}/{op.split("-")[0]}',
                          f'{op} as the first pycel call of a new thread ({tag} model) raised {got[1]}', case)
        elif op in ('evaluate', 'evaluate-xlsx') or op.startswith('load-') or op.endswith('built-elsewhere'):
            if ref[0] == 'v' and not (wb.same(got[1], ref[1]) or (
                    iterative and isinstance(got[1], (int, float)) and abs(got[1] - ref[1]) < 1e-3)):
                ctx.violation(f'first-call-on-a-fresh-thread-differs/{tag}/{op.split("-")[0]}',
                              f'{op} on a new thread gives {got[1]!r}, main thread {ref[1]!r}', case)


# --------------------------------------------------------------------------- stress

def stress(ctx, rounds):
    rng = ctx.rng
    mon = getattr(sys, 'monitoring', None)
    files = ('excelutil.py', 'excelcompiler.py', 'excelformula.py', 'excellib.py', os.path.join('lib', 'lookup.py'),
             os.path.join('lib', 'stats.py'), os.path.join('lib', 'text.py'), os.path.join('lib', 'logical.py'))
    tool = None
    injected = {'n': 0}
    if mon is not None:
        tool = mon.PROFILER_ID
        try:
            mon.use_tool_id(tool, 'vp-c07')
        except ValueError:
            tool = None
    if tool is not None:
        import random
        r = random.Random(ctx.seed * 77 + ctx.shard)
        lock = threading.Lock()

        def on_line(code, line):
            if not code.co_filename.endswith(files):
                return mon.DISABLE
            with lock:
                go = r.random() < 0.03
            if go:
                injected['n'] += 1
                time.sleep(0)
        mon.register_callback(tool, mon.events.LINE, on_line)
    old = sys.getswitchinterval()
    try:
        for rd in range(rounds):
            if ctx.out_of_time():
                break
            seed = 5000 + ctx.seed * 100 + rd
            ws = workloads(seed)
            k = rng.randint(4, 8)
            picks = [rng.randrange(len(ws)) for _ in range(k)]
            refs = [run_workload(ws[i]) for i in picks]
            comps = [compile_workload(ws[i]) for i in picks]
            box = [None] * k
            start = threading.Barrier(k)

            def body(ix):
                start.wait()
                try:
                    box[ix] = ('v', run_workload(ws[picks[ix]], comps[ix]))
                except Exception as exc:  # noqa
                    box[ix] = ('x', wb.describe(exc))
            sys.setswitchinterval(1e-6)
            if tool is not None:
                mon.set_events(tool, mon.events.LINE)
            threads = [threading.Thread(target=body, args=(ix,), name=f'S{ix}') for ix in range(k)]
            for t in threads:
                t.start()
            for t in threads:
                t.join(120)
            if tool is not None:
                mon.set_events(tool, 0)
            sys.setswitchinterval(old)
            ctx.count('stress_rounds')
            ctx.count('stress_threads', k)
            ctx.case(('stress', seed, tuple(picks)))
            for ix in range(k):
                name = ws[picks[ix]]['name']
                if box[ix] is None:
                    raise RuntimeError('stress thread did not finish')
                if not same_results(box[ix], ('v', refs[ix])):
                    ctx.violation(f'stress-result-differs/{name.split("(")[0]}',
                                  f'{name} on one of {k} concurrent threads gave {box[ix]!r}, alone '
                                  f'{refs[ix]!r}', {'kind': 'stress', 'seed': seed, 'picks': picks})
                    break
    finally:
        sys.setswitchinterval(old)
        if tool is not None:
            mon.set_events(tool, 0)
            mon.free_tool_id(tool)
        ctx.count('stress_yields_injected', injected['n'])


def settings_left_as_found(ctx, start, after):
    now = interpreter_settings()
    ctx.count('interpreter_settings_checks_at_quiescence')
    diff = {k: (start[k], v) for k, v in now.items() if v != start[k]}
    if diff:
        ctx.violation('interpreter-wide-setting-left-changed/' + '+'.join(sorted(diff)),
                      f'after {after} the ' + ', '.join(f'{k} is {v[1]!r} (was {v[0]!r})' for k, v in diff.items()) +
                      ': evaluations changed a setting of the whole interpreter and did not put it back',
                      {'kind': 'settings', 'after': after})
        return False
    return True


def run(ctx):
    install()
    start = interpreter_settings()
    if os.environ.get('VP_C07_ONLY') == 'lines':        # (experiments with tools/trybreak.py only)
        line_schedules(ctx, budget_fraction=1.0)
        return
    fresh_ops(ctx)
    if not settings_left_as_found(ctx, start, 'the first calls on fresh threads'):
        return
    stress(ctx, 8 if ctx.quick else 60)
    if not settings_left_as_found(ctx, start, 'concurrent evaluations on several threads'):
        return
    line_schedules(ctx)
    if not settings_left_as_found(ctx, start, 'the interleavings at statement level'):
        return
    schedules(ctx)
    settings_left_as_found(ctx, start, 'the scheduled interleavings')


def replay(ctx, case):
    if case.get('kind') == 'settings':
        run(ctx)
        return
    install()
    if case['kind'] == 'schedule':
        refs = references(case['seed'])
        if 'line' in case['points']:
            with LineHook():
                one_schedule(ctx, case['a'], case['b'], case['seed'], case['plan'], tuple(case['points']),
                             case['warm'], refs)
            return
        one_schedule(ctx, case['a'], case['b'], case['seed'], case['plan'], tuple(case['points']),
                     case['warm'], refs)
    elif case['kind'] == 'fresh':
        ctx.nshards, ctx.shard = 1, 0
        fresh_ops(ctx)
    elif case['kind'] == 'stress':
        stress(ctx, 5)
    else:
        schedules(ctx)
