"""C08 - trim_graph preserves the outputs as a function of the inputs.

Twin run: an untrimmed model U and a trimmed model T (and T2 = T saved and reloaded) receive the same
rounds of assignments of ALL inputs; every output is compared after every round (and before the
first one: frozen cells keep the value they had at trim time).
"""
import itertools

from vp import realbooks, hist, wb, wbgen

PROP = 'C08'
LEVEL = 'exploration'
RULE = ('seeded acyclic workbooks (vp.wbgen.dag) x choice of outputs (1-3 formula cells, sometimes an input '
        'itself, sometimes a cell no input feeds) x inputs (leaf cells, one buried formula cell whose ancestors '
        'hold no other input, a range node of input cells) x {no-data workbook, xlsx with stored results} x '
        '{trim before any evaluate, after evaluating the outputs, after evaluating everything} x '
        '{direct, saved+reloaded as yml/json/pkl}; 4 rounds re-assigning every input from the scalar pool. '
        'A case is one trim; non-trivial = at least one round changed an output; distinct by '
        '(shape, inputs, outputs, configuration).')
BUDGET = {'quick': 30, 'thorough': 300}
FLOORS = {
    'quick': {'trims': 60, 'rounds': 240, 'output_compares': 1000, 'with_range_input': 8,
              'with_buried_input': 4, 'output_is_input': 4, 'output_without_input': 4,
              'cfg:mem': 15, 'cfg:xlsx': 10, 'reloaded': 15, 'trim_before_any_evaluate': 10,
              'rounds_that_changed_an_output': 80, 'real_book_trims': 5,
              'refused_trims_before_the_real_one': 8, 'input_and_output_without_dependants_listed_first': 4},
    'thorough': {'trims': 3500, 'rounds': 14000, 'with_range_input': 500, 'with_buried_input': 250,
                 'reloaded': 1000},
}
ASSUMPTIONS = ['inputs are chosen so that trim_graph does not refuse them (an input no output depends on is a '
               'documented ValueError)',
               'a buried (formula) input is only used when none of its own ancestors is an input, so that the '
               'untrimmed model\'s answer does not depend on the order of the assignments']


def shape_value(rng, h, w):
    return [[wbgen.pick_value(rng, numeric_bias=0.75) for _ in range(w)] for _ in range(h)]


def plan_case(rng, spec, meta):
    """choose outputs and inputs from the generator's ground truth"""
    formulas = [a for a in meta['order'] if a in meta['formulas'] and meta['formulas'][a]['form'] != 'cse']
    if not formulas:
        return None
    outputs = rng.sample(formulas, min(len(formulas), rng.randint(1, 3)))
    infl = set()
    for o in outputs:
        infl |= wbgen.influencers(meta, o)
    leaf = sorted(a for a in infl if a in meta['inputs'])
    if not leaf:
        return None
    inputs = rng.sample(leaf, min(len(leaf), rng.randint(1, 4)))
    buried = None
    cand = [a for a in infl if a in meta['formulas'] and a not in outputs and
            meta['formulas'][a]['form'] not in ('cse', 'cse-consumer')]
    rng.shuffle(cand)
    for a in cand:
        if not (wbgen.influencers(meta, a) & set(inputs)) and rng.random() < 0.5:
            # nothing above it is an input; inputs below it must not be among its ancestors either
            buried = a
            break
    extra_output = None
    r = rng.random()
    if r < 0.15:
        extra_output = rng.choice(inputs)                      # an output which is also an input
    elif r < 0.35:
        free = [f for f in formulas if not (wbgen.influencers(meta, f) & set(inputs)) and f != buried]
        if free:
            extra_output = rng.choice(free)                    # an output no input feeds
    outputs = outputs + ([extra_output] if extra_output and extra_output not in outputs else [])
    # constants that nothing chosen depends on: one to ask for a trim that must be refused before the real one,
    # one (read by no formula at all) given as input AND output, first in the list of inputs
    main = spec['sheets'][0][0]
    spare = sorted(a for a in meta['inputs'] if a not in infl and a.startswith(main + '!') and
                   wb.spec_cells(spec).get(a) is not None)
    lonely = [a for a in spare if not wbgen.dependants(meta, a)]       # read by no formula at all
    refuse_first = rng.choice(lonely) if lonely and rng.random() < 0.4 else None
    lonely = [a for a in lonely if a != refuse_first]
    lonely_io = rng.choice(lonely) if lonely and rng.random() < 0.3 else None
    if lonely_io:
        inputs = [lonely_io] + inputs
        outputs = outputs + [lonely_io]
    return {'outputs': outputs, 'inputs': inputs, 'buried': buried, 'want_range': rng.random() < 0.45,
            'extra_kind': None if extra_output is None else ('input' if extra_output in inputs else 'free'),
            'refuse_first': refuse_first, 'lonely_io': lonely_io}


def pick_range_input(rng, comp, spec, meta, plan):
    """a range node of the untrimmed graph that feeds an output and holds only non-formula cells"""
    import networkx as nx
    g = comp.dep_graph
    outs = [comp.cell_map[o] for o in plan['outputs'] if o in comp.cell_map]
    cands = []
    for a, node in comp.cell_map.items():
        if ':' not in a or node not in g or getattr(node, 'formula', None):
            continue
        if node.address.is_unbounded_range or a.rsplit('!', 1)[0] == wbgen.SD:
            continue
        cells = [c.address for row in node.addresses for c in row]
        if any(c in meta['formulas'] for c in cells) or len(cells) > 9:
            continue
        if any(c == plan['buried'] for c in cells):
            continue
        if any(o in g and nx.has_path(g, node, o) for o in outs):
            cands.append((a, node.size.height, node.size.width, cells))
    return rng.choice(sorted(cands)) if cands else None


def apply(model, assignment):
    for a, v in assignment:
        if ':' in a:
            model.set_value(a, v)
        else:
            model.set_value(a, v)


def one_case(ctx, spec, meta, plan, config, pre, reload_fmt, rounds, rng=None):
    case = {'spec': spec, 'meta': meta, 'plan': plan, 'config': config, 'pre': pre, 'reload': reload_fmt,
            'rounds': rounds}
    init = wb.fresh_values(spec)
    if any(o[0] == 'x' for o in init.values()):
        ctx.count('skipped_workbooks_with_failing_cells')
        return
    U = hist.obtain(config, spec, ctx.tmpdir, 'u', init)
    T = hist.obtain(config, spec, ctx.tmpdir, 't', init)
    outputs = plan['outputs']
    # the untrimmed twin needs every output (and its graph) in the model to choose a range input
    for o in outputs:
        wb.outcome(U.evaluate, o)
    if pre == 'outputs':
        for o in outputs:
            wb.outcome(T.evaluate, o)
    elif pre == 'all':
        for a in wb.all_addresses(spec):
            wb.outcome(T.evaluate, a)
    else:
        ctx.count('trim_before_any_evaluate')
    inputs = list(plan['inputs'])
    if plan['buried']:
        inputs.append(plan['buried'])
    range_input = plan.get('range_input')
    if range_input is None and plan.get('want_range') and rounds is None:
        range_input = pick_range_input(rng, U, spec, meta, plan)
        plan['range_input'] = range_input
    if range_input:
        # cells covered by the range are assigned through the range only
        inputs = [a for a in inputs if a not in range_input[3]] + [range_input[0]]
    plan['final_inputs'] = inputs
    if plan.get('lonely_io'):
        ctx.count('input_and_output_without_dependants_listed_first')
    if plan.get('refuse_first'):
        # a trim that pycel must refuse (an input no output depends on) leaves the model as it was
        for m in (U, T):
            wb.outcome(m.evaluate, plan['refuse_first'])
        o = wb.outcome(T.trim_graph, [plan['refuse_first']], outputs)
        if o != ('x', 'ValueError'):
            # not refused (or failed otherwise): the model is trimmed for other inputs now, nothing to compare
            ctx.count(f'trim_with_an_unused_input:{o[0]}:{o[1] if o[0] == "x" else ""}')
            return
        ctx.count('refused_trims_before_the_real_one')
    try:
        T.trim_graph(inputs, outputs)
    except ValueError as exc:
        ctx.count('trim_refused')
        ctx.note(f'trim refused: {str(exc)[:120]}')
        return
    except Exception as exc:
        if not wb.raised_outside_harness(exc):
            raise
        ctx.violation('trim_graph-raises', f'trim_graph({inputs}, {outputs}) raised {wb.describe(exc)} '
                      f'[config={config}, pre={pre}]', case)
        return
    models = [('trimmed', T)]
    if reload_fmt:
        try:
            models.append((f'trimmed+{reload_fmt}', hist.reload(T, reload_fmt, ctx.tmpdir, 'tr')))
            ctx.count('reloaded')
        except Exception as exc:
            if not wb.raised_outside_harness(exc):
                raise
            ctx.violation(f'save-load-of-trimmed-model-raises/{reload_fmt}',
                          f'saving/loading the trimmed model raised {wb.describe(exc)}', case)
            return
    ctx.count('trims')
    ctx.count('cfg:' + config)
    ctx.count('pre:' + str(pre))
    if range_input:
        ctx.count('with_range_input')
    if plan['buried']:
        ctx.count('with_buried_input')
    if plan.get('extra_kind') == 'input':
        ctx.count('output_is_input')
    if plan.get('extra_kind') == 'free':
        ctx.count('output_without_input')

    features = []
    if range_input:
        features.append('range-input')
    if plan['buried']:
        features.append('buried-input')
    if pre is None and config == 'mem':
        features.append('nothing-evaluated-before-trim')
    feat = '+'.join(features) or 'plain'

    def compare(round_no):
        for o in outputs:
            want = wb.outcome(U.evaluate, o)
            for label, m in models:
                got = wb.outcome(m.evaluate, o)
                ctx.count('output_compares')
                if not wb.same_outcome(got, want):
                    when = 'right after trim' if round_no == 0 else f'in round {round_no}'
                    ctx.violation(f'output-differs/{label.split("+")[0]}{"+reload" if "+" in label else ""}/'
                                  f'{"frozen" if round_no == 0 else "after-assignment"}/{feat}',
                                  f'{label} model: evaluate({o!r}) = {got!r}, untrimmed = {want!r} {when}; '
                                  f'inputs={inputs} outputs={outputs} [config={config}, pre={pre}]', case)
                    return False
        return True

    changed_any = False
    if not compare(0):
        return
    done = []
    last = {o: wb.outcome(U.evaluate, o) for o in outputs}
    n_rounds = 4 if rounds is None else len(rounds)
    for r in range(n_rounds):
        if rounds is None:
            assignment = []
            for a in inputs:
                if ':' in a:
                    assignment.append([a, shape_value(rng, range_input[1], range_input[2])])
                else:
                    v = wbgen.pick_value(rng, numeric_bias=0.75)
                    while v is None and a == plan['buried']:
                        # writing a blank over a formula cell asks the untrimmed model to recompute it
                        v = wbgen.pick_value(rng, numeric_bias=0.75)
                    assignment.append([a, v])
            rng.shuffle(assignment)
        else:
            assignment = rounds[r]
        done.append(assignment)
        case['rounds'] = done
        for label, m in [('untrimmed', U)] + models:
            try:
                apply(m, assignment)
            except Exception as exc:
                if not wb.raised_outside_harness(exc):
                    raise
                ctx.violation(f'set_value-on-input-raises/{label.split("+")[0]}/{feat}',
                              f'{label} model: assigning the inputs raised {wb.describe(exc)}', case)
                return
        ctx.count('rounds')
        if not compare(r + 1):
            return
        now = {o: wb.outcome(U.evaluate, o) for o in outputs}
        if any(not wb.same_outcome(now[o], last[o]) for o in outputs):
            ctx.count('rounds_that_changed_an_output')
            changed_any = True
        last = now
    ctx.case((wbgen.shape_signature(spec, meta), tuple(inputs), tuple(outputs), config, pre, reload_fmt),
             nontrivial=changed_any)
    if ctx.counters['trims'] % 40 == 1:
        ctx.sample({'cells': spec['sheets'], 'inputs': inputs, 'outputs': outputs, 'config': config,
                    'evaluated_before_trim': pre, 'reload': reload_fmt, 'rounds': done[:2]})


def iterative_trim(ctx):
    """directed: iterative calculation on; a contracting circular block that does not depend on the input
    feeds the output.  Frozen at trim time it must hold its converged value (within the tolerance)."""
    for k, (a, b, c) in enumerate(((5, 0.25, 0.5), (1, 0.5, 0.5), (-3, 0.2, -0.7), (10, 0.1, 0.9))):
        x1 = a / (1 - b * c)            # B1 = a + b*B2, B2 = c*B1
        for reload_fmt, via in itertools.product((None, 'yml', 'json', 'pkl'), ('direct', 'range', 'name')):
            # the block refers to itself directly, through a range (which pycel evaluates once while it builds
            # the graph, so its cells already hold a first-sweep value at trim time), or through a defined name
            b2 = {'direct': 'B2', 'range': 'SUM(B2:B3)', 'name': 'feedback'}[via]
            spec = {'sheets': [['Sheet1', {'A1': 2, 'C1': '=A1*Rates!B1', 'D1': '=C1+Rates!B2'}],
                               ['Rates', {'B1': f'={a}+{b}*{b2}', 'B2': f'={c}*B1', 'B3': 0}]],
                    'names': {'feedback': 'Rates!$B$2'} if via == 'name' else {}, 'arrays': [],
                    'calc': {'iterate': True, 'count': 200, 'delta': 1e-9}}
            case = {'kind': 'iterative-trim', 'k': k, 'reload': reload_fmt, 'via': via}
            T = wb.compile_mem(spec)
            try:
                T.trim_graph(['Sheet1!A1'], ['Sheet1!C1', 'Sheet1!D1'])
                if reload_fmt:
                    T = hist.reload(T, reload_fmt, ctx.tmpdir, 'it')
            except Exception as exc:
                if not wb.raised_outside_harness(exc):
                    raise
                ctx.violation('iterative/trim-or-reload-raises', f'{wb.describe(exc)}', case)
                continue
            ctx.count('trims')
            ctx.count('directed:iterative_trim')
            ctx.count('iterative_trim_via:' + via)
            ctx.case(('iterative-trim', k, reload_fmt, via))
            for v in (2, 7, -1.5, 0):
                T.set_value('Sheet1!A1', v)
                got_c, got_d = wb.outcome(T.evaluate, 'Sheet1!C1'), wb.outcome(T.evaluate, 'Sheet1!D1')
                ctx.count('output_compares', 2)
                want_c, want_d = v * x1, v * x1 + c * x1
                ok = all(o[0] == 'v' and isinstance(o[1], (int, float)) and abs(o[1] - w_) <= 1e-6 * max(1, abs(w_))
                         for o, w_ in ((got_c, want_c), (got_d, want_d)))
                if not ok:
                    ctx.violation(f'iterative/frozen-circular-block-not-converged/{via}',
                                  f'A1={v}: trimmed model gives C1={got_c!r}, D1={got_d!r}; the circular block '
                                  f'Rates!B1={a}+{b}*{b2}, B2={c}*B1 converges to B1={x1!r}, so C1={want_c!r}, '
                                  f'D1={want_d!r} [reload={reload_fmt}]', case)
                    break


def array_range_input(ctx):
    """directed: the input is the range of an array formula (a buried input range, a range node with a formula of its
    own whose edges run from the range to its cells) next to a plain input range; the inputs are assigned as ranges.
    Variants: the cells of the array range are read by another formula or by nothing (they are never built then)."""
    grids = ([[10], [20], [30]], [[1], [1], [5]], [[0], [-2.5], [4]], [[7], [7], [7]])
    for members_read, pre, reload_fmt in itertools.product((True, False), (None, 'outputs'), (None, 'yml', 'json', 'pkl')):
        cells = {'A1': 1, 'A2': 2, 'A3': 3, 'E1': '=SUM(C1:C3)', 'F1': '=E1*10' + ('+D1' if members_read else ''),
                 'G1': '=MAX(C1:C3)', 'H1': 4, 'H2': 5, 'K1': '=SUM(H1:H2)*E1'}
        if members_read:
            cells['D1'] = '=C1+C2+C3'
        spec = {'sheets': [['S', cells]], 'names': {}, 'arrays': [['S', 'C1:C3', '=A1:A3*2']], 'calc': None}
        case = {'kind': 'array-range-input', 'members_read': members_read, 'pre': pre, 'reload': reload_fmt}
        outputs = ['S!F1', 'S!G1', 'S!K1']
        U, T = wb.compile_mem(spec), wb.compile_mem(spec)
        for o in outputs:
            U.evaluate(o)
            if pre:
                T.evaluate(o)
        ctx.count('trims')
        ctx.count('directed:array_range_input')
        ctx.case(('array-range-input', members_read, pre, reload_fmt))
        try:
            T.trim_graph(['S!C1:C3', 'S!H1:H2'], outputs)
            if reload_fmt:
                T = hist.reload(T, reload_fmt, ctx.tmpdir, 'ari')
        except Exception as exc:
            if not wb.raised_outside_harness(exc):
                raise
            ctx.violation('array-range-input/trim-or-reload-raises/' +
                          ('cells-of-the-range-read' if members_read else 'cells-of-the-range-never-built'),
                          f'trim_graph([C1:C3 = {{=A1:A3*2}}, H1:H2], {outputs}) raised {wb.describe(exc)} [{case}]', case)
            continue
        for k, grid in enumerate(grids):
            got = {}
            for name, model in (('untrimmed', U), ('trimmed', T)):
                o1 = wb.outcome(model.set_value, 'S!C1:C3', grid, set_as_range=True)
                o2 = wb.outcome(model.set_value, 'S!H1:H2', [[k], [2 * k]], set_as_range=True)
                got[name] = [o1[0], o2[0]] + [wb.outcome(model.evaluate, o) for o in outputs]
            ctx.count('rounds')
            ctx.count('output_compares', len(outputs))
            if got['untrimmed'][:2] != ['v', 'v']:
                ctx.count('array_range_input:untrimmed_refuses_the_assignment')
                break
            same = got['trimmed'][:2] == ['v', 'v'] and all(
                wb.same_outcome(a, b) for a, b in zip(got['untrimmed'][2:], got['trimmed'][2:]))
            if not same:
                ctx.violation('array-range-input/output-differs/' + ('trimmed+reload' if reload_fmt else 'trimmed'),
                              f'C1:C3 := {grid}, H1:H2 := {[[k], [2 * k]]}: untrimmed {got["untrimmed"]}, trimmed '
                              f'{got["trimmed"]} [{case}]', case)
                break


def run(ctx):
    rng = ctx.rng
    i = 0
    if ctx.shard == 0:
        iterative_trim(ctx)
    if ctx.shard == 2 % ctx.nshards:
        array_range_input(ctx)
    # twin runs on the workbooks shipped with the repository
    realbooks.run_cases(ctx, realbooks.c08_case, realbooks.acyclic_books(), 8 if ctx.quick else 80, fraction=0.25)
    while not ctx.out_of_time():
        i += 1
        spec, meta = wbgen.dag(rng, arrays=False, formula_ratio=0.65)
        plan = plan_case(rng, spec, meta)
        if plan is None:
            continue
        config = 'xlsx' if i % 3 == 0 else 'mem'
        pre = rng.choice([None, None, 'outputs', 'all'])
        reload_fmt = rng.choice([None, None, 'yml', 'json', 'pkl'])
        one_case(ctx, spec, meta, plan, config, pre, reload_fmt, None, rng=rng)


def replay(ctx, case):
    if case.get('kind') == 'real-book':
        realbooks.c08_case(ctx, case['book'], case['case_seed'])
        return
    if case.get('kind') == 'iterative-trim':
        iterative_trim(ctx)
        return
    if case.get('kind') == 'array-range-input':
        array_range_input(ctx)
        return
    one_case(ctx, case['spec'], case['meta'], case['plan'], case['config'], case['pre'], case['reload'],
             case['rounds'] or [])
