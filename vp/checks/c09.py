"""C09 - a failed evaluation does not corrupt the model.

Fault injection: each formula cell in turn is made to fail - unknown function NOSUCH(...), plugin
FAILK raising on every call, plugin FAILK raising on its first call only, a text that is not a formula or a
reference to a sheet that does not exist (both fail while the cell is *built*, not when it is evaluated) - at a leaf, mid-chain, inside
a range, inside a CSE array, inside a cycle, and under an outer formula which has already captured a
#VALUE! when the inner evaluation fails.  The follow-up history is the oracle: retries must fail again
with a PyCelException (or, for the one-shot fault, return the correct value), unrelated cells must
evaluate to their fresh values, a second independent failing cell must fail with a PyCelException,
and after overwriting the failing cells with constants everything must equal a fresh model.
The H2 hook (eval_enter/eval_exit, pending captured messages) and read-only walks of the transient
state (context stack depth, wip flags, todo lists) are recorded as suspects in the replay file; the
verdict always comes from the behaviour.
"""
import itertools

from vp import plugins, realbooks, wb, wbgen
from vp.core import h64

PROP = 'C09'
LEVEL = 'fault_enumeration'
RULE = ('seeded acyclic workbooks (vp.wbgen.dag, sometimes with a CSE array) and contracting cycles; every '
        'formula cell in turn x fault kind {NOSUCH, FAILK-always, FAILK-once} x first touch {failing cell, a '
        'dependant, a probe cell whose outer formula captured #VALUE! first} x {plain, iterative}; follow-up: '
        'retry, unrelated cells, second independent failure, repair by constants, evaluate everything. '
        'A case is one (workbook, failing cell, fault kind, mode); distinct by that tuple; non-trivial = the '
        'injected fault actually raised.')
BUDGET = {'quick': 30, 'thorough': 300}
FLOORS = {
    'quick': {'cases': 250, 'faults_raised': 200, 'retries': 400, 'unrelated_compares': 700,
              'second_failures': 60, 'repairs': 150, 'repair_compares': 1200, 'mode:plain': 80,
              'mode:iterative': 80, 'kind:nosuch': 20, 'kind:failk-always': 20, 'kind:failk-once': 20, 'kind:failname': 20,
              'kind:nosuch-keyword': 20, 'kind:no-parse': 20, 'kind:missing-sheet': 20,
              'pos:leaf': 50, 'pos:mid-chain': 50, 'pos:in-range': 50, 'pos:cse': 10, 'pos:cycle': 20,
              'first:probe': 40, 'h2_events': 2000, 'real_book_cases': 4, 'real_faults_raised': 4},
    'thorough': {'cases': 12000, 'second_failures': 3000, 'pos:cse': 200, 'pos:cycle': 500},
}
for _tier in FLOORS:
    FLOORS[_tier]['suite:tests'] = 2000          # the repository's own suite ran under the monitors
ASSUMPTIONS = ['unrelated = not a ground-truth dependant of a failing cell (ranges count with all their cells)',
               'after a one-shot fault (plugin raises on its first call only) a retry may succeed; it must then '
               'return the fresh value']

H2 = {'depth': 0, 'events': 0, 'pending': 0, 'installed': False, 'max_depth': 0}


def _listener(event, info):
    if event == 'eval_enter':
        H2['depth'] += 1
        H2['events'] += 1
        H2['max_depth'] = max(H2['max_depth'], H2['depth'])
    elif event == 'eval_exit':
        H2['depth'] -= 1
        H2['events'] += 1
        H2['pending'] = info.get('pending', 0)


def install():
    if not H2['installed']:
        from pycel import _verif
        if not _verif.ENABLED:
            raise RuntimeError('PYCEL_VERIF hooks are not enabled')
        _verif.listeners.append(_listener)
        H2['installed'] = True


def call(fn, *a):
    """('v', value) | ('pycel', class name) | ('other', 'Class: msg')"""
    from pycel.excelutil import PyCelException
    try:
        return ('v', fn(*a))
    except PyCelException as exc:
        return ('pycel', type(exc).__name__)
    except RecursionError:
        return ('other', 'RecursionError')
    except Exception as exc:  # noqa
        if not wb.raised_outside_harness(exc):
            raise
        return ('other', wb.describe(exc))


def suspects(comp):
    """transient state that should be gone at quiescence (diagnostic only)"""
    from pycel.excelutil import in_array_formula_context
    out = []
    if H2['depth'] != 0:
        out.append(f'eval_enter/eval_exit unbalanced by {H2["depth"]}')
        H2['depth'] = 0
    if H2['pending']:
        out.append(f'{H2["pending"]} captured error message(s) left pending')
    d = len(in_array_formula_context.ns.ctx_addresses)
    if d != 1:
        out.append(f'array formula context stack depth {d}')
    wip = [a for a, c in comp.cell_map.items() if getattr(c, 'wip', False)]
    if wip:
        out.append(f'cells left work-in-progress: {wip[:4]}')
    if comp.range_todos or comp.graph_todos:
        out.append('range_todos/graph_todos not empty')
    return out


_CONSTANT_TURN = [0]


def wrap(formula, kind, tag):
    body = formula[1:]
    if kind == 'nosuch':
        return f'=NOSUCH({body})'
    if kind == 'nosuch-braces':
        # (text with the characters str.format() reads: the code of the formula is quoted in the error message)
        return f'=NOSUCH({body},"{{a}} {{0}} {{")'
    if kind == 'nosuch-constant':
        # no such function, but python's math module has a constant of that name
        _CONSTANT_TURN[0] += 1
        return f'={("TAU", "INF", "E", "NAN")[_CONSTANT_TURN[0] % 4]}({body})'
    if kind == 'nosuch-keyword':
        return f'=LAMBDA({body})'          # an unknown function whose name python cannot even parse as a call
    if kind == 'failname':
        return f'=FAILNAME({body})'        # a plugin that fails with a NameError of its own
    if kind == 'no-parse':
        # fails when the cell is *built*: the text is not a formula (an operator without its operand)
        return f'=({body})+'
    if kind == 'missing-sheet':
        # fails when the cell is built: a written reference to a sheet the workbook does not have
        return f'=NoSuchSheet!A1+({body})'
    if kind == 'failk-always':
        return f'=FAILK("{tag}",0,{body})'
    return f'=FAILK("{tag}",1,{body})'


def plan_case(rng, spec, meta, kind):
    """pick the failing cell F, an unrelated second failing cell G, build the faulty spec"""
    members = wb.array_members(spec)
    formulas = [a for a in meta['order'] if a in meta['formulas'] and a not in members]
    if not formulas:
        return None
    arrays = spec.get('arrays') or []
    F = rng.choice(formulas + ([arrays[0]] if arrays else []))
    faulty = dict(spec, sheets=[[s, dict(c)] for s, c in spec['sheets']],
                  arrays=[list(a) for a in arrays])
    by = dict(faulty['sheets'])
    if isinstance(F, list):                       # the CSE array formula itself
        faulty['arrays'][0][2] = wrap(arrays[0][2], kind, 'f')
        f_cells = [a for a, m in members.items()]
        pos = 'cse'
        F_addr = f_cells[0]
    else:
        s, c = F.rsplit('!', 1)
        by[s][c] = wrap(by[s][c], kind, 'f')
        f_cells = [F]
        F_addr = F
        deps = meta['formulas'][F]['deps']
        dependants = wbgen.dependants(meta, F)
        in_range = any(F in meta['formulas'][d]['deps'] and meta['formulas'][d]['form'] in
                       ('agg', 'nested', 'union', 'intersect', 'multicolon', 'index', 'lookup', 'sumif',
                        'sumproduct', 'name', 'cse', 'cse-consumer') for d in dependants)
        if in_range:
            pos = 'in-range'
        elif all(d in meta['inputs'] or d not in meta['formulas'] for d in deps):
            pos = 'leaf'
        else:
            pos = 'mid-chain'
    related = set(f_cells)
    for a in f_cells:
        related |= wbgen.dependants(meta, a)
    # probe: an outer formula that captures #VALUE! before the inner evaluation fails
    s1 = faulty['sheets'][0][0]
    probe = wb.addr(s1, 'A15')
    fs, fc = F_addr.rsplit('!', 1)
    by[s1]['A15'] = f'=IFERROR("t"*2,5)+{wb.quote_sheet(fs)}!{fc}'
    meta2 = dict(meta, formulas=dict(meta['formulas']))
    meta2['formulas'][probe] = {'form': 'probe', 'deps': [F_addr]}
    related.add(probe)
    # second, independent failing cell
    G = None
    infl_f = set()
    for a in f_cells:
        infl_f |= wbgen.influencers(meta, a)
    cands = [a for a in formulas if a not in related and a not in infl_f and a != F and
             not (wbgen.influencers(meta, a) & related)]
    probe2 = None
    related2 = set()
    if cands:
        G = rng.choice(cands)
        s, c = G.rsplit('!', 1)
        by[s][c] = wrap(by[s][c], rng.choice(['nosuch', 'failk-always']), 'g')
        probe2 = wb.addr(s1, 'B15')
        by[s1]['B15'] = f'=IFERROR("t"*2,5)+{wb.quote_sheet(s)}!{c}'
        meta2['formulas'][probe2] = {'form': 'probe', 'deps': [G]}
        related2 = {G, probe2} | wbgen.dependants(meta, G)
    return {'faulty': faulty, 'meta': meta2, 'F': F_addr, 'f_cells': f_cells, 'G': G, 'probe': probe,
            'probe2': probe2, 'related': sorted(related), 'related2': sorted(related2), 'pos': pos,
            'kind': kind}


def repaired_spec(plan, const_f, const_g):
    spec = plan['faulty']
    rep = dict(spec, sheets=[[s, dict(c)] for s, c in spec['sheets']], arrays=[list(a) for a in spec['arrays']])
    by = dict(rep['sheets'])
    if plan['pos'] == 'cse':
        # members of the array become constants
        s, ref, _ = rep['arrays'][0]
        rep['arrays'] = []
        for a in plan['f_cells']:
            by[s][a.rsplit('!', 1)[1]] = const_f
    else:
        s, c = plan['F'].rsplit('!', 1)
        by[s][c] = const_f
    if plan['G']:
        s, c = plan['G'].rsplit('!', 1)
        by[s][c] = const_g
    return rep


def one_case(ctx, plan, mode, first, case_extra=None):
    install()
    faulty, meta = plan['faulty'], plan['meta']
    kind = plan['kind']
    spec = dict(faulty, calc={'iterate': True, 'count': 100, 'delta': 1e-9}) if mode == 'iterative' else faulty
    case = {'kind': 'dag', 'plan': plan, 'mode': mode, 'first': first}
    key_base = f'{mode}/{kind}/{plan["pos"]}'
    plugins.reset()
    H2.update(depth=0, pending=0, max_depth=0)
    ev0 = H2['events']
    comp = wb.compile_mem(spec, plugins='vp.plugins')
    log = []

    def bad(key, msg):
        case['suspects'] = log
        ctx.violation(f'{key}/{key_base}', msg + f' [first touch: {first}]', case)

    ctx.count('cases')
    ctx.count('mode:' + mode)
    ctx.count('kind:' + kind)
    ctx.count('pos:' + plan['pos'])
    ctx.count('first:' + first)
    ctx.case((repr(faulty['sheets']), repr(faulty['arrays']), mode, first), nontrivial=True)

    F, probe = plan['F'], plan['probe']
    # dependants that really read the failing value: formulas of the forms ROW()/COLUMN() and the
    # intersection operator declare precedents whose value they do not (all) read
    reading = dict(meta, formulas={a: (m if m['form'] not in ('rowcol', 'intersect') else dict(m, deps=[]))
                                   for a, m in meta['formulas'].items()})
    must_fail = set()
    for a in plan['f_cells']:
        must_fail |= wbgen.dependants(reading, a)
    real_dependants = [a for a in plan['related'] if a not in plan['f_cells'] and a != probe and
                       a in must_fail]
    if first == 'probe':
        touch = probe
    elif first == 'dependant' and real_dependants:
        touch = real_dependants[-1]
    else:
        touch = F
    r = call(comp.evaluate, touch)
    log += suspects(comp)
    if r[0] == 'v':
        # the fault did not fire through this path (e.g. an IF branch pycel still evaluates eagerly: it must)
        r = call(comp.evaluate, F)
        if r[0] == 'v':
            bad('injected-fault-returns-a-value', f'evaluate({F!r}) = {r[1]!r} although its formula must fail')
            return
    if r[0] == 'other' and kind == 'missing-sheet':
        # the statement starts "when evaluating a cell raises" and promises pycel's own errors for what comes after;
        # the workbook's own KeyError for a sheet that does not exist is the first failure here (counted, not judged)
        ctx.count('first_failure_is_the_workbooks_own_error')
    elif r[0] == 'other':
        bad('first-failure-is-not-a-pycel-error', f'evaluate({touch!r}) raised {r[1]}')
        return
    ctx.count('faults_raised')

    # retries
    fresh_ok = None
    if kind == 'failk-once':
        ident = dict(faulty, sheets=[[s, dict(c)] for s, c in faulty['sheets']],
                     arrays=[list(a) for a in faulty['arrays']])
        # the same workbook in which FAILK never raises: k = 99
        for s, cells in ident['sheets']:
            for c, v in cells.items():
                if isinstance(v, str) and '=FAILK("f",1,' in v:
                    cells[c] = v.replace('=FAILK("f",1,', '=FAILK("f",99,')
        for a in ident['arrays']:
            a[2] = a[2].replace('=FAILK("f",1,', '=FAILK("f",99,')
        if mode == 'iterative':
            ident = dict(ident, calc=spec['calc'])
        fresh_ok = wb.compile_mem(ident, plugins='vp.plugins')
    for target in [F] + real_dependants[:2] + [probe]:
        r = call(comp.evaluate, target)
        ctx.count('retries')
        log += suspects(comp)
        if r[0] == 'other':
            bad('retry-raises-a-bare-exception', f'retry evaluate({target!r}) raised {r[1]}')
            return
        if r[0] == 'v':
            if kind != 'failk-once':
                bad('retry-returns-a-value', f'retry evaluate({target!r}) = {r[1]!r} although it must fail again')
                return
            want = call(fresh_ok.evaluate, target)
            if want[0] != 'v':
                # building the graph evaluates declared ranges eagerly, so the first attempt can fail on the
                # *other* failing cell although the value does not depend on it (e.g. an intersection
                # operand): the reference gets the same second chance as the model under test
                want = call(fresh_ok.evaluate, target)
            if want[0] != 'v' or not wb.same(r[1], want[1], rel=1e-6):
                bad('value-after-transient-failure-differs',
                    f'after the one-shot fault evaluate({target!r}) = {r[1]!r}, a model in which the plugin '
                    f'never raised gives {want!r}')
                return

    # unrelated cells
    everything = wb.all_addresses(faulty)
    fresh_faulty = wb.compile_mem(spec, plugins='vp.plugins')
    unrelated = [a for a in everything if a not in plan['related'] and a not in plan['related2']]
    for a in unrelated:
        got = call(comp.evaluate, a)
        want = call(fresh_faulty.evaluate, a)
        ctx.count('unrelated_compares')
        if got[0] != want[0] or (got[0] == 'v' and not wb.same(got[1], want[1], rel=1e-6)):
            bad('unrelated-cell-differs', f'evaluate({a!r}) = {got!r} after the failure of {F!r}; a fresh model '
                f'gives {want!r}')
            return
    log += suspects(comp)

    # a second, independent failure
    if plan['G']:
        r = call(comp.evaluate, plan['probe2'] if first == 'probe' else plan['G'])
        ctx.count('second_failures')
        log += suspects(comp)
        if r[0] == 'other':
            bad('second-failure-is-not-a-pycel-error',
                f'evaluate of the second failing cell {plan["G"]!r} raised {r[1]}')
            return
        if r[0] == 'v':
            r = call(comp.evaluate, plan['G'])
            if r[0] != 'pycel':
                bad('second-failure-is-not-a-pycel-error', f'evaluate({plan["G"]!r}) gives {r!r}')
                return

    # repair with constants
    # (zero, too: writing 0 over a cell that never had a value is a change)
    const_f, const_g = ((3, 4), (0, 4), (0.0, 0), (7, 0))[h64((plan['F'], kind, mode, first, len(plan['related']))) % 4]
    ctx.count(f'repair_constant:{const_f!r}')
    targets = plan['f_cells'] + ([plan['G']] if plan['G'] else [])
    same_value = []
    for a in targets:
        if a not in comp.cell_map:
            r = call(comp.evaluate, a)       # bring it into the model the documented way
        shown = getattr(comp.cell_map.get(a), 'value', None)
        c_ = const_g if a == plan['G'] else const_f
        if shown is not None and shown == c_ and isinstance(shown, bool) == isinstance(c_, bool):
            # the cell already shows this value (after a one-shot fault): pycel takes the write for no change and
            # keeps the formula (known finding; the test-suite uses exactly that to seed a cycle)
            same_value.append(a)
        r = call(comp.set_value, a, c_)
        if r[0] != 'v':
            bad('repair-set_value-raises', f'set_value({a!r}, constant) raised {r[1]}')
            return
    ctx.count('repairs')
    rep = repaired_spec(plan, const_f, const_g)
    if mode == 'iterative':
        rep = dict(rep, calc=spec['calc'])
    fresh = wb.compile_mem(rep, plugins='vp.plugins')
    for a in everything + [probe] + ([plan['probe2']] if plan['probe2'] else []):
        if plan['pos'] == 'cse' and a in plan['related'] and a not in targets and a != probe:
            # the array formula itself lives on the range node and cannot be overwritten through its
            # member cells: consumers of the whole range are outside what the statement promises
            ctx.count('cse_range_consumers_not_compared')
            continue
        got = call(comp.evaluate, a)
        want = call(fresh.evaluate, a)
        ctx.count('repair_compares')
        if got[0] != want[0] or (got[0] == 'v' and not wb.same(got[1], want[1], rel=1e-6)):
            which = 'the overwritten cell itself' if a in targets else (
                'a dependant' if a in plan['related'] or a in plan['related2'] else 'an unrelated cell')
            bad(f'after-repair-differs/{which.split()[-1] if which != "the overwritten cell itself" else "overwritten"}',
                f'after overwriting {targets} with constants evaluate({a!r}) = {got!r} ({which}); a fresh '
                f'model of the repaired workbook gives {want!r}')
            return
    # follow-up: a new value for an input that the overwritten cell's former formula read; the constant stays
    if plan['pos'] != 'cse':
        feeding = sorted(a for f in plan['f_cells'] for a in wbgen.influencers(meta, f)
                         if a in meta['inputs'] and not a.startswith(wbgen.SD + '!') and a in comp.cell_map)
        if feeding:
            p = feeding[h64((F, kind)) % len(feeding)]
            new_value = 12.5 if wb.norm(wb.spec_cells(faulty).get(p)) != wb.norm(12.5) else 7
            for m in (comp, fresh):
                if p not in m.cell_map:
                    call(m.evaluate, p)
                call(m.set_value, p, new_value)
            ctx.count('writes_to_a_precedent_of_the_overwritten_cell')
            for a in everything + [probe]:
                if a in plan['related2'] or (plan['probe2'] and a == plan['probe2']):
                    continue
                got, want = call(comp.evaluate, a), call(fresh.evaluate, a)
                ctx.count('repair_compares')
                if got[0] != want[0] or (got[0] == 'v' and not wb.same(got[1], want[1], rel=1e-6)):
                    if same_value:
                        case['suspects'] = log
                        ctx.violation(SAME_VALUE_KEY,
                                      f'{same_value} already showed the constant written over it (after a one-shot '
                                      f'fault); pycel took the write for no change and kept the formula: after writing '
                                      f'{new_value!r} to {p} evaluate({a!r}) = {got!r}, a fresh model of the repaired '
                                      f'workbook gives {want!r} [{key_base}]', case)
                        return
                    bad('after-repair-differs/after-a-write-to-a-former-precedent',
                        f'after overwriting {targets} with constants and writing {new_value!r} to {p} (which the '
                        f'overwritten formula read) evaluate({a!r}) = {got!r}; a fresh model of the repaired workbook '
                        f'with the same input gives {want!r}')
                    return
    ctx.count('h2_events', H2['events'] - ev0)
    if log:
        ctx.count('suspects_recorded', len(log))
    if mode == 'plain' and plan['pos'] != 'cse' and kind != 'failk-once':
        trim_after_failure(ctx, plan, case, key_base)
    if ctx.counters['cases'] % 60 == 1:
        ctx.sample({'cells': faulty['sheets'], 'arrays': faulty['arrays'], 'failing': F, 'second': plan['G'],
                    'kind': kind, 'mode': mode, 'first_touch': first, 'position': plan['pos'],
                    'transient_state_notes': log[:3]})


SAME_VALUE_KEY = 'overwritten-with-the-value-it-already-showed/formula-kept'


def same_value_case(ctx):
    """directed: a cell that failed once shows 2 on the retry and is then overwritten with the constant 2"""
    for mode in ('plain', 'iterative'):
        spec = {'sheets': [['Sheet1', {'A1': 1, 'B1': '=FAILK("f",1,A1*2)', 'C1': '=B1+1'}]], 'names': {},
                'arrays': [], 'calc': {'iterate': True, 'count': 100, 'delta': 1e-9} if mode == 'iterative' else None}
        plugins.reset()
        comp = wb.compile_mem(spec, plugins='vp.plugins')
        first = call(comp.evaluate, 'Sheet1!C1')
        retry = call(comp.evaluate, 'Sheet1!B1')
        call(comp.set_value, 'Sheet1!B1', 2)
        call(comp.set_value, 'Sheet1!A1', 5)
        got = call(comp.evaluate, 'Sheet1!C1')
        ctx.count('directed:same_value_case')
        ctx.case(('same-value', mode))
        if first[0] != 'pycel' or retry != ('v', 2):
            ctx.violation('directed-same-value-case-did-not-fail-once', f'{mode}: first {first!r}, retry {retry!r}',
                          {'kind': 'same-value', 'mode': mode})
        elif got != ('v', 3):
            ctx.violation(SAME_VALUE_KEY, f'{mode}: B1 = FAILK(once, A1*2) fails, shows 2 on the retry and is '
                          f'overwritten with 2; after set_value(A1, 5) C1 = B1+1 gives {got!r}, a workbook with the '
                          f'constant 2 in B1 gives 3', {'kind': 'same-value', 'mode': mode})


def trim_after_failure(ctx, plan, case, key_base):
    """follow-up history with trim_graph: the failing cell feeds the output but does not depend on the input, so
    trimming has to evaluate it to freeze it.  Whether trim_graph refuses or raises, a dependant of the failing
    cell must not start returning a value afterwards."""
    meta, F = plan['meta'], plan['F']
    infl_f = wbgen.influencers(meta, F) | {F}
    reading = dict(meta, formulas={a: (m if m['form'] not in ('rowcol', 'intersect') else dict(m, deps=[]))
                                   for a, m in meta['formulas'].items()})
    for d in sorted(wbgen.dependants(reading, F)):
        if d == plan['probe'] or meta['formulas'][d]['form'] in ('rowcol', 'intersect', 'probe'):
            continue
        inputs = sorted(a for a in wbgen.influencers(meta, d) if a in meta['inputs'] and a not in infl_f and
                        not a.startswith(wbgen.SD + '!'))
        if not inputs:
            continue
        comp = wb.compile_mem(plan['faulty'], plugins='vp.plugins')
        plugins.reset()
        r0 = call(comp.evaluate, d)
        if r0[0] != 'pycel':
            return                      # the dependant does not read the failing value on this path
        t = call(comp.trim_graph, [inputs[0]], [d])
        ctx.count('trim_after_failure')
        ctx.count('trim_after_failure:' + t[0])
        r1 = call(comp.evaluate, d)
        if r1[0] == 'v':
            c2 = dict(case, trim={'input': inputs[0], 'output': d})
            ctx.violation(f'dependant-returns-a-value-after-trim_graph/{key_base}',
                          f'evaluate({d!r}) raised {r0[1]}; after trim_graph([{inputs[0]!r}], [{d!r}]) (which '
                          f'{"returned" if t[0] == "v" else "raised " + str(t[1])}) it returns {r1[1]!r} although '
                          f'{F!r} still fails', c2)
        return


# --------------------------------------------------------------------------- failure inside a cycle

def one_cycle(ctx, spec, info, kind, idx, case=None):
    install()
    cells = dict(spec['sheets'][0][1])
    F = info['cells'][idx]
    c = F.rsplit('!', 1)[1]
    faulty_cells = dict(cells)
    faulty_cells[c] = wrap(cells[c], kind, 'f')
    calc = {'iterate': True, 'count': 80, 'delta': 1e-9}
    faulty = {'sheets': [[spec['sheets'][0][0], faulty_cells]], 'names': {}, 'arrays': [], 'calc': calc}
    # the reference values of the repaired models are computed BEFORE the failing model is touched: the
    # iteration tracker is one per thread, so a healthy model evaluated in between would hide leaked state
    consts = [2.5, -4.0, 7.0, 0.5]
    wants = []
    for const in consts:
        rep_cells = dict(cells)
        rep_cells[c] = const
        fresh = wb.compile_mem({'sheets': [[spec['sheets'][0][0], rep_cells]], 'names': {}, 'arrays': [],
                                'calc': calc})
        wants.append({a: call(fresh.evaluate, a) for a in info['cells']})
    case = {'kind': 'cycle', 'spec': spec, 'info': info, 'fault': kind, 'idx': idx}
    key_base = f'iterative/{kind}/cycle'
    plugins.reset()
    H2.update(depth=0, pending=0)
    comp = wb.compile_mem(faulty, plugins='vp.plugins')
    ctx.count('cases')
    ctx.count('pos:cycle')
    ctx.count('mode:iterative')
    ctx.count('kind:' + kind)
    ctx.case((repr(faulty_cells), kind, idx))
    others = [a for a in info['cells'] if a != F]
    log = []

    def bad(key, msg):
        case['suspects'] = log
        ctx.violation(f'{key}/{key_base}', msg, case)
    r = call(comp.evaluate, others[0] if others else F)
    log += suspects(comp)
    if r[0] == 'v':
        r = call(comp.evaluate, F)
    if r[0] == 'v' and kind != 'failk-once':
        bad('injected-fault-returns-a-value', f'evaluate = {r[1]!r} although a cell of the cycle must fail')
        return
    if r[0] == 'other' and kind == 'missing-sheet':
        ctx.count('first_failure_is_the_workbooks_own_error')      # see one_case
    elif r[0] == 'other':
        bad('first-failure-is-not-a-pycel-error', f'evaluate raised {r[1]}')
        return
    ctx.count('faults_raised')
    if kind != 'failk-once':
        for target in [F] + others[:1]:
            r = call(comp.evaluate, target)
            ctx.count('retries')
            log += suspects(comp)
            if r[0] != 'pycel':
                bad('retry-returns-a-value' if r[0] == 'v' else 'retry-raises-a-bare-exception',
                    f'retry evaluate({target!r}) gives {r!r}')
                return
    # repair, then several rounds of re-assignment: each round must converge again
    for rnd, const in enumerate(consts):
        r = call(comp.set_value, F, const)
        if r[0] != 'v':
            bad('repair-set_value-raises', f'set_value({F!r}, {const}) raised {r[1]}')
            return
        ctx.count('repairs')
        for a in info['cells']:
            got, want = call(comp.evaluate, a), wants[rnd][a]
            ctx.count('repair_compares')
            ok = got[0] == want[0] == 'v' and isinstance(got[1], (int, float)) and \
                abs(got[1] - want[1]) <= 1e-6 * max(1.0, abs(want[1]))
            if not ok:
                which = 'overwritten' if a == F else 'dependant'
                bad(f'after-repair-differs/{which}', f'round {rnd + 1} after the failure: set_value({F!r}, {const}) '
                    f'then evaluate({a!r}) = {got!r}; a fresh model of the repaired cycle gives {want!r}')
                return


def unbounded_case(ctx):
    """directed: the failing cell sits in a column that another sheet reads as Src!A:A (also when the column
    clips to that single cell)"""
    install()
    for mode in ('plain', 'iterative'):
        for kind in ('nosuch', 'failk-always'):
            for single in (False, True):
                _unbounded_one(ctx, mode, kind, single)


def reference_case(ctx):
    """directed: the failing cell is what a cell whose whole formula is a reference (=OFFSET(A1,0,0), =INDIRECT("A1"))
    shows; a reader of that cell, the retries and the repair"""
    install()
    for mode in ('plain', 'iterative'):
        for kind in ('nosuch', 'failk-always'):
            for ref, shape in itertools.product(('=OFFSET(A1,0,0)', '=INDIRECT("A1")'), ('direct', 'below-a-range')):
                bad = '=NOSUCH(1)' if kind == 'nosuch' else '=FAILK("r",0,1)'
                cells = {'A1': bad, 'B1': ref, 'C1': '=B1+1', 'D1': '=E1*2', 'E1': 5}
                fix_at, fixed = 'Sheet1!A1', 2
                if shape == 'below-a-range':
                    # the cell referred to reads the failing cell through a range: the failure arrives while the
                    # graph below the reference is being built, not while a formula runs
                    cells.update({'A1': '=SUM(F1:F3)-6', 'F1': 1, 'F2': bad, 'F3': 5})
                    fix_at = 'Sheet1!F2'
                spec = {'sheets': [['Sheet1', cells]],
                        'names': {}, 'arrays': [],
                        'calc': {'iterate': True, 'count': 50, 'delta': 1e-6} if mode == 'iterative' else None}
                case = {'kind': 'reference-cell', 'mode': mode, 'fault': kind, 'ref': ref, 'shape': shape}
                comp = wb.compile_mem(spec, plugins='vp.plugins')
                plugins.reset()
                ctx.count('cases')
                ctx.count('directed:failing-cell-under-reference-valued-cell')
                ctx.case(('reference-cell', mode, kind, ref, shape))
                key = f'{mode}/{kind}/under-reference-valued-cell' + ('' if shape == 'direct' else '/below-a-range')
                r = call(comp.evaluate, 'Sheet1!C1')
                if r[0] != 'pycel':
                    ctx.violation(f'first-failure-is-not-a-pycel-error/{key}', f'evaluate(C1) gives {r!r} ({ref})', case)
                    continue
                ctx.count('faults_raised')
                ok = True
                for target in ('Sheet1!B1', 'Sheet1!C1', 'Sheet1!A1', 'Sheet1!B1'):
                    r = call(comp.evaluate, target)
                    ctx.count('retries')
                    if r[0] != 'pycel':
                        ctx.violation(('retry-returns-a-value/' if r[0] == 'v' else 'retry-raises-a-bare-exception/') +
                                      key, f'retry evaluate({target!r}) gives {r!r}; B1 is {ref} and A1 fails', case)
                        ok = False
                        break
                if not ok:
                    continue
                r = call(comp.evaluate, 'Sheet1!D1')
                ctx.count('unrelated_compares')
                if r != ('v', 10):
                    ctx.violation(f'unrelated-cell-differs/{key}', f'evaluate(D1) = {r!r}, expected 10', case)
                    continue
                comp.set_value(fix_at, fixed)
                ctx.count('repairs')
                if ref.startswith('=INDIRECT') and mode == 'plain':
                    # (a reference given as text is no precedent in pycel's graph: B1 is only followed when iterating)
                    continue
                for target, want in (('Sheet1!B1', 2), ('Sheet1!C1', 3)):
                    r = call(comp.evaluate, target)
                    ctx.count('repair_compares')
                    if r != ('v', want):
                        ctx.violation(f'after-repair-differs/dependant/{key}',
                                      f'after set_value({fix_at}, 2) evaluate({target!r}) = {r!r}, expected {want} ({ref})', case)
                        break


def recursion_case(ctx):
    """directed: an evaluation that runs out of stack (a long chain under a low recursion limit) fails; with room again
    the same call gives the value of a fresh model, in plain and in iterative mode"""
    import sys
    import traceback
    n = 150
    cells = {'A1': 1}
    for i in range(2, n + 1):
        cells[f'A{i}'] = f'=A{i - 1}+1'
    for mode in ('plain', 'iterative'):
        spec = {'sheets': [['Sheet1', cells]], 'names': {}, 'arrays': [],
                'calc': {'iterate': True, 'count': 20, 'delta': 1e-6} if mode == 'iterative' else None}
        case = {'kind': 'recursion', 'mode': mode}
        comp = wb.compile_mem(spec)
        top = f'Sheet1!A{n}'
        old = sys.getrecursionlimit()
        try:
            sys.setrecursionlimit(max(old, 20000))
            first = call(comp.evaluate, top)
            comp.set_value('Sheet1!A1', 11)
            sys.setrecursionlimit(len(traceback.extract_stack()) + 250)
            short = call(comp.evaluate, top)
            sys.setrecursionlimit(max(old, 20000))
            again = call(comp.evaluate, top)
        finally:
            sys.setrecursionlimit(old)
        ctx.count('directed:out-of-stack')
        ctx.case(('recursion', mode))
        if first != ('v', n):
            ctx.violation(f'recursion-case-first-evaluation/{mode}', f'A{n} = {first!r}, expected {n}', case)
        elif short[0] == 'v' and short[1] != n + 10:
            ctx.violation(f'value-after-running-out-of-stack/{mode}', f'under a low recursion limit A{n} = {short!r}', case)
        elif again != ('v', n + 10):
            ctx.violation(f'value-after-running-out-of-stack/{mode}',
                          f'evaluate(A{n}) ran out of stack once ({short!r}); with room again it gives {again!r}, a '
                          f'fresh model gives {n + 10}', case)
        elif short[0] != 'v':
            ctx.count('out_of_stack_failures_observed')


def _unbounded_one(ctx, mode, kind, single):
    bad_formula = '=NOSUCH(1)' if kind == 'nosuch' else '=FAILK("u",0,1)'
    src = {'A1': bad_formula, 'B1': 5} if single else {'A1': 1, 'A2': bad_formula, 'A3': 3, 'B1': 5, 'B2': 6}
    failing = 'Src!A1' if single else 'Src!A2'
    spec = {'sheets': [['Sheet1', {'B1': '=SUM(Src!A:A)', 'C1': '=B1+1', 'D1': '=Src!B1*2'}], ['Src', src]],
            'names': {}, 'arrays': [],
            'calc': {'iterate': True, 'count': 50, 'delta': 1e-6} if mode == 'iterative' else None}
    case = {'kind': 'unbounded', 'mode': mode, 'fault': kind, 'single': single}
    comp = wb.compile_mem(spec, plugins='vp.plugins')
    plugins.reset()
    ctx.count('cases')
    ctx.count('directed:failing-cell-under-unbounded-reference')
    ctx.case(('unbounded', mode, kind, single))
    key = f'{mode}/{kind}/under-unbounded-reference' + ('-clipped-to-one-cell' if single else '')
    r = call(comp.evaluate, 'Sheet1!C1')
    if r[0] != 'pycel':
        ctx.violation(f'first-failure-is-not-a-pycel-error/{key}', f'evaluate(C1) gives {r!r}', case)
        return
    ctx.count('faults_raised')
    for target in ('Sheet1!C1', 'Sheet1!B1', 'Src!A:A', failing) + (() if single else ('Src!A1:A3',)):
        r = call(comp.evaluate, target)
        ctx.count('retries')
        if r[0] != 'pycel':
            ctx.violation(('retry-returns-a-value/' if r[0] == 'v' else 'retry-raises-a-bare-exception/') + key,
                          f'retry evaluate({target!r}) gives {r!r}; it reads the failing cell {failing}', case)
            return
    r = call(comp.evaluate, 'Sheet1!D1')
    ctx.count('unrelated_compares')
    if r != ('v', 10):
        ctx.violation(f'unrelated-cell-differs/{key}', f'evaluate(D1) = {r!r}, expected 10', case)
        return
    comp.set_value(failing, 2)
    ctx.count('repairs')
    wants = (('Sheet1!C1', 3), ('Sheet1!B1', 2), ('Src!A:A', 2)) if single else \
        (('Sheet1!C1', 7), ('Sheet1!B1', 6), ('Src!A:A', (1, 2, 3)))
    for target, want in wants:
        r = call(comp.evaluate, target)
        ctx.count('repair_compares')
        if r[0] != 'v' or not wb.same(r[1], want):
            ctx.violation(f'after-repair-differs/dependant/{key}',
                          f'after set_value({failing}, 2) evaluate({target!r}) = {r!r}, expected {want!r}', case)
            return


def repeated_failures(ctx):
    """directed: the same failing cell below a chain of 18 formulas asked for forty times on one model (a driver that
    polls): every attempt fails with a pycel error, cells beside the chain keep their values, and after the failing
    cell is overwritten everything is as in a fresh model"""
    install()
    for mode in ('plain', 'iterative'):
        for kind in ('nosuch', 'failk-always'):
            cells = {'A1': 2, 'A2': wrap('=A1*2', kind, 'f'), 'Z1': '=A1+40', 'Z2': '=Z1&"u"'}
            for i in range(3, 21):
                cells[f'A{i}'] = f'=A{i - 1}+1'
            spec = {'sheets': [['Sheet1', cells]], 'names': {}, 'arrays': [],
                    'calc': {'iterate': True, 'count': 100, 'delta': 1e-9} if mode == 'iterative' else None}
            plugins.reset()
            comp = wb.compile_mem(spec, plugins='vp.plugins')
            case = {'kind': 'repeated-failures'}
            ctx.count('directed:repeated_failures')
            ctx.case(('repeated-failures', mode, kind))
            for attempt_ in range(40):
                r = call(comp.evaluate, 'Sheet1!A20' if attempt_ % 3 else 'Sheet1!A12')
                if r[0] != 'pycel':
                    ctx.violation(f'retry-{"returns-a-value" if r[0] == "v" else "raises-a-bare-exception"}/{mode}/{kind}/many-retries',
                                  f'attempt {attempt_ + 1} of 40 to evaluate the top of an 18 cell chain over a failing cell gives {r!r}', case)
                    break
                if attempt_ % 10 == 9:
                    z = call(comp.evaluate, 'Sheet1!Z2')
                    if z != ('v', '42u'):
                        ctx.violation(f'unrelated-cell-differs/{mode}/{kind}/many-retries',
                                      f'after {attempt_ + 1} failed attempts evaluate(Z2) = {z!r}, expected 42u', case)
                        break
            else:
                call(comp.set_value, 'Sheet1!A2', 10)
                top, z = call(comp.evaluate, 'Sheet1!A20'), call(comp.evaluate, 'Sheet1!Z2')
                if top != ('v', 28) or z != ('v', '42u'):
                    ctx.violation(f'after-repair-differs/dependant/{mode}/{kind}/many-retries',
                                  f'after 40 failed attempts and set_value(A2, 10): A20 = {top!r} (expected 28), Z2 = {z!r}', case)


def run(ctx):
    if ctx.shard == 1 % ctx.nshards:
        repeated_failures(ctx)
    if ctx.shard == ctx.nshards - 1:
        # the repository's own test-suite as one more workload under the monitors (vp.suitemon)
        from vp import suiteload
        suiteload.run_suite(ctx)
    rng = ctx.rng
    kinds = ['nosuch', 'failk-always', 'failk-once', 'nosuch-keyword', 'failname', 'nosuch-constant', 'nosuch-braces',
             'no-parse', 'missing-sheet']
    if ctx.shard == 0:
        unbounded_case(ctx)
        same_value_case(ctx)
        reference_case(ctx)
        recursion_case(ctx)
    # faults injected into the workbooks shipped with the repository
    realbooks.run_cases(ctx, realbooks.c09_case, realbooks.acyclic_books(), 10 if ctx.quick else 100, fraction=0.25)
    i = j = 0
    while not ctx.out_of_time():
        i += 1
        if i % 6 == 0:
            spec, info = wbgen.contraction(rng, q=0.5)
            one_cycle(ctx, spec, info, rng.choice(kinds), rng.randrange(len(info['cells'])))
            continue
        spec, meta = wbgen.dag(rng, arrays=(i % 4 == 0))
        if any(o[0] == 'x' for o in wb.fresh_values(spec).values()):
            ctx.count('skipped_workbooks_with_failing_cells')
            continue
        j += 1
        kind = kinds[j % len(kinds)]
        plan = plan_case(rng, spec, meta, kind)
        if plan is None:
            continue
        for mode in ('plain', 'iterative'):
            one_case(ctx, plan, mode, rng.choice(['cell', 'dependant', 'probe']))


def replay(ctx, case):
    if case.get('kind') == 'suite':
        from vp import suiteload
        suiteload.run_suite(ctx)
        return
    if case.get('kind') == 'repeated-failures':
        repeated_failures(ctx)
        return
    if case.get('kind') == 'recursion':
        recursion_case(ctx)
        return
    if case.get('kind') == 'reference-cell':
        reference_case(ctx)
        return
    if case.get('kind') == 'same-value':
        same_value_case(ctx)
        return
    if case.get('kind') == 'real-book':
        realbooks.c09_case(ctx, case['book'], case['case_seed'])
        return
    if case['kind'] == 'unbounded':
        unbounded_case(ctx)
    elif case['kind'] == 'cycle':
        one_cycle(ctx, case['spec'], case['info'], case['fault'], case['idx'])
    else:
        one_case(ctx, case['plan'], case['mode'], case['first'])
