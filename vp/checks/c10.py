"""C10 - operators are total and follow Excel's coercion, error and ordering rules.

Every `a op b` over the full value pool squared (12 binary operators, plus prefix minus and
postfix % over the pool) is pushed through pycel on five routes

  fixup      the operator function a compiled formula calls (vp.lib.operator_fixup)
  ctx-cells  ExcelFormula('=A1 op B1') evaluated by ExcelFormula.build_eval_context, operands
             delivered by the cell callback
  ctx-lit    ExcelFormula('=<literal a> op <literal b>') - the literal spelling
  wb-cells   a real in-memory workbook holding A1, B1 and the 14 formulas, ExcelCompiler.evaluate
  wb-lit     the literal spelling in a one-cell workbook (a sample)

and every observed result (value, type or exception) is judged by vp.refmodel.operators (written
from the statement).  On top of the pointwise oracle the algebraic laws of the order are checked
on what pycel answered: exactly one of <, =, > ; <>, <=, >= are the complements; a<b iff b>a;
transitivity of < and = and <= over all triples of the non-blank, non-error pool values.
The thorough tier adds sampled numbers / numeric spellings / strings (pairs for the pointwise
oracle, triples for the laws).

Deliberately permissive (details in vp/refmodel/operators.py): int vs float, 0^0, which of
#NUM!/#DIV/0! marks a non-real or overflowing power, odd real roots of negative bases, huge exact
integers, the spelling of non-integral numbers inside &, text that is numeric only in some locales
("1,000", "$3"), direction of comparisons between texts containing non-alphanumerics.  Text made
of letters only ("TRUE", "inf", "nan") is *not* numeric text: the statement says other text is
#VALUE!.  A negative literal as the base of ^ ("=-8^2") is not spelled as a literal: how that text
parses is the subject of C02, not of this check.
"""
import math

from vp import lib
from vp.refmodel import operators as ref

PROP = 'C10'
LEVEL = 'exploration'
ERR = list(ref.ERRORS)

NUMBERS = [0, 1, -1, 2, 3.0, -8, 64, 0.5, -2.5, -0.0, 1e-3, 999999.5, -1000000,
           # small numbers with all their digits (what & shows must read back as the same number)
           1.23456789012e-9, 1 / 81000]
TEXTS = ['', 'abc', 'ABC', 'Abd', 'a_c', '3', ' 3 ', '1e2', '-0.5', 'TRUE', '\u00df', 'ss',
         # numbers written with more than 32 characters
         '3.14159265358979323846264338327950288', ' ' * 20 + '12' + ' ' * 20]     # (sharp s: lower() and casefold() differ)
POOL = NUMBERS + TEXTS + [True, False, None] + ERR
# texts on which only the cheap routes run: python-only / locale-only numeric spellings
HOSTILE_TEXT = ['inf', 'nan', '-Infinity', 'false', '1_0', '1_000', '1_0.5', '0x10', '1,000', '$3', '3%', '1/2',
                '１２', '+3', '3.', '.5', '1E+2', '- 3', '3 4', '1e', 'e1',
                # characters that str.isdigit() accepts and int() rejects, digits of another script
                '\u00b2', '\u2460', '\u00b3\u00b9', '\u0663', '\u00bd',
                # text that means something to str.format / % / a regular expression
                '{x}', 'a{', '}', '{}', '{0}', '%s', '%(a)s', '\\1', '$1']
ORDER_POOL = [v for v in POOL if ref.kind(v) not in ('error', 'blank')]
TRIPLE_POOL = [0, -1, 2, 0.5, -0.0, 3.0, '', 'abc', 'ABC', 'Abd', 'a_c', '3', ' 3 ', True, False, '\u00df', 'ss', 'SS']

PY_OP = {'+': 'Add', '-': 'Sub', '*': 'Mult', '/': 'Div', '^': 'Pow', '&': 'BitAnd',
         '=': 'Eq', '<>': 'NotEq', '<': 'Lt', '<=': 'LtE', '>': 'Gt', '>=': 'GtE'}
GROUP = {'+': 'arith', '-': 'arith', '*': 'arith', '/': 'arith', '^': 'power', '&': 'concat',
         'neg': 'unary-minus', 'pct': 'percent'}
GROUP.update({op: 'compare' for op in ref.COMPARE})
EMPTY = '#EMPTY!'      # what a compiled formula passes as the left operand of a prefix minus


class SubFloat(float):
    """a float of another class (like ruamel.yaml's ScalarFloat, which a loaded model holds)"""


def exotic_numbers():
    import numpy as np
    return [np.float64(3.0), np.float64(2.5), np.float64(-0.5), np.float64(0.0), np.float64(0.00001),
            SubFloat(3.0), SubFloat(2.5), SubFloat(100000.0)]


def ops_for(a, b):
    """the binary operators applied to the pool pair (a, b): all twelve, ^ only inside the
    magnitude bounds (|exponent| <= 64)"""
    return [op for op in ref.BINARY if ref.in_bounds(op, a, b)]


N_PAIR_CASES = sum(len(ops_for(a, b)) for a in POOL for b in POOL) + len(POOL) * 2
RULE = (f'exhaustive: every a op b for the 12 binary operators over the {len(POOL)}-value pool squared '
        '(ints, integral/fractional floats, both signs, -0.0, numeric text incl. " 3 ", "1e2", "-0.5", '
        'other text, "TRUE" as text, empty text, TRUE/FALSE, blank, the seven error codes) plus prefix '
        'minus and postfix % over the pool, each on up to five routes (operator function; '
        'ExcelFormula+build_eval_context with cell operands and with literal spellings; a real '
        'workbook with cells A1,B1 and, sampled, with literals); order laws (trichotomy, complements, '
        'antisymmetry on all pairs; transitivity on all triples of the non-blank non-error values); '
        'thorough: + sampled numbers (|x|<=1e6, exponents<=64), numeric spellings and strings. '
        'A case = one (route, op, a, b) judged by the reference model or one law instance; '
        'non-trivial = the model constrains the result; exhaustive cases are distinct by construction, '
        'sampled ones by (route, op, repr(a), repr(b)).')
BUDGET = {'quick': 6, 'thorough': 90}
EXHAUSTIVE = {'quick': True, 'thorough': True}
_NP, _NO = len(POOL), len(ORDER_POOL)
FLOORS = {
    'quick': {
        'route:fixup': N_PAIR_CASES, 'route:ctx-cells': N_PAIR_CASES, 'route:wb-cells': N_PAIR_CASES,
        'route:ctx-lit': 8000, 'route:wb-lit': 300,
        'law:trichotomy': (_NP - 7) ** 2, 'law:complement': (_NP - 7) ** 2,
        'law:transitivity-triples': _NO ** 3, 'error-operand-cases': 5000,
        'hostile-text-cases': 2000, 'sampled_pairs': 2000,
    },
    'thorough': {
        'route:fixup': N_PAIR_CASES + 400000, 'route:ctx-cells': N_PAIR_CASES,
        'route:wb-cells': N_PAIR_CASES, 'route:ctx-lit': 8000, 'route:wb-lit': 2000,
        'law:transitivity-triples': _NO ** 3 + 5000, 'sampled_pairs': 400000,
        'sampled:power': 20000,
    },
}
ASSUMPTIONS = [
    'operands are scalars; magnitudes |x| <= 1e6 and |exponent| <= 64 (the statement says moderate magnitude)',
    'a text without any digit is not numeric text; a plain decimal/scientific spelling with optional '
    'sign and surrounding blanks is; anything else containing a digit may go either way',
    'blank takes part in trichotomy/complement checks but not in transitivity (it is the neutral value '
    'of the *other* side, so it equals 0, "" and FALSE at once)',
]


# --------------------------------------------------------------------------- routes into pycel

def via_fixup(op, a, b=None):
    f = lib.operator_fixup()
    try:
        if op == 'neg':
            return ('v', f(EMPTY, 'USub', a))
        if op == 'pct':
            return ('v', f(a, 'Div', 100))
        return ('v', f(a, PY_OP[op], b))
    except Exception as exc:  # noqa  (an exception here is a witness)
        return ('x', f'{type(exc).__name__}: {str(exc)[:120]}')


def formula_text(op, la, lb=None):
    if op == 'neg':
        return f'=-{la}'
    if op == 'pct':
        return f'={la}%'
    return f'={la}{op}{lb}'


class CtxRoute:
    """ExcelFormula -> build_eval_context, cells served from self.env"""

    def __init__(self):
        from pycel.excelformula import ExcelFormula
        self.cls = ExcelFormula
        self.env = {}
        self.ev = ExcelFormula.build_eval_context(lambda addr: self.env.get(str(addr)),
                                                  lambda addr: lib._no_cell(addr))
        self.cache = {}

    def run(self, text, env=None, cache=False):
        self.env = env or {}
        try:
            if cache:
                if text not in self.cache:
                    self.cache[text] = self.cls(text)
                formula = self.cache[text]
            else:
                formula = self.cls(text)
            return ('v', self.ev(formula))
        except Exception as exc:  # noqa
            return ('x', _exc_text(exc))


def _exc_text(exc):
    """class of the escaping exception + the innermost 'SomeError: ...' line of its message"""
    lines = str(exc).strip().splitlines()
    inner = [ln for ln in lines if ln.split(':')[0].endswith(('Error', 'Exception'))
             and ' ' not in ln.split(':')[0]]
    return f'{type(exc).__name__}: {(inner[-1] if inner else (lines[-1] if lines else ""))[:140]}'


_CTX = []


def ctx_route():
    if not _CTX:
        _CTX.append(CtxRoute())
    return _CTX[0]


def literal_ok(op, a, b=None):
    """can the operands be spelled as literals without involving another property?"""
    for v in (a,) if op in ref.UNARY else (a, b):
        if v is None:
            return False
        if isinstance(v, str) and v not in ref.ERRORS and not all(
                ord(c) >= 32 and c not in '\\\x7f' for c in v):
            return False          # backslash / control characters in a literal: C02's subject
    if op == '^' and ref.kind(a) == 'number' and (a < 0 or (a == 0 and math.copysign(1, a) < 0)):
        return False          # "=-8^2": parsing of a prefix minus under ^ is C02's subject
    return True


def cell_value(v):
    """how an operand is put into a worksheet cell (openpyxl cannot hold an empty string)"""
    return '=""' if v == '' and isinstance(v, str) else v


def cell_ok(v):
    if isinstance(v, str) and v not in ref.ERRORS:
        return not v.startswith('=') and all(ord(c) >= 32 or c == '\t' for c in v)
    return True


# --------------------------------------------------------------------------- judging

def operand_class(v):
    k = ref.kind(v)
    if k == 'text':
        st, _ = ref.text_number(v)
        if st == 'num':
            return 'numeric-text'
        if v == '':
            return 'empty-text'
        up = v.strip().upper()
        if up in ('TRUE', 'FALSE'):
            return 'text-TRUE-FALSE'
        if up.lstrip('+-') in ('INF', 'INFINITY', 'NAN') or (st == 'maybe' and _overflowing_spelling(v)):
            return 'text-inf-nan'       # spellings float() reads as a non-finite number
        return 'text' if st == 'not' else 'locale-numeric-text'
    if k == 'number':
        return 'number'
    return k


def _overflowing_spelling(text):
    """a plain numeric spelling beyond the double range ("1E999")"""
    try:
        return not math.isfinite(float(text)) and any(c.isdigit() for c in text)
    except ValueError:
        return False


def classify(op, a, b, got, exp):
    """mechanism key: a predicate over operator group, operand classes and the kind of failure"""
    g = GROUP[op]
    operands = (a,) if op in ref.UNARY else (a, b)
    classes = [operand_class(v) for v in operands]
    if got[0] == 'x':
        if exp.branch == 'power/overflow':
            return 'power/overflow-raises'
        if exp.branch == 'power/negative-base-fractional-exponent':
            return 'power/complex-result'      # OverflowError out of *complex* exponentiation
        if exp.branch.startswith('power/'):
            return f'power/raises:{exp.branch[6:]}'
        return f'{g}/raises'
    obs = got[1]
    tp = ref.result_type_problem(obs)
    if tp is not None:
        if exp.branch == 'power/negative-base-fractional-exponent' and tp == 'complex':
            return 'power/complex-result'
        if tp in ('inf', 'nan'):
            for c in classes:
                if c == 'text-inf-nan':
                    return 'coercion/text-inf-nan-as-number'
            return f'{g}/nonfinite-result'
        return f'{g}/result-type-{tp}'
    if exp.branch.startswith('error-operand/'):
        if all(c == 'error' for c in classes) and len(classes) == 2 and obs == b and a != b:
            return 'error-operand/right-before-left'
        return f'error-operand/not-returned-unchanged:{g}'
    if exp.branch == 'arith/non-numeric-text':
        for c in ('text-TRUE-FALSE', 'text-inf-nan', 'empty-text', 'text'):
            if c in classes:
                return f'coercion/{c}-as-number'
    if exp.branch.startswith(('arith/', 'power/')) and obs == ref.VALUE:
        for c in ('numeric-text', 'logical', 'blank'):
            if c in classes:
                return f'coercion/{c}-rejected'
    if exp.branch == 'arith/div-by-zero':
        return 'arith/zero-divisor-without-DIV0'
    if exp.branch.startswith('power/'):
        return f'power/wrong-result:{exp.branch[6:]}'
    if g == 'concat':
        bad = []
        if isinstance(obs, str):
            # an operand is blamed when no prefix (suffix) of the result is a rendering of it
            if not any(ref.render_accepts(obs[:i], a) for i in range(len(obs) + 1)):
                bad.append(classes[0] if classes[0] != 'number' else _number_class(a))
            if not any(ref.render_accepts(obs[i:], b) for i in range(len(obs) + 1)):
                bad.append(classes[1] if classes[1] != 'number' else _number_class(b))
        return 'concat/rendering-of-' + ('+'.join(sorted(set(bad))) if bad else 'operands')
    if g == 'compare':
        ks = sorted((ref.kind(a), ref.kind(b)))
        return f'compare/wrong-result:{ks[0]}-vs-{ks[1]}'
    return f'{g}/wrong-value'


def _number_class(x):
    if x == 0 and isinstance(x, float) and math.copysign(1, x) < 0:
        return 'negative-zero'
    if isinstance(x, float) and x == int(x):
        return 'integral-float'
    if isinstance(x, float):
        return 'fractional-float'
    return 'integer'


def show(got):
    if got[0] == 'x':
        return f'raised {got[1]}'
    v = got[1]
    if isinstance(v, int) and not isinstance(v, bool) and abs(v) > 10 ** 30:
        return f'<int of about {int(abs(v).bit_length() * 0.30103) + 1} digits>'
    return f'{v!r} ({type(v).__name__})'


def plain(x):
    """a number of a float subclass as the float it is (a logical of numpy's own class is not a logical of the
    workbook: '&' renders it as 'False', not as 'FALSE')"""
    if isinstance(x, float) and type(x) is not float:
        return float(x)
    return x


def type_tag(x):
    return None if type(x) in (int, float, bool, str, type(None)) else f'{type(x).__module__}.{type(x).__name__}'


def retag(x, tag):
    if tag == 'numpy.float64':
        import numpy as np
        return np.float64(x)
    if tag and tag.endswith('SubFloat'):
        return SubFloat(x)
    return x


def judge(ctx, route, op, a, b, got, text=None, sampled=False, report=True):
    """one observed result against the model; returns the mechanism key or None"""
    tags = (type_tag(a), type_tag(b))
    if any(tags):
        # operands of a float subclass are the numbers they hold; a result of such a class likewise
        a, b = plain(a), plain(b)
        if got[0] == 'v':
            got = ('v', plain(got[1]))
    exp = ref.expect(op, a, b)
    ctx.count('route:' + route)
    ctx.count('op:' + op)
    ctx.count('branch:' + exp.branch.split(':')[0])
    if exp.branch.startswith('error-operand/'):
        ctx.count('error-operand-cases')
    sig = (route, op, repr(a), repr(b)) if sampled else None
    ctx.case(sig, nontrivial=exp.constrains)
    if got[0] == 'v' and exp.accepts(got[1]):
        if got[0] == 'v' and ref.kind(got[1]) == 'error' and isinstance(got[1], str):
            ctx.count('result:error-value')
        return None
    key = classify(op, a, b, got, exp)
    if report:
        spelled = text or (f'-{a!r}' if op == 'neg' else f'{a!r}%' if op == 'pct' else f'{a!r} {op} {b!r}')
        ctx.violation(key, f'[{route}] {spelled} -> {show(got)}; the statement allows: {exp.describe()}',
                      {'kind': 'pair', 'route': route, 'op': op, 'a': a, 'b': b, 'text': text, 'types': tags})
    return key


def report_route(ctx, route, op, a, b, got, text, base_key, sampled=False):
    """judge a formula-route result.  Failing with the same key as the operator function it is the
    same mechanism (counted, not reported twice); failing alone it gets '/formula-route-only'."""
    key = judge(ctx, route, op, a, b, got, text=text, sampled=sampled, report=False)
    if key is None:
        if base_key is not None:
            ctx.count('formula-route-masks-operator-failure')
        return None
    if key == base_key:
        ctx.count('same-failure-on-route:' + route)
        return key
    exp = ref.expect(op, a, b)
    key2 = key + '/formula-route-only' if base_key is None else key
    ctx.violation(key2, f'[{route}] {text} with a={a!r}, b={b!r} -> {show(got)}; the statement '
                  f'allows: {exp.describe()}', {'kind': 'pair', 'route': route, 'op': op, 'a': a,
                                                'b': b, 'text': text})
    return key2


def run_routes(ctx, op, a, b, routes, sampled=False):
    """push one operand pair through the operator function and the requested formula routes;
    returns the operator function's key"""
    base_key = judge(ctx, 'fixup', op, a, b, via_fixup(op, a, b), sampled=sampled)
    for route in routes:
        got, text = run_route(route, op, a, b)
        if got is None:
            ctx.count('skipped:' + route + ':' + text)
            continue
        report_route(ctx, route, op, a, b, got, text, base_key, sampled=sampled)
    return base_key


def run_route(route, op, a, b):
    """(outcome, formula text) or (None, reason) when the operands cannot take that route"""
    if route == 'ctx-cells':
        text = formula_text(op, 'A1', 'B1')
        return ctx_route().run(text, {'A1': a, 'B1': b}, cache=True), text
    if route == 'ctx-lit':
        if not literal_ok(op, a, b):
            return None, 'no-literal-spelling'
        text = formula_text(op, lib.excel_literal(a), None if b is None else lib.excel_literal(b))
        return ctx_route().run(text), text
    if route == 'wb-cells':
        if not (cell_ok(a) and cell_ok(b)):
            return None, 'not-a-cell-value'
        text = formula_text(op, 'A1', 'B1')
        return lib.eval_formula(text, {'A1': cell_value(a), 'B1': cell_value(b)}), text
    if route == 'wb-lit':
        if not literal_ok(op, a, b):
            return None, 'no-literal-spelling'
        text = formula_text(op, lib.excel_literal(a), None if b is None else lib.excel_literal(b))
        return lib.eval_formula(text), text
    raise ValueError(route)


def wb_cells_all_ops(ctx, a, b, ops):
    """one real workbook with A1, B1 and one formula cell per binary operator"""
    from vp import wb
    cells = {'A1': cell_value(a), 'B1': cell_value(b)}
    targets = {}
    for i, op in enumerate(ops):
        targets[op] = f'D{i + 1}'
        cells[targets[op]] = formula_text(op, 'A1', 'B1')
    spec = {'sheets': [['Sheet1', cells]], 'names': {}, 'arrays': [], 'calc': None}
    comp = wb.compile_mem(spec)
    out = {}
    for op, coord in targets.items():
        try:
            out[op] = ('v', comp.evaluate(f'Sheet1!{coord}'))
        except Exception as exc:  # noqa
            out[op] = ('x', _exc_text(exc))
    return out


# --------------------------------------------------------------------------- the order laws

def law_violation(ctx, law, values, detail):
    ctx.violation(f'order/{law}', f'{law}: {detail}', {'kind': 'law', 'law': law, 'values': list(values)})


def check_pair_laws(ctx, a, b, r, rev):
    """r = {op: outcome of a op b}, rev = {op: outcome of b op a}; all outcomes ('v', x)"""
    vals = {op: r[op][1] if r[op][0] == 'v' else r[op] for op in r}
    if not all(type(v) is bool for v in vals.values()):
        ctx.count('law:skipped-non-logical-answer')
        return
    ctx.count('law:trichotomy')
    ctx.case(None)
    if [vals['<'], vals['='], vals['>']].count(True) != 1:
        law_violation(ctx, 'trichotomy', (a, b), f'for a={a!r}, b={b!r}: a<b is {vals["<"]}, a=b is '
                      f'{vals["="]}, a>b is {vals[">"]} (exactly one must hold)')
    ctx.count('law:complement')
    ctx.case(None)
    bad = [f'{x} is {vals[x]} but {y} is {vals[y]}' for x, y in (('<>', '='), ('<=', '>'), ('>=', '<'))
           if vals[x] == vals[y]]
    if bad:
        law_violation(ctx, 'complement', (a, b), f'for a={a!r}, b={b!r}: ' + '; '.join(bad))
    rv = {op: rev[op][1] if rev[op][0] == 'v' else rev[op] for op in rev}
    if all(type(v) is bool for v in rv.values()):
        ctx.count('law:antisymmetry')
        ctx.case(None)
        if vals['<'] != rv['>'] or vals['='] != rv['='] or vals['>'] != rv['<']:
            law_violation(ctx, 'antisymmetry', (a, b), f'a={a!r}, b={b!r}: (a<b, a=b, a>b) = '
                          f'({vals["<"]}, {vals["="]}, {vals[">"]}) but (b>a, b=a, b<a) = '
                          f'({rv[">"]}, {rv["="]}, {rv["<"]})')


def check_triple(ctx, vals3, le, eq, lt):
    """transitivity on pycel's own answers: le/eq/lt are callables (x, y) -> bool | None"""
    a, b, c = vals3
    ctx.count('law:transitivity-triples')
    ctx.case(None)
    for name, rel in (('<=', le), ('=', eq), ('<', lt)):
        ab, bc, ac = rel(0, 1), rel(1, 2), rel(0, 2)
        if ab is True and bc is True:
            ctx.count('law:transitivity-premise-holds')
            if ac is not True:
                law_violation(ctx, 'transitivity', vals3, f'{a!r} {name} {b!r} and {b!r} {name} {c!r} '
                              f'hold but {a!r} {name} {c!r} is {ac!r}')


def laws_over(ctx, values, how, shard_pairs=True):
    n = len(values)
    table = {}
    for i in range(n):
        for j in range(n):
            table[i, j] = {op: how(op, values[i], values[j]) for op in ref.COMPARE}

    def truth(op, i, j):
        r = table[i, j][op]
        return r[1] if r[0] == 'v' and type(r[1]) is bool else None
    k = 0
    for i in range(n):
        for j in range(n):
            k += 1
            if shard_pairs and not ctx.mine(k):
                continue
            check_pair_laws(ctx, values[i], values[j], table[i, j], table[j, i])
    solid = [i for i in range(n) if values[i] is not None]
    k = 0
    for i in solid:
        for j in solid:
            for m in solid:
                k += 1
                if shard_pairs and not ctx.mine(k):
                    continue
                idx = (i, j, m)
                check_triple(ctx, [values[x] for x in idx],
                             lambda p, q: truth('<=', idx[p], idx[q]),
                             lambda p, q: truth('=', idx[p], idx[q]),
                             lambda p, q: truth('<', idx[p], idx[q]))


# --------------------------------------------------------------------------- sampled tier

_ALPHA = 'abcxyzABCXYZ 019.-+eE_$%,/éßİ日'


def sample_number(rng):
    r = rng.random()
    if r < 0.25:
        return rng.randint(-20, 20)
    if r < 0.4:
        return rng.randint(-1000000, 1000000)
    if r < 0.6:
        return rng.randint(-64 * 8, 64 * 8) / 8          # dyadic
    if r < 0.8:
        return round(rng.uniform(-1000, 1000), rng.randint(1, 6))
    if r < 0.9:
        return rng.choice([1, -1]) * 10.0 ** rng.uniform(-6, 6)
    return rng.choice([0, -0.0, 0.0, 1, -1, 1e6, -1e6, 999999.5, 1e-6, 0.1, 64, -64, 0.5, -0.5, 1 / 3])


def sample_numeric_text(rng):
    x = sample_number(rng)
    r = rng.random()
    if r < 0.4:
        s = repr(x)
    elif r < 0.6:
        s = f'{x:.3e}'
    elif r < 0.8:
        s = f'{x:.4f}'
    else:
        s = ('%E' % x) if rng.random() < 0.5 else str(x).replace('0.', '.', 1)
    s = ' ' * rng.randint(0, 2) + s + ' ' * rng.randint(0, 2)
    return s


def sample_text(rng):
    return ''.join(rng.choice(_ALPHA) for _ in range(rng.randint(0, 5)))


def sample_value(rng, numeric_bias=0.5):
    r = rng.random()
    if r < numeric_bias:
        return sample_number(rng)
    if r < numeric_bias + 0.15:
        return sample_numeric_text(rng)
    if r < numeric_bias + 0.30:
        return sample_text(rng)
    return rng.choice(POOL + HOSTILE_TEXT)


def sample_exponent(rng):
    r = rng.random()
    if r < 0.5:
        return rng.randint(-64, 64)
    if r < 0.8:
        return rng.choice([0.5, -0.5, 1.5, 2.5, 1 / 3, -1 / 3, 0.2, 0.25, 63.5, -63.5, 1e-3])
    return round(rng.uniform(-64, 64), 2)


MIN_SAMPLED = {'quick': 3000, 'thorough': 100000}      # per shard, whatever the clock says


def sampled(ctx):
    rng = ctx.rng
    n = 0
    while n < MIN_SAMPLED[ctx.tier] or not ctx.out_of_time():
        n += 1
        op = rng.choice(ref.OPERATORS)
        a = sample_value(rng, 0.75 if op == '^' else 0.5)
        b = None
        if op == '^':
            b = sample_exponent(rng) if rng.random() < 0.85 else sample_value(rng)
            ctx.count('sampled:power')
        elif op in ref.BINARY:
            b = sample_value(rng)
        if not ref.in_bounds(op, a, b):
            ctx.count('sampled:resampled-out-of-bounds')
            n -= 1
            continue
        ctx.count('sampled_pairs')
        routes = ()
        if n % 100 == 0:
            routes = ('ctx-cells', 'ctx-lit')
        if n % 400 == 0:
            routes = ('ctx-cells', 'ctx-lit', 'wb-cells', 'wb-lit')
        run_routes(ctx, op, a, b, routes, sampled=True)
        if n % 50 == 0:
            vals = [sample_value(rng, 0.4) for _ in range(3)]
            vals = [v for v in vals if ref.kind(v) not in ('error', 'blank')]
            if len(vals) == 3:
                laws_over(ctx, vals, lambda o, x, y: via_fixup(o, x, y), shard_pairs=False)
                ctx.count('sampled_law_triples')


# --------------------------------------------------------------------------- run / replay

def run(ctx):
    # 1. exhaustive: pool x pool x 12 operators, pool x 2 unary operators
    k = 0
    for a in POOL:
        for b in POOL:
            k += 1
            if not ctx.mine(k):
                continue
            lit_routes = ('ctx-cells', 'ctx-lit') + (('wb-lit',) if k % 8 == 0 or not ctx.quick else ())
            ops = ops_for(a, b)
            ctx.count('skipped:exponent-out-of-bounds', len(ref.BINARY) - len(ops))
            wb_out = wb_cells_all_ops(ctx, a, b, ops)
            for op in ops:
                base_key = run_routes(ctx, op, a, b, lit_routes)
                # the workbook answers were computed in one compile: judge them here
                report_route(ctx, 'wb-cells', op, a, b, wb_out[op], formula_text(op, 'A1', 'B1'),
                             base_key)
            if ctx.shard == 0 and k <= 3 * ctx.nshards:
                ctx.sample({'a': a, 'b': b, 'results through the operator function':
                            {op: show(via_fixup(op, a, b)) for op in ref.BINARY}})
    for i, a in enumerate(POOL):
        if ctx.mine(i):
            for op in ref.UNARY:
                run_routes(ctx, op, a, None, ('ctx-cells', 'ctx-lit', 'wb-cells', 'wb-lit'))
    # 2. hostile text spellings (cheap routes), against every pool value, both sides
    k = 0
    for t in HOSTILE_TEXT:
        for v in POOL:
            k += 1
            if not ctx.mine(k):
                continue
            for op in ref.BINARY:
                for a, b in ((t, v), (v, t)):
                    if not ref.in_bounds(op, a, b):
                        continue
                    ctx.count('hostile-text-cases')
                    run_routes(ctx, op, a, b, ('ctx-cells',) if k % 2 == 0 else ())
        if ctx.mine(k):
            for op in ref.UNARY:
                run_routes(ctx, op, t, None, ('ctx-cells',))
    # 2b. numbers that are instances of a subclass of float: what SLOPE / FORECAST return (numpy.float64), what
    #     a model loaded from yml / json holds (ruamel's ScalarFloat).  They are numbers like any other.
    k = 0
    for x in exotic_numbers():
        for v in POOL:
            k += 1
            if not ctx.mine(k):
                continue
            for op in ref.BINARY:
                for a, b in ((x, v), (v, x)):
                    if not ref.in_bounds(op, a, b):
                        continue
                    ctx.count('float-subclass-cases')
                    run_routes(ctx, op, a, b, ('ctx-cells',) if k % 3 == 0 else ())
        if ctx.mine(k):
            for op in ref.UNARY:
                run_routes(ctx, op, x, None, ())
    # 3. laws of the order on pycel's own answers, all pool values that are not errors
    order_vals = [v for v in POOL if ref.kind(v) != 'error']
    laws_over(ctx, order_vals, lambda o, x, y: via_fixup(o, x, y))
    cr = ctx_route()
    laws_over(ctx, TRIPLE_POOL + [None],
              lambda o, x, y: cr.run(formula_text(o, 'A1', 'B1'), {'A1': x, 'B1': y}, cache=True))
    # 3b. numbers a few ulp apart (0.1+0.2 vs 0.3 ...): the order laws must hold there as well
    import math
    near = []
    for x in (0.3, 3.3, 1 / 3, 1.0, 100.0, 1e6, -0.7, 2.675, 1e-7):
        near += [x, math.nextafter(x, math.inf), math.nextafter(x, -math.inf)]
    near += [0.1 + 0.2, 1.1 * 3, 0.3333333333333334]
    ctx.count('near-equal-number-values', len(near))
    laws_over(ctx, near, lambda o, x, y: via_fixup(o, x, y))
    if ctx.shard == 1 % ctx.nshards:
        law_sign_symmetry(ctx)
    # 4. sampled
    sampled(ctx)


SIGN_MAGNITUDES = [0.5, 2.5, 1 / 3, 0.1 + 0.2, 1e-3, 1e-4, 1e-5, 2.5e-5, 1.25e-7, 1e-8, 5e-9, 1e-9, 3e-10, 1e-12, 1e-7,
                   123456.789, 999999.5, 1e15, 1.5e15, 1e20]


def law_sign_symmetry(ctx):
    """the rendering of a negative number in a concatenation is '-' followed by the rendering of its magnitude,
    whichever form (plain digits, exponent) the magnitude takes - on the left and on the right of &"""
    cr = ctx_route()
    for x in SIGN_MAGNITUDES:
        for side in ('left', 'right'):
            for route in ('fixup', 'ctx-cells'):
                def cat(v):
                    a, b = (v, '|') if side == 'left' else ('|', v)
                    if route == 'fixup':
                        return via_fixup('&', a, b)
                    return cr.run(formula_text('&', 'A1', 'B1'), {'A1': a, 'B1': b}, cache=False)
                pos, neg = cat(x), cat(-x)
                ctx.count('sign_symmetry_of_renderings')
                ctx.case(('sign-symmetry', x, side, route))
                want = None
                if pos[0] == 'v' and isinstance(pos[1], str):
                    want = '-' + pos[1] if side == 'left' else '|-' + pos[1][1:]
                if neg[0] != 'v' or neg[1] != want:
                    ctx.violation('concat/rendering-depends-on-the-sign',
                                  f'[{route}] {x!r} & "|" on the {side}: {show(pos)}, with -{x!r}: {show(neg)}',
                                  {'kind': 'sign-symmetry', 'x': x})


def judge_silently(op, a, b):
    got = via_fixup(op, a, b)
    exp = ref.expect(op, a, b)
    if got[0] == 'v' and exp.accepts(got[1]):
        return None
    return classify(op, a, b, got, exp)


def replay(ctx, case):
    if case['kind'] == 'sign-symmetry':
        law_sign_symmetry(ctx)
        return
    if case['kind'] == 'law':
        vals = case['values']
        while len(vals) < 3:
            vals = vals + [vals[-1]]
        laws_over(ctx, vals, lambda o, x, y: via_fixup(o, x, y), shard_pairs=False)
        return
    op, a, b, route = case['op'], case['a'], case['b'], case['route']
    if any(case.get('types') or ()):
        a, b = retag(a, case['types'][0]), retag(b, case['types'][1])
    if route == 'fixup':
        judge(ctx, 'fixup', op, a, b, via_fixup(op, a, b))
        return
    got, text = run_route(route, op, a, b)
    report_route(ctx, route, op, a, b, got, text, judge_silently(op, a, b))
