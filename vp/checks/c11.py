"""C11 - address algebra: parse/print round trip and rectangle lattice laws.

Reference model: integer rectangles ``(sheet, c1, r1, c2, r2)`` (``vp.refmodel.rect``), written from the
statement.  The monitor builds every address from integers (tuple notation), then watches

* round trip   - ``.address`` / ``str()`` / ``.quoted_address`` / ``.abs_address`` (``.abs_coordinate`` when
                 there is no sheet) parsed back by ``AddressRange(text)``, ``AddressRange.create``,
                 ``AddressCell(text)``, ``AddressCell.create``, with and without a redundant ``sheet=``;
* notations    - A1 (also ``$A$1``, ``$A1``, ``A$1``), absolute R1C1, relative / mixed R1C1 from an anchor
                 cell (the direct offset and the one that reaches the same cell round the sheet limit), all
                 printed by the reference model, against the tuple-constructed address;
* enumeration  - ``rows``, ``cols``, ``resolve_range``, ``size``, ``in`` for members, not ``in`` for the
                 ring of cells around the rectangle;
* ``&`` / ``**`` - result against set semantics (common cells / #NULL!, minimal bounding rectangle),
                 commutativity, idempotence, absorption, associativity over triples (also when an
                 intermediate is an error value), sheet mismatch -> #VALUE!, sheet adoption, text operands
                 on either side;
* offsets      - ``address_at_offset`` / ``inc_col`` / ``inc_row`` modulo 16384 / 1048576.

Deliberately permissive (the statement is silent or can be read two ways):

* only normalised rectangles inside the sheet are generated (c1 <= c2, r1 <= r2, 1..16384 x 1..1048576); no
  unbounded ``A:A`` / ``1:1`` ranges, no reversed corners, no lower-case text, no multi-area ranges;
* ``in`` is only asked for cells on the same sheet as the range;
* sheet names that differ only in case are never paired;
* ``quoted_address`` must only parse back; its *shape* is checked solely for names containing a space
  (must be the apostrophe-quoted form with embedded apostrophes doubled) - for every other name both the
  bare and the quoted spelling are accepted;
* relative R1C1 *ranges* are only generated when both corners wrap the same way (the result is a
  normalised rectangle);
* when the two association orders of a triple meet *different* error values in the reference model
  (``#NULL!`` one way, ``#VALUE!`` the other) either error is accepted on both sides;
* ``a ** (a & b)`` (absorption) is only checked when ``a & b`` is not an error value;
* the anchor cell of a relative reference is the same duck type the unit tests use (``row``, ``col_idx``,
  ``sheet``, ``excel``, ``address``).

Sheet names containing ``!`` are legal in Excel but are a class of their own: every failure of theirs is
keyed ``roundtrip/sheetname-with-bang``.
"""
import re

from vp.core import HarnessError
from vp.refmodel import rect as R

PROP = 'C11'
LEVEL = 'exploration'
RULE = ('addresses are built from integers (col,row,col,row)+sheet and compared with a reference model of '
        'integer rectangles. Round trip / notation: boundary columns A,B,Y,Z,AA,AB,AZ,BA,ZY,ZZ,AAA,AAB,XFC,XFD x '
        'rows 1,2,9,10,99,100,1048575,1048576 as cells, ranges between the key columns/rows, x every sheet '
        'name of a pool legal in Excel (plain, spaces, apostrophes, digits, hyphens, punctuation, cell-address '
        'look-alikes, unicode, 31 chars; names with "!" as a separate class) + sampled coordinates/names; '
        'relative R1C1 from 6 fixed anchors, an exhaustive 6x6 anchor neighbourhood of the four sheet corners x '
        'offsets -3..3, and sampled anchors. Enumeration: all 100 rectangles of a 4x4 grid at 4 origins + '
        'sampled small rectangles anywhere. Set operators: all 100^2 ordered pairs of grid rectangles x 5 sheet '
        'configurations (+2 at the far corner of the sheet), all 100^3 triples (thorough; every 5th in quick) on '
        'one sheet, sampled triples with mixed sheets, sampled large rectangles. Offsets: boundary cells x 14x14 '
        'offsets (none, single wrap, multiple wraps) + sampled. A case is one address (x form), one location x '
        'anchor, one rectangle, one ordered pair, one triple or one (cell, offset); every case is distinct by '
        'construction in the enumerated parts and by signature in the sampled parts.')
BUDGET = {'quick': 25, 'thorough': 300}
EXHAUSTIVE = {'quick': False, 'thorough': True}
FLOORS = {
    # derived from the enumerated parts (exact there) or >= 5x below what the sampled loops add
    'quick': {'twin_cases': 11, 'roundtrip_cases': 23000, 'roundtrip_parses_compared': 150000, 'roundtrip_bang_cases': 2086,
              'roundtrip_quoted_shape_checked': 5000,
              'sheetclass:space+apostrophe': 1400, 'sheetclass:apostrophe': 800, 'sheetclass:cell-lookalike': 4000,
              'sheetclass:unicode': 2300, 'sheetclass:digits': 1400, 'sheetclass:hyphen': 500,
              'notation_cases': 7000, 'notation_texts_compared': 150000, 'notation_relative_wrap_texts': 20000,
              'notation_corner_neighbourhood': 1764,
              'enum_cases': 400, 'enum_member_in': 3000, 'enum_outside_not_in': 5000,
              'pair_cases': 70000, 'pair_null_results': 25000, 'pair_sheet_mismatch': 10000,
              'pair_sheet_adoption': 30000, 'pair_string_operand': 15000, 'pair_idempotence': 600,
              'pair_absorption': 50000,
              'triple_cases': 200000, 'triple_null_intermediate': 100000, 'triple_mixed_sheet_cases': 800,
              'large_pair_cases': 400, 'large_triple_cases': 400,
              'offset_cases': 13000, 'offset:wrap-col': 1500, 'offset:wrap-row': 1500, 'offset:multi-wrap': 3000},
    'thorough': {'roundtrip_cases': 60000, 'roundtrip_bang_cases': 2086, 'notation_cases': 27000,
                 'notation_relative_wrap_texts': 200000, 'notation_corner_neighbourhood': 1764,
                 'enum_cases': 2000, 'pair_cases': 70000, 'pair_sheet_mismatch': 10000,
                 'pair_sheet_adoption': 30000, 'pair_idempotence': 600,
                 'triple_cases': 1000000, 'triple_null_intermediate': 500000,
                 'triple_mixed_sheet_cases': 40000, 'large_pair_cases': 15000, 'large_triple_cases': 15000,
                 'offset_cases': 50000},
}
ASSUMPTIONS = [
    'equality of addresses is Python equality of the pycel objects plus equality of the projection '
    '(sheet, col, row, col, row) with the reference model, and AddressCell for single cells / AddressRange otherwise',
    'an error-valued operand of & or ** makes the result that error value (#NULL! is the bottom of the lattice)',
    'sheet names are taken as legal in Excel when they are 1..31 characters without : \\ / ? * [ ] and do not '
    'begin or end with an apostrophe; leading/trailing blanks are not generated',
]

SAMPLED = {   # totals over all shards (independent of the number of shards)
    'quick': {'roundtrip': 4000, 'notation': 3000, 'enum': 300, 'offset': 4000, 'mixed_triples': 4000,
              'large': 4000},
    'thorough': {'roundtrip': 200000, 'notation': 100000, 'enum': 8000, 'offset': 200000,
                 'mixed_triples': 200000, 'large': 200000},
}

_P = None


def px():
    """pycel.excelutil, imported late (the runner imports this module without pycel on the path)"""
    global _P
    if _P is None:
        from pycel import excelutil
        _P = excelutil
    return _P


class Anchor:
    """'the cell the formula lives in' for relative R1C1 (same duck type as the unit tests' stub)"""

    def __init__(self, col, row, sheet=''):
        self.col_idx, self.row, self.sheet = col, row, sheet
        self.col = R.col_letters(col)
        self.excel = None
        self.value = None
        self.address = px().AddressCell((col, row, col, row), sheet=sheet)


def attempt(f, *a, **k):
    """call into pycel only; ('v', value) | ('x', 'Class: message')"""
    try:
        return 'v', f(*a, **k)
    except Exception as exc:   # noqa: an exception out of pycel is a witness
        return 'x', f'{type(exc).__name__}: {exc}'


def mk(spec):
    """tuple notation -> pycel address (raises what pycel raises)"""
    sh, c1, r1, c2, r2 = spec
    if c1 == c2 and r1 == r2:
        return px().AddressCell((c1, r1, c2, r2), sheet=sh)
    return px().AddressRange((c1, r1, c2, r2), sheet=sh)


def build(ctx, case, *specs):
    """pycel objects for the specs, or None after recording the constructor's failure"""
    out = []
    for spec in specs:
        got = attempt(mk, tuple(spec))
        if got[0] == 'x':
            ctx.violation('construct/tuple/exception/sheet:' + sheet_class(spec[0]),
                          f'building {tuple(spec)!r} from (col,row,col,row)+sheet raised {got[1]}', case)
            return None
        out.append(got[1])
    return out


def desc(x):
    """projection of a pycel result onto the reference model's vocabulary"""
    P = px()
    if isinstance(x, str):
        return x
    if isinstance(x, P.AddressCell):
        return (x.sheet, x.col_idx, x.row, x.col_idx, x.row)
    if isinstance(x, P.AddressRange):
        return (x.sheet, x.start.col_idx, x.start.row, x.end.col_idx, x.end.row)
    return ('?', repr(x))


def right_type(x, spec):
    P = px()
    return type(x) is (P.AddressCell if R.is_cell(spec) else P.AddressRange)


def show(out):
    return repr(out[1]) if out[0] == 'v' and isinstance(out[1], str) else (
        str(desc(out[1])) + '/' + type(out[1]).__name__ if out[0] == 'v' else 'raised ' + out[1])


# ----------------------------------------------------------------------------- sheet names

PLAIN_SHEETS = ['Sheet1', 'S', 'Data_2', 'TRUE', 'Budget.2020', 'a,b', 'a+b', 'f(x)', 'P&L', 'a=b', 'say "hi"',
                '"', '%', 'x;y', '#REF', 'US$', '~tmp', 'a@b', '{x}', '<new>', 'x^2', 'a|b', '_', '.sheet']
SPACE_SHEETS = ['My Sheet', 'a b c', 'In Dusseldorf', 'Q1 2020 (final)', 'two  blanks']
APOS_SHEETS = ["it's", "O''Brien", "rock'n'roll"]
SPACE_APOS_SHEETS = ["it's me", "x 'y' z", "Demande d'autorisation", "a '' b"]
DIGIT_SHEETS = ['2020', '1sheet', '007', '3.14', '1e5']
DIGIT_SPACE_SHEETS = ['12 34']
HYPHEN_SHEETS = ['My-Sheet', '2020-data', 'a-b c', '-']
LOOKALIKE_SHEETS = ['A1', 'R1C1', 'XFD1', 'XFD1048576', 'RC', 'R', 'C', 'R5', 'C3', 'a1', 'r1c1', 'AAA111',
                    'A1 B2', 'R5C3 x']
UNICODE_SHEETS = ['Größe', '日本語', 'données 2020', 'Лист1', 'שלום', 'emoji 😀', 'naïve-é', '数据 表']
LONG_SHEETS = ['abcdefghijklmnopqrstuvwxyz01234', "thirty one chars with ' and bla"]
LEGAL_SHEETS = (PLAIN_SHEETS + SPACE_SHEETS + APOS_SHEETS + SPACE_APOS_SHEETS + DIGIT_SHEETS +
                DIGIT_SPACE_SHEETS + HYPHEN_SHEETS + LOOKALIKE_SHEETS + UNICODE_SHEETS + LONG_SHEETS)
BANG_SHEETS = ['a!b', 'a!b c', 'Hello!', '!', '#REF!', 'wow! such', "it's!"]
ALPHABET = (list('abcXYZRC') + list('0159') + [' ', ' ', "'", '-', '.', '_', 'é', 'ß', '日', '本', 'Ж', '😀'] +
            [',', '(', ')', '&', '+', '=', '#', '$', '"', '%', ';', '~'])
LOOKALIKE_RE = re.compile(r'^([A-Za-z]{1,3}\d+|[Rr]\d*[Cc]\d*|[Rr]\d*|[Cc]\d*)$')


def sheet_class(name):
    """explicit predicate over the sheet name (used in mechanism keys and counters)"""
    if name == '':
        return 'none'
    if '!' in name:
        return 'bang'
    if LOOKALIKE_RE.match(name) or re.match(r'^([A-Za-z]{1,3}\d+|[Rr]\d+[Cc]\d+) ', name):
        return 'cell-lookalike'
    if ' ' in name and "'" in name:
        return 'space+apostrophe'
    if "'" in name:
        return 'apostrophe'
    if any(ord(ch) > 127 for ch in name):
        return 'unicode'
    if ' ' in name:
        return 'space'
    if name[0].isdigit():
        return 'digits'
    if '-' in name:
        return 'hyphen'
    if re.match(r'^[A-Za-z_][A-Za-z0-9_.]*$', name):
        return 'plain'
    return 'punctuation'


def random_sheet(rng):
    """a random name legal in Excel: 1..31 chars, none of : \\ / ? * [ ] !, no apostrophe or blank at the ends"""
    while True:
        n = rng.choice((1, 2, 3, 4, 5, 6, 8, 12, 20, 31))
        name = ''.join(rng.choice(ALPHABET) for _ in range(n))
        if name[0] in " '" or name[-1] in " '":
            continue
        return name


# ----------------------------------------------------------------------------- coordinates

BCOLS = [1, 2, 25, 26, 27, 28, 52, 53, 701, 702, 703, 704, 16383, 16384]
BROWS = [1, 2, 9, 10, 99, 100, 1048575, 1048576]
KEYCOLS = [1, 26, 27, 702, 703, 16384]
KEYROWS = [1, 10, 1048575, 1048576]
FIXED_ANCHORS = [(1, 1), (16384, 1048576), (1, 1048576), (16384, 1), (27, 10), (703, 100)]
EDGE_COLS = [1, 2, 3, 16382, 16383, 16384]
EDGE_ROWS = [1, 2, 3, 1048574, 1048575, 1048576]
GRID_ORIGINS = [(1, 1), (25, 8), (701, 98), (16381, 1048573)]
COL_OFFSETS = [0, 1, -1, 2, -2, 25, 16383, -16383, 16384, -16384, 16385, 32768, -32768, 40000]
ROW_OFFSETS = [0, 1, -1, 2, -2, 99, 1048575, -1048575, 1048576, -1048576, 1048577, 2097152, -2097152, 3000000]


def boundary_rects():
    out = [(c, r, c, r) for c in BCOLS for r in BROWS]
    for i, c1 in enumerate(KEYCOLS):
        for c2 in KEYCOLS[i:]:
            for j, r1 in enumerate(KEYROWS):
                for r2 in KEYROWS[j:]:
                    if (c1, r1) != (c2, r2):
                        out.append((c1, r1, c2, r2))
    return out


def random_col(rng):
    k = rng.random()
    if k < 0.35:
        return rng.choice(BCOLS)
    if k < 0.5:
        return rng.randint(1, 60)
    if k < 0.6:
        return rng.randint(16300, 16384)
    return rng.randint(1, R.MAX_COL)


def random_row(rng):
    k = rng.random()
    if k < 0.35:
        return rng.choice(BROWS)
    if k < 0.5:
        return rng.randint(1, 120)
    if k < 0.6:
        return rng.randint(1048000, 1048576)
    return rng.randint(1, R.MAX_ROW)


def random_rect(rng, cell_share=0.3):
    c1, r1 = random_col(rng), random_row(rng)
    if rng.random() < cell_share:
        return (c1, r1, c1, r1)
    c2, r2 = random_col(rng), random_row(rng)
    return (min(c1, c2), min(r1, r2), max(c1, c2), max(r1, r2))


def random_small_rect(rng, limit=8):
    w, h = rng.randint(1, limit), rng.randint(1, limit)
    c1, r1 = random_col(rng), random_row(rng)
    c1, r1 = min(c1, R.MAX_COL - w + 1), min(r1, R.MAX_ROW - h + 1)
    return (c1, r1, c1 + w - 1, r1 + h - 1)


# ----------------------------------------------------------------------------- clause 1: round trip

ABS_COORD_RE = re.compile(r'^\$[A-Za-z]{1,3}\$\d{1,7}(:\$[A-Za-z]{1,3}\$\d{1,7})?$')


def check_roundtrip(ctx, case):
    P = px()
    spec = tuple(case['addr'])
    sh = spec[0]
    cls = sheet_class(sh)
    ctx.count('roundtrip_cases')
    ctx.count('sheetclass:' + cls)
    if cls == 'bang':
        ctx.count('roundtrip_bang_cases')
    ctx.count('roundtrip_cells' if R.is_cell(spec) else 'roundtrip_ranges')
    letters = max(len(R.col_letters(spec[1])), len(R.col_letters(spec[3])))
    found = []

    def fail(form, what, msg):
        if form == 'abs' and what == 'shape':
            key = 'roundtrip/abs/shape'                 # the coordinate part; nothing to do with the sheet
        elif cls == 'bang' and what != 'shape':
            key = 'roundtrip/sheetname-with-bang'       # printed text does not parse back
        elif what in ('sheet', 'exception', 'shape'):
            key = f'roundtrip/{form}/{what}/sheet:{cls}'
        else:
            key = f'roundtrip/{form}/{what}/col-letters:{letters}'
        found.append((key, msg))

    built = attempt(mk, spec)
    if built[0] == 'x':
        ctx.violation(f'construct/tuple/exception/sheet:{cls}',
                      f'building {spec!r} from (col,row,col,row)+sheet raised {built[1]}', case)
        return
    a = built[1]
    if desc(a) != spec or not right_type(a, spec):
        ctx.violation('construct/tuple/wrong-location',
                      f'{spec!r} built from the tuple notation is {show(built)}', case)
        return

    forms = [('plain', lambda: a.address), ('str', lambda: str(a))]
    if sh:
        forms += [('quoted', lambda: a.quoted_address), ('abs', lambda: a.abs_address)]
    else:
        forms += [('coordinate', lambda: a.coordinate), ('abs', lambda: a.abs_coordinate)]
    for form, getter in forms:
        printed = attempt(getter)
        if printed[0] == 'x' or not isinstance(printed[1], str):
            fail(form, 'exception', f'{form} form of {spec!r}: {show(printed)}')
            continue
        text = printed[1]
        ctx.count('roundtrip_prints')
        if form == 'abs':
            tail = text.rsplit('!', 1)[-1]
            if not ABS_COORD_RE.match(tail) or tail.replace('$', '').upper() != R.coord(spec):
                fail(form, 'shape', f'absolute form of {spec!r} printed as {text!r}, coordinate part is not '
                                    f'{R.coord(spec, True, True)!r}')
        if form == 'quoted' and ' ' in sh:
            ctx.count('roundtrip_quoted_shape_checked')
            if not text.startswith(R.quote(sh) + '!'):
                fail(form, 'shape', f'quoted form of {spec!r} printed as {text!r}: a sheet name with a blank '
                                    f'must be written {R.quote(sh)!r}')
        parsers = [('AddressRange', lambda: P.AddressRange(text)),
                   ('AddressRange.create', lambda: P.AddressRange.create(text))]
        if sh:
            parsers.append(('AddressRange+sheet', lambda: P.AddressRange(text, sheet=sh)))
        if R.is_cell(spec):
            parsers += [('AddressCell', lambda: P.AddressCell(text)),
                        ('AddressCell.create', lambda: P.AddressCell.create(text))]
        for pname, parse in parsers:
            got = attempt(parse)
            ctx.count('roundtrip_parses_compared')
            if got[0] == 'x':
                fail(form, 'exception', f'{form} form {text!r} of {spec!r}: {pname}(text) raised {got[1]}')
            elif isinstance(got[1], str) or desc(got[1])[0] == '?':
                fail(form, 'exception', f'{form} form {text!r} of {spec!r}: {pname}(text) = {got[1]!r}')
            else:
                d = desc(got[1])
                if d[0] != sh:
                    fail(form, 'sheet', f'{form} form {text!r} of {spec!r}: {pname}(text) has sheet {d[0]!r}')
                elif d != spec:
                    fail(form, 'coord', f'{form} form {text!r} of {spec!r}: {pname}(text) is {d!r}')
                elif not right_type(got[1], spec):
                    fail(form, 'type', f'{form} form {text!r} of {spec!r}: {pname}(text) is a '
                                       f'{type(got[1]).__name__}')
                elif got[1] != a:
                    fail(form, 'unequal', f'{form} form {text!r} of {spec!r}: {pname}(text) = {got[1]!r} '
                                          f'!= {a!r}')
    # the coordinate text given separately from the sheet
    if sh:
        got = attempt(lambda: P.AddressRange(a.coordinate, sheet=sh))
        ctx.count('roundtrip_parses_compared')
        if got[0] == 'x' or isinstance(got[1], str) or desc(got[1]) != spec or got[1] != a:
            fail('coordinate+sheet', 'sheet' if got[0] == 'v' and not isinstance(got[1], str) and
                 desc(got[1])[0] != sh else 'exception',
                 f'AddressRange({a.coordinate!r}, sheet={sh!r}) is {show(got)}, expected {spec!r}')
    seen = set()
    for key, msg in found:
        if key not in seen:
            seen.add(key)
            ctx.violation(key, msg, case)
    return a


# ----------------------------------------------------------------------------- clause 2: notations

def check_notation(ctx, case):
    P = px()
    spec = tuple(case['addr'])
    sh = spec[0]
    anchor_cr = tuple(case['anchor'])
    sheet_form = case['sheet_form']        # 'kwarg' | 'plain' | 'quoted' | 'none'
    cls = sheet_class(sh)
    ctx.count('notation_cases')
    ctx.count('notation_sheet_form:' + sheet_form)
    built = attempt(mk, spec)
    if built[0] == 'x' or desc(built[1]) != spec or not right_type(built[1], spec):
        ctx.violation('construct/tuple/wrong-location' if built[0] == 'v' else
                      f'construct/tuple/exception/sheet:{cls}',
                      f'{spec!r} built from the tuple notation: {show(built)}', case)
        return
    want = built[1]
    anchor = Anchor(anchor_cr[0], anchor_cr[1], sheet=sh)
    cellish = R.is_cell(spec)

    texts = [('a1', R.coord(spec), False),
             ('a1-dollar', R.coord(spec, True, True), False),
             ('a1-mixed-dollar', R.coord(spec, True, False), False),
             ('a1-mixed-dollar', R.coord(spec, False, True), False),
             ('r1c1-absolute', R.r1c1_abs(spec), False)]
    dc1, dr1 = spec[1] - anchor_cr[0], spec[2] - anchor_cr[1]
    dc2, dr2 = spec[3] - anchor_cr[0], spec[4] - anchor_cr[1]
    # a relative range keeps its shape only when both corners wrap the same way
    can_wrap_col = dc1 != 0 and dc2 != 0 and (dc1 > 0) == (dc2 > 0)
    can_wrap_row = dr1 != 0 and dr2 != 0 and (dr1 > 0) == (dr2 > 0)
    texts.append(('r1c1-relative/no-wrap', R.r1c1_rel(spec, anchor_cr), True))
    texts.append(('r1c1-mixed/no-wrap', R.r1c1_rel(spec, anchor_cr, abs_row=True), True))
    texts.append(('r1c1-mixed/no-wrap', R.r1c1_rel(spec, anchor_cr, abs_col=True), True))
    if 0 in (dc1, dr1, dc2, dr2):
        texts.append(('r1c1-relative/bare-zero', R.r1c1_rel(spec, anchor_cr, zero_as_bare=True), True))
    if can_wrap_col:
        texts.append(('r1c1-relative/wrap-col', R.r1c1_rel(spec, anchor_cr, wrap_col=True), True))
        texts.append(('r1c1-mixed/wrap-col', R.r1c1_rel(spec, anchor_cr, wrap_col=True, abs_row=True), True))
    if can_wrap_row:
        texts.append(('r1c1-relative/wrap-row', R.r1c1_rel(spec, anchor_cr, wrap_row=True), True))
        texts.append(('r1c1-mixed/wrap-row', R.r1c1_rel(spec, anchor_cr, wrap_row=True, abs_col=True), True))
    if can_wrap_col and can_wrap_row:
        texts.append(('r1c1-relative/wrap-both',
                      R.r1c1_rel(spec, anchor_cr, wrap_col=True, wrap_row=True), True))

    found = []
    for notation, body, needs_anchor in texts:
        if sheet_form == 'plain':
            text, kw = R.with_sheet(sh, body), {}
        elif sheet_form == 'quoted':
            text, kw = R.with_sheet(R.quote(sh), body), {}
        elif sheet_form == 'kwarg':
            text, kw = body, {'sheet': sh}
        else:
            text, kw = body, {}
        parsers = [('AddressRange.create', lambda: P.AddressRange.create(text, cell=anchor, **kw))]
        if cellish:
            parsers.append(('AddressCell.create', lambda: P.AddressCell.create(text, cell=anchor, **kw)))
        if not needs_anchor:
            parsers.append(('AddressRange', lambda: P.AddressRange(text, **kw)))
            if cellish:
                parsers.append(('AddressCell', lambda: P.AddressCell(text, **kw)))
        if 'wrap' in notation:
            ctx.count('notation_relative_wrap_texts', len(parsers))
        for pname, parse in parsers:
            got = attempt(parse)
            ctx.count('notation_texts_compared')
            ctx.count('notation:' + notation.split('/')[0])
            ok = (got[0] == 'v' and not isinstance(got[1], str) and desc(got[1]) == spec and
                  right_type(got[1], spec) and got[1] == want)
            if ok:
                continue
            sheet_key = ('roundtrip/sheetname-with-bang' if cls == 'bang' else
                         f'notation/sheet-prefix/{sheet_form}/sheet:{cls}')
            if got[0] == 'v' and not isinstance(got[1], str) and desc(got[1])[1:] == spec[1:] and \
                    right_type(got[1], spec):
                key = sheet_key                        # right cells, wrong sheet
            elif got[0] == 'x' and sheet_form in ('plain', 'quoted'):
                # the sheet prefix is to blame iff the same body without it denotes the right cells
                bare = attempt(lambda: P.AddressRange.create(body, cell=anchor))
                if bare[0] == 'v' and not isinstance(bare[1], str) and desc(bare[1])[1:] == spec[1:]:
                    key = sheet_key
                else:
                    key = f'notation/{notation}'
            else:
                key = f'notation/{notation}'
            found.append((key, f'{notation} text {text!r} (anchor {R.col_letters(anchor_cr[0])}{anchor_cr[1]}, '
                               f'sheet given as {sheet_form}) parsed by {pname}: {show(got)}; the tuple '
                               f'notation {spec!r} gives {want.address!r}'))
    seen = set()
    for key, msg in found:
        if key not in seen:
            seen.add(key)
            ctx.violation(key, msg, case)


# ----------------------------------------------------------------------------- clause 3: enumeration

def check_enum(ctx, case):
    P = px()
    spec = tuple(case['addr'])
    sh = spec[0]
    ctx.count('enum_cases')
    built = attempt(mk, spec)
    if built[0] == 'x':
        ctx.violation('construct/tuple/exception/sheet:' + sheet_class(sh),
                      f'building {spec!r} raised {built[1]}', case)
        return
    a = built[1]
    h, w = R.height_width(spec)
    found = []

    size = attempt(lambda: a.size)
    if size[0] == 'x':
        found.append(('enumerate/size/exception', f'size of {spec!r} raised {size[1]}'))
    elif not isinstance(size[1], tuple) or tuple(size[1]) != (h, w) or \
            getattr(size[1], 'height', None) != h or getattr(size[1], 'width', None) != w:
        found.append(('enumerate/size', f'size of {spec!r} is {size[1]!r}, expected height {h} width {w}'))

    def grid_of(name, getter):
        got = attempt(lambda: [list(line) for line in getter()])
        if got[0] == 'x':
            found.append((f'enumerate/{name}/exception', f'{name} of {spec!r} raised {got[1]}'))
            return None
        return got[1]

    listings = []
    if not R.is_cell(spec):
        ctx.count('enum_ranges')
        listings.append(('rows', grid_of('rows', lambda: a.rows), R.cells_by_row(spec)))
        listings.append(('cols', grid_of('cols', lambda: a.cols), R.cells_by_col(spec)))
        # the lines taken first and read afterwards (rows = list(a.rows); zip(*a.rows)): the same cells
        listings.append(('rows-taken-first', grid_of('rows-taken-first', lambda: list(a.rows)),
                         R.cells_by_row(spec)))
        listings.append(('cols-taken-first', grid_of('cols-taken-first', lambda: list(a.cols)),
                         R.cells_by_col(spec)))
    listings.append(('resolve_range', grid_of('resolve_range', lambda: a.resolve_range), R.cells_by_row(spec)))
    members = None
    for name, got, want in listings:
        if got is None:
            continue
        shape_got = [len(line) for line in got]
        shape_want = [len(line) for line in want]
        flat = [x for line in got for x in line]
        ctx.count('enum_cells_listed', len(flat))
        if shape_got != shape_want:
            found.append((f'enumerate/{name}/count', f'{name} of {spec!r} lists {shape_got} cells per line, '
                                                     f'expected {len(want)} lines of {shape_want[0]}'))
            continue
        bad = [(x, cr) for line_g, line_w in zip(got, want) for x, cr in zip(line_g, line_w)
               if type(x) is not P.AddressCell or desc(x) != (sh, cr[0], cr[1], cr[0], cr[1])]
        if bad:
            x, cr = bad[0]
            found.append((f'enumerate/{name}/wrong-cell', f'{name} of {spec!r} lists {x!r} where '
                                                          f'{R.col_letters(cr[0])}{cr[1]} on {sh!r} belongs'))
            continue
        members = flat
    if members is not None and len(members) != h * w:
        raise HarnessError('enumeration bookkeeping')
    # membership: every listed cell, by object and by text; every cell of the ring is outside
    for cr_line in R.cells_by_row(spec):
        for c, r in cr_line:
            cell = P.AddressCell((c, r, c, r), sheet=sh)
            for how, probe in (('object', cell), ('text', R.with_sheet(sh, R.coord(('', c, r, c, r))))):
                if how == 'text' and sheet_class(sh) not in ('plain', 'none'):
                    continue     # how other names are written as text is the business of clause 1
                got = attempt(lambda: probe in a)
                ctx.count('enum_member_in')
                if got != ('v', True):
                    found.append(('contains/member-not-in', f'{R.col_letters(c)}{r} ({how}) in {spec!r} is '
                                                            f'{show(got)}'))
    for c, r in R.ring(spec):
        cell = P.AddressCell((c, r, c, r), sheet=sh)
        got = attempt(lambda: cell in a)
        ctx.count('enum_outside_not_in')
        if got != ('v', False):
            side = 'left' if c < spec[1] else 'right' if c > spec[3] else 'above' if r < spec[2] else 'below'
            found.append((f'contains/outside-in/{side}', f'{R.col_letters(c)}{r} in {spec!r} is {show(got)}'))
    for c, r in case.get('far', ()):
        if not R.contains(spec, c, r):
            cell = P.AddressCell((c, r, c, r), sheet=sh)
            got = attempt(lambda: cell in a)
            ctx.count('enum_outside_not_in')
            if got != ('v', False):
                found.append(('contains/outside-in/far', f'{R.col_letters(c)}{r} in {spec!r} is {show(got)}'))
    seen = set()
    for key, msg in found:
        if key not in seen:
            seen.add(key)
            ctx.violation(key, msg, case)


# ----------------------------------------------------------------------------- clause 5: offsets

def wrap_class(col, row, dr, dc):
    qc, qr = R.wraps(col, row, dr, dc)
    if qc not in (-1, 0, 1) or qr not in (-1, 0, 1):
        return 'multi-wrap'
    if qc and qr:
        return 'wrap-both'
    if qc:
        return 'wrap-col'
    if qr:
        return 'wrap-row'
    return 'no-wrap'


def check_offset(ctx, case):
    P = px()
    spec = tuple(case['addr'])
    dr, dc = case['dr'], case['dc']
    sh, col, row = spec[0], spec[1], spec[2]
    wc = wrap_class(col, row, dr, dc)
    ctx.count('offset_cases')
    ctx.count('offset:' + wc)
    built = build(ctx, case, spec)
    if built is None:
        return
    a = built[0]
    ec, er = R.offset(col, row, dr, dc)
    want = (sh, ec, er, ec, er)
    calls = [('address_at_offset(row_inc=, col_inc=)', lambda: a.address_at_offset(row_inc=dr, col_inc=dc)),
             ('address_at_offset(row, col)', lambda: a.address_at_offset(dr, dc))]
    if dr == 0 and dc == 0:
        calls.append(('address_at_offset()', lambda: a.address_at_offset()))
    elif dc == 0:
        calls.append(('address_at_offset(row_inc=)', lambda: a.address_at_offset(row_inc=dr)))
    elif dr == 0:
        calls.append(('address_at_offset(col_inc=)', lambda: a.address_at_offset(col_inc=dc)))
    found = []
    for name, f in calls:
        got = attempt(f)
        ctx.count('offset_calls')
        if got[0] == 'x':
            found.append((f'offset/{wc}/exception', f'{spec!r}.{name} with rows {dr:+d} cols {dc:+d} raised {got[1]}'))
        elif type(got[1]) is not P.AddressCell or desc(got[1]) != want:
            found.append((f'offset/{wc}', f'{spec!r}.{name} with rows {dr:+d} cols {dc:+d} is {show(got)}, '
                                          f'expected {want!r}'))
    if R.is_cell(spec):
        for name, f, exp in (('inc_col', lambda: a.inc_col(dc), ec), ('inc_row', lambda: a.inc_row(dr), er)):
            got = attempt(f)
            ctx.count('offset_calls')
            if got != ('v', exp):
                q = R.wraps(col, row, dr, dc)[0 if name == 'inc_col' else 1]
                cls = 'no-wrap' if q == 0 else 'wrap' if q in (-1, 1) else 'multi-wrap'
                found.append((f'offset/{name}/{cls}', f'{spec!r}.{name}({dc if name == "inc_col" else dr}) is '
                                                      f'{show(got)}, expected {exp}'))
    seen = set()
    for key, msg in found:
        if key not in seen:
            seen.add(key)
            ctx.violation(key, msg, case)


# ----------------------------------------------------------------------------- clause 4: & and **

OPNAME = {'&': 'intersection', '**': 'union'}


def apply_op(op, x, y):
    return x & y if op == '&' else x ** y


def operand_text(spec):
    """the operand written as text the way Excel writes it (quoted unless the name is a plain identifier)"""
    sh = spec[0]
    body = R.coord(spec)
    if not sh:
        return body
    return R.with_sheet(sh if sheet_class(sh) == 'plain' else R.quote(sh), body)


def result_problem(got, want, check_print=True):
    """None when the pycel outcome ``got`` is the reference value ``want``; else (what, detail)"""
    P = px()
    if got[0] == 'x':
        return 'exception', got[1]
    val = got[1]
    if isinstance(want, str):
        return None if isinstance(val, str) and val == want else ('wrong-result', show(got))
    if isinstance(val, str) or desc(val)[0] == '?':
        return 'wrong-result', show(got)
    d = desc(val)
    if d[1:] != want[1:]:
        return 'wrong-result', show(got)
    if d[0] != want[0]:
        return 'sheet', show(got)
    if not right_type(val, want):
        return 'result-type', show(got)
    if check_print and '!' not in want[0]:
        back = attempt(lambda: P.AddressRange(val.address))
        if back[0] == 'x' or back[1] != val:
            return 'result-print', f'{show(got)} prints as {val.address!r} which parses to {show(back)}'
    return None


def check_pair(ctx, case):
    a, b = tuple(case['a']), tuple(case['b'])
    ctx.count('pair_cases')
    built = build(ctx, case, a, b)
    if built is None:
        return
    A, B = built
    mismatch = bool(a[0] and b[0] and a[0] != b[0])
    adoption = bool(a[0]) != bool(b[0])
    rel = R.relation(a, b)
    ctx.count('pair_relation:' + rel)
    if mismatch:
        ctx.count('pair_sheet_mismatch')
    if adoption:
        ctx.count('pair_sheet_adoption')
    found = []

    def key_for(op, what, string=False, got=None):
        name = OPNAME[op]
        if what == 'exception':
            return f'{name}/exception' + ('/text-operand' if string else '')
        if mismatch:
            return 'setop/sheet-mismatch'
        if string and got == ('v', R.VALUE):
            return f'setop/text-operand-sheet/sheet:{sheet_class(b[0])}'   # the sheet in the text was misread
        if what == 'sheet':
            return 'setop/sheet-adoption' if adoption else f'{name}/result-sheet'
        if what == 'wrong-result':
            return f'{name}/wrong-result/{rel}' + ('/text-operand' if string else '')
        return f'{name}/{what}'

    for op in ('&', '**'):
        want = R.OPS[op](a, b)
        if want == R.NULL:
            ctx.count('pair_null_results')
        elif not isinstance(want, str) and R.is_cell(want):
            ctx.count('pair_cell_results')
        g1 = attempt(apply_op, op, A, B)
        g2 = attempt(apply_op, op, B, A)
        ctx.count('pair_ops', 2)
        for expr, got in ((f'a {op} b', g1), (f'b {op} a', g2)):
            prob = result_problem(got, want, check_print=got is g1)
            if prob:
                found.append((key_for(op, prob[0]), f'{expr} with a={a!r} b={b!r}: {prob[1]}, expected {want!r}'))
        if g1[0] == 'v' and g2[0] == 'v' and not (g1[1] == g2[1]):
            found.append((f'{OPNAME[op]}/commutativity', f'a {op} b = {show(g1)} but b {op} a = {show(g2)} '
                                                         f'with a={a!r} b={b!r}'))
        if a == b:
            ctx.count('pair_idempotence')
            for expr, got in ((f'a {op} a (same object)', attempt(apply_op, op, A, A)), (f'a {op} a', g1)):
                if got[0] == 'x' or got[1] != A or desc(got[1]) != a:
                    found.append((f'{OPNAME[op]}/idempotence', f'{expr} with a={a!r} is {show(got)}'))
        if case.get('strings'):
            ctx.count('pair_string_operand')
            tb = operand_text(b)
            for expr, f in ((f'a {op} {tb!r}', lambda: apply_op(op, A, tb)),
                            (f'{tb!r} {op} a', lambda: apply_op(op, tb, A))):
                got = attempt(f)
                ctx.count('pair_ops')
                prob = result_problem(got, want)
                if prob:
                    found.append((key_for(op, prob[0], True, got),
                                  f'{expr} with a={a!r}: {prob[1]}, expected {want!r}'))
    # absorption (only through intermediates that are addresses)
    if not mismatch:
        u = attempt(apply_op, '**', A, B)
        if u[0] == 'v' and not isinstance(u[1], str):
            got = attempt(apply_op, '&', A, u[1])
            ctx.count('pair_absorption')
            want = R.evaluate(('&', a, ('**', a, b)))
            prob = result_problem(got, want, check_print=False)
            if prob:
                found.append(('lattice/absorption', f'a & (a ** b) with a={a!r} b={b!r}: {prob[1]}, expected {want!r}'))
        i = attempt(apply_op, '&', A, B)
        if i[0] == 'v' and not isinstance(i[1], str) and not isinstance(R.intersect(a, b), str):
            got = attempt(apply_op, '**', A, i[1])
            ctx.count('pair_absorption')
            want = R.evaluate(('**', a, ('&', a, b)))
            prob = result_problem(got, want, check_print=False)
            if prob:
                found.append(('lattice/absorption', f'a ** (a & b) with a={a!r} b={b!r}: {prob[1]}, expected {want!r}'))
    seen = set()
    for key, msg in found:
        if key not in seen:
            seen.add(key)
            ctx.violation(key, msg, case)


def well_documented(ctx, key):
    """the sink already holds its quota of written-out cases for this key (it only counts further ones)"""
    v = ctx.violations.get(key)
    return v is not None and len(v['cases']) >= ctx.MAX_CASES_PER_KEY


def eval_nested(op, A, B, C, left):
    """(A op B) op C  or  A op (B op C) on pycel objects -> (outcome, inner value or None)"""
    if left:
        inner = attempt(apply_op, op, A, B)
        if inner[0] == 'x':
            return inner, None
        return attempt(apply_op, op, inner[1], C), inner[1]
    inner = attempt(apply_op, op, B, C)
    if inner[0] == 'x':
        return inner, None
    return attempt(apply_op, op, A, inner[1]), inner[1]


def check_triple(ctx, case, objs=None):
    a, b, c = tuple(case['a']), tuple(case['b']), tuple(case['c'])
    built = objs or build(ctx, case, a, b, c)
    if built is None:
        return
    A, B, C = built
    for op in ('&', '**'):
        name = OPNAME[op]
        f = R.OPS[op]
        inner_l, inner_r = f(a, b), f(b, c)
        want_l, want_r = f(inner_l, c), f(a, inner_r)
        accept = (want_l,) if want_l == want_r else (want_l, want_r)
        if isinstance(inner_l, str) or isinstance(inner_r, str):
            ctx.count('triple_null_intermediate' if R.NULL in (inner_l, inner_r) else
                      'triple_value_intermediate')
            ctx.count(f'triple_error_intermediate:{name}')
        if len(accept) == 2:
            ctx.count('triple_orders_meet_different_errors')
        got_l, mid_l = eval_nested(op, A, B, C, True)
        got_r, mid_r = eval_nested(op, A, B, C, False)
        bad = []
        for side, got, mid, inner_want in (('(a {0} b) {0} c', got_l, mid_l, inner_l),
                                           ('a {0} (b {0} c)', got_r, mid_r, inner_r)):
            expr = side.format(op)
            probs = [result_problem(got, w, check_print=False) for w in accept]
            if None in probs:
                continue
            what, detail = probs[0]
            if what == 'exception' and isinstance(mid, str):
                key = 'setop/error-operand-raises'
                code = mid
                ctx.count(f'error_operand_raises:{name}:{code}')
                detail = f'raised {detail} when the inner result is {code!r}'
            elif what == 'exception':
                key = f'{name}/exception'
            elif isinstance(inner_want, str):
                key = f'{name}/error-operand-result'
            else:
                key = f'{name}/associativity'
            if well_documented(ctx, key):
                bad.append((key, ''))
                continue
            bad.append((key, f'{expr} with a={a!r} b={b!r} c={c!r}: {detail}; expected '
                             f'{" or ".join(repr(w) for w in accept)} (the other order gives '
                             f'{show(got_r if got is got_l else got_l)})'))
        if not bad and len(accept) == 1 and not (got_l[1] == got_r[1]):
            bad.append((f'{name}/associativity', f'(a {op} b) {op} c = {show(got_l)} != a {op} (b {op} c) = '
                                                 f'{show(got_r)} with a={a!r} b={b!r} c={c!r}'))
        seen = set()
        for key, msg in bad:
            if key not in seen:
                seen.add(key)
                ctx.violation(key, msg, case)


# ----------------------------------------------------------------------------- the workload

DIRECTED_TRIPLES = [
    (('S', 1, 1, 2, 2), ('S', 3, 3, 4, 4), ('S', 3, 3, 3, 3)),      # (a & b) is #NULL!, a & (b & c) too
    (('S', 1, 1, 1, 1), ('S', 1, 1, 2, 2), ('S', 3, 3, 4, 4)),      # (b & c) is #NULL!
    (('S', 1, 1, 2, 2), ('T', 1, 1, 2, 2), ('T', 2, 2, 3, 3)),      # (a op b) is #VALUE!
    (('', 1, 1, 2, 2), ('S', 2, 2, 3, 3), ('', 2, 1, 2, 4)),        # sheet adoption through both orders
]


def part_directed(ctx):
    """a few hand-sized triples first, so that the written-out witnesses are small ones"""
    for a, b, c in DIRECTED_TRIPLES:
        ctx.count('directed_triples')
        check_triple(ctx, {'kind': 'triple', 'a': list(a), 'b': list(b), 'c': list(c)})
        ctx.case(('t3',) + a + b + c)


# sheet names that differ in one character of a class a careless key could drop: parsed one after the other
TWIN_SHEETS = [('US', 'US$'), ('EUR', '$EUR'), ('ab', 'a$b'), ('ab', 'a b'), ('a b', 'a  b'), ('its', "it's"),
               ('S1', 'S.1'), ('Data', 'Data_'), ('P&L', 'P&L '), ('x', 'x"'), ('2020', '2020 '),
               # (two spellings of one name: whatever the answer for them is, it does not depend on the order)
               ('Sheet1', 'SHEET1'), ('data', 'Data'), ('Größe', 'GRÖSSE')]
TWIN_COORDS = ['A1', '$A$1', 'B$2', 'C3:D4', '$C$3:$D$4', 'XFD1048576']


def check_twins(ctx, case):
    x, y = case['sheets']
    P = px()
    for coord in TWIN_COORDS:
        for order in ((x, y, x), (y, x, y)):
            for sh in order:
                text = R.quote(sh) + '!' + coord
                got = attempt(lambda: P.AddressRange.create(text))
                ctx.count('twin_parses')
                if got[0] == 'x' or isinstance(got[1], str) or got[1].sheet != sh or \
                        got[1].coordinate != coord.replace('$', ''):
                    ctx.violation('roundtrip/twin-sheet-names/' + ('exception' if got[0] == 'x' else 'other-address'),
                                  f'{text!r} parsed after {[R.quote(s) + "!" + coord for s in order]} up to it is '
                                  f'{show(got)}: sheet {sh!r}, coordinate {coord.replace("$", "")!r} expected', case)
                    return


def check_twin_lattice(ctx, case):
    """ranges on the two sheets of a twin pair as operands of & and **: commutative, and never an address on one of the
    two sheets in one order and on the other sheet in the other order"""
    x, y = case['sheets']
    P = px()
    a = P.AddressRange.create(R.quote(x) + '!A1:B2')
    b = P.AddressRange.create(R.quote(y) + '!B1:C3')
    for name, op in (('intersection', lambda p, q: p & q), ('union', lambda p, q: p ** q)):
        ab, ba = attempt(lambda: op(a, b)), attempt(lambda: op(b, a))
        ctx.count('twin_lattice_pairs')
        if ab[0] == 'x' or ba[0] == 'x' or str(ab[1]) != str(ba[1]) or getattr(ab[1], 'sheet', None) != getattr(ba[1], 'sheet', None):
            ctx.violation(f'{name}/commutativity/twin-sheet-names',
                          f'{a} {name} {b} = {show(ab)}, the other way round {show(ba)}', case)
            return


def part_twins(ctx):
    for pair in TWIN_SHEETS:
        check_twin_lattice(ctx, {'kind': 'twin-lattice', 'sheets': list(pair)})
    for pair in TWIN_SHEETS:
        ctx.count('twin_cases')
        check_twins(ctx, {'kind': 'twins', 'sheets': list(pair)})
        ctx.case(('twins',) + pair)


def part_roundtrip(ctx):
    rects = boundary_rects()
    sheets = [''] + LEGAL_SHEETS + BANG_SHEETS
    i = 0
    for sh in sheets:
        for rect in rects:
            i += 1
            if ctx.mine(i):
                case = {'kind': 'roundtrip', 'addr': [sh] + list(rect)}
                check_roundtrip(ctx, case)
                ctx.case(None)
                if i % 4001 == 0:
                    ctx.sample(case)
    rng = ctx.rng
    for i in range(SAMPLED[ctx.tier]['roundtrip']):
        if not ctx.mine(i):
            continue
        if ctx.out_of_time():
            break
        k = rng.random()
        sh = '' if k < 0.05 else rng.choice(LEGAL_SHEETS) if k < 0.3 else random_sheet(rng)
        case = {'kind': 'roundtrip', 'addr': [sh] + list(random_rect(rng))}
        ctx.count('roundtrip_sampled')
        check_roundtrip(ctx, case)
        ctx.case(('rt',) + tuple(case['addr']))


def sheet_forms_for(sh):
    return ['none'] if not sh else ['kwarg', 'plain', 'quoted']


def part_notation(ctx):
    rects = boundary_rects()
    i = 0
    for n, rect in enumerate(rects):
        for m, anchor in enumerate(FIXED_ANCHORS):
            sh = ([''] + LEGAL_SHEETS)[(n * 7 + m) % (1 + len(LEGAL_SHEETS))]
            for form in sheet_forms_for(sh):
                i += 1
                if ctx.mine(i):
                    check_notation(ctx, {'kind': 'notation', 'addr': [sh] + list(rect), 'anchor': list(anchor),
                                         'sheet_form': form})
                    ctx.case(None)
    # every anchor near the four corners of the sheet x every offset -3..3: the target wraps
    for ac in EDGE_COLS:
        for ar in EDGE_ROWS:
            for dc in range(-3, 4):
                for dr in range(-3, 4):
                    i += 1
                    if ctx.mine(i):
                        c, r = R.offset(ac, ar, dr, dc)
                        sh = ('', 'S', 'My Sheet')[i % 3]
                        case = {'kind': 'notation', 'addr': [sh, c, r, c, r], 'anchor': [ac, ar],
                                'sheet_form': sheet_forms_for(sh)[i % len(sheet_forms_for(sh))]}
                        ctx.count('notation_corner_neighbourhood')
                        check_notation(ctx, case)
                        ctx.case(None)
                        if i % 977 == 0:
                            ctx.sample(case)
    # sheet names with '!' given as text (a class of their own)
    for n, sh in enumerate(BANG_SHEETS):
        for form in ('plain', 'quoted'):
            i += 1
            if ctx.mine(i):
                check_notation(ctx, {'kind': 'notation', 'addr': [sh, 3, 5, 4 + n % 2, 5 + n % 2],
                                     'anchor': [2, 2], 'sheet_form': form})
                ctx.case(None)
    rng = ctx.rng
    for i in range(SAMPLED[ctx.tier]['notation']):
        if not ctx.mine(i):
            continue
        if ctx.out_of_time():
            break
        k = rng.random()
        sh = '' if k < 0.1 else rng.choice(LEGAL_SHEETS) if k < 0.5 else random_sheet(rng)
        case = {'kind': 'notation', 'addr': [sh] + list(random_rect(rng, 0.5)),
                'anchor': [random_col(rng), random_row(rng)], 'sheet_form': rng.choice(sheet_forms_for(sh))}
        ctx.count('notation_sampled')
        check_notation(ctx, case)
        ctx.case(('no',) + tuple(case['addr']) + tuple(case['anchor']) + (case['sheet_form'],))


def part_enum(ctx):
    i = 0
    pool = ['', 'S', 'My Sheet', "it's", '2020-data', 'A1', '日本語']
    for origin in GRID_ORIGINS:
        for n, rect in enumerate(R.grid_rects(4, *origin)):
            i += 1
            if ctx.mine(i):
                case = {'kind': 'enum', 'addr': [pool[n % len(pool)]] + list(rect),
                        'far': [[1, 1], [16384, 1048576], [rect[0], 1048576], [16384, rect[1]]]}
                check_enum(ctx, case)
                ctx.case(None)
                if i % 131 == 0:
                    ctx.sample(case)
    rng = ctx.rng
    for i in range(SAMPLED[ctx.tier]['enum']):
        if not ctx.mine(i):
            continue
        if ctx.out_of_time():
            break
        rect = random_small_rect(rng)
        sh = rng.choice(pool + LEGAL_SHEETS)
        case = {'kind': 'enum', 'addr': [sh] + list(rect),
                'far': [[random_col(rng), random_row(rng)] for _ in range(4)]}
        ctx.count('enum_sampled')
        check_enum(ctx, case)
        ctx.case(('en',) + tuple(case['addr']))


def part_offsets(ctx):
    i = 0
    cells = [(c, r, c, r) for c in BCOLS[::2] + [16384] for r in BROWS]
    ranges = [(1, 1, 2, 2), (16383, 1048575, 16384, 1048576), (26, 9, 28, 10)]
    for rect in cells + ranges:
        for dc in COL_OFFSETS:
            for dr in ROW_OFFSETS:
                i += 1
                if ctx.mine(i):
                    case = {'kind': 'offset', 'addr': [('', 'S', 'My Sheet')[i % 3]] + list(rect), 'dr': dr, 'dc': dc}
                    check_offset(ctx, case)
                    ctx.case(None)
    rng = ctx.rng
    for i in range(SAMPLED[ctx.tier]['offset']):
        if not ctx.mine(i):
            continue
        if ctx.out_of_time():
            break
        rect = random_rect(rng, 0.7)
        span = rng.choice((5, 300, 20000, 1200000, 2500000))
        case = {'kind': 'offset', 'addr': [rng.choice(['', 'S', "it's me"])] + list(rect),
                'dr': rng.randint(-span, span), 'dc': rng.randint(-min(span, 40000), min(span, 40000))}
        ctx.count('offset_sampled')
        check_offset(ctx, case)
        ctx.case(('of',) + tuple(case['addr']) + (case['dr'], case['dc']))


PAIR_CONFIGS = [((1, 1), '', ''), ((1, 1), 'S', 'S'), ((1, 1), 'S', ''), ((1, 1), '', 'S'), ((1, 1), 'S', 'T'),
                ((16381, 1048573), 'My Sheet', 'My Sheet'), ((16381, 1048573), '', "it's")]


def part_pairs(ctx):
    i = 0
    for origin, sa, sb in PAIR_CONFIGS:
        rects = R.grid_rects(4, *origin)
        for x, ra in enumerate(rects):
            for y, rb in enumerate(rects):
                i += 1
                if ctx.mine(i):
                    case = {'kind': 'pair', 'a': [sa] + list(ra), 'b': [sb] + list(rb),
                            'strings': (x + 3 * y) % 7 == 0}
                    check_pair(ctx, case)
                    ctx.case(None)
                    if i % 9973 == 0:
                        ctx.sample(case)


def part_triples(ctx):
    rects = R.grid_rects(4, 1, 1)
    specs = [('S',) + r for r in rects]
    objs = [mk(s) for s in specs]
    n = len(rects)
    every = 5 if ctx.quick else 1
    for x in range(n):
        for y in range(n):
            if not ctx.mine(x * n + y):
                continue
            done = 0
            for z in range(n):
                if (x * 7 + y * 3 + z) % every:
                    continue
                check_triple(ctx, {'kind': 'triple', 'a': specs[x], 'b': specs[y], 'c': specs[z]},
                             (objs[x], objs[y], objs[z]))
                done += 1
            ctx.count('triple_cases', done)
            ctx.case(None, n=done)


def part_mixed_triples(ctx):
    rects = R.grid_rects(4, 1, 1)
    rng = ctx.rng
    sheets = ('', 'S', 'T')
    for i in range(SAMPLED[ctx.tier]['mixed_triples']):
        if not ctx.mine(i):
            continue
        if ctx.out_of_time():
            break
        case = {'kind': 'triple', 'a': [rng.choice(sheets)] + list(rng.choice(rects)),
                'b': [rng.choice(sheets)] + list(rng.choice(rects)),
                'c': [rng.choice(sheets)] + list(rng.choice(rects))}
        ctx.count('triple_mixed_sheet_cases')
        check_triple(ctx, case)
        ctx.case(('t3',) + tuple(case['a']) + tuple(case['b']) + tuple(case['c']))
        if i % 1999 == 0:
            ctx.sample(case)


def related_rects(rng, k):
    """k large rectangles that have a fair chance of meeting: drawn around common pivots"""
    if rng.random() < 0.3:
        return [random_rect(rng, 0.15) for _ in range(k)]
    pc, pr = random_col(rng), random_row(rng)
    out = []
    for _ in range(k):
        span_c, span_r = rng.choice((1, 3, 40, 2000)), rng.choice((1, 3, 40, 100000))
        c1 = min(R.MAX_COL, max(1, pc + rng.randint(-span_c, span_c)))
        r1 = min(R.MAX_ROW, max(1, pr + rng.randint(-span_r, span_r)))
        c2 = min(R.MAX_COL, c1 + rng.randint(0, span_c))
        r2 = min(R.MAX_ROW, r1 + rng.randint(0, span_r))
        out.append((c1, r1, c2, r2))
    return out


def part_large(ctx):
    rng = ctx.rng
    for i in range(SAMPLED[ctx.tier]['large']):
        if not ctx.mine(i):
            continue
        if ctx.out_of_time():
            break
        k = rng.random()
        base = rng.choice(LEGAL_SHEETS) if k < 0.7 else random_sheet(rng)
        other = rng.choice([s for s in ('Other', 'T 2') if s.lower() != base.lower()])

        def pick():
            q = rng.random()
            return base if q < 0.75 else '' if q < 0.9 else other
        if rng.random() < 0.5:
            ra, rb = related_rects(rng, 2)
            case = {'kind': 'pair', 'a': [pick()] + list(ra), 'b': [pick()] + list(rb),
                    'strings': rng.random() < 0.3}
            ctx.count('large_pair_cases')
            check_pair(ctx, case)
            ctx.case(('lp',) + tuple(case['a']) + tuple(case['b']))
        else:
            ra, rb, rc = related_rects(rng, 3)
            case = {'kind': 'triple', 'a': [pick()] + list(ra), 'b': [pick()] + list(rb), 'c': [pick()] + list(rc)}
            ctx.count('large_triple_cases')
            check_triple(ctx, case)
            ctx.case(('lt',) + tuple(case['a']) + tuple(case['b']) + tuple(case['c']))
        if i % 1501 == 0:
            ctx.sample(case)


CHECKS = {'roundtrip': check_roundtrip, 'notation': check_notation, 'enum': check_enum,
          'offset': check_offset, 'pair': check_pair, 'triple': check_triple, 'twins': check_twins,
          'twin-lattice': check_twin_lattice}


def run(ctx):
    # sampled loops are bounded by count (SAMPLED) and only cut short by the budget; the two big
    # enumerations come last and do not look at the clock (they are sized to finish: 70 k pairs, 1 M triples)
    if ctx.shard == 0:
        part_directed(ctx)
    if ctx.shard == 1 % ctx.nshards:
        part_twins(ctx)
    part_roundtrip(ctx)
    part_notation(ctx)
    part_enum(ctx)
    part_offsets(ctx)
    part_mixed_triples(ctx)
    part_large(ctx)
    part_pairs(ctx)
    part_triples(ctx)


def replay(ctx, case):
    CHECKS[case['kind']](ctx, case)
    ctx.case(None)
