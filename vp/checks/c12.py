"""C12 - validate_calcs reports exactly the stored results that disagree.

For each generated workbook an .xlsx is written whose stored formula results are the fresh values
(vp.wb.write_xlsx).  (1) validate_calcs must return {} for all outputs / chosen outputs / with a
tolerance.  (2) Each formula cell reachable from the checked outputs in turn gets ONLY its stored
result altered (number beyond the tolerance, other text, flipped logical, other error code,
number <-> text): the report must list that cell under 'mismatch' with original = the stored value
and calced = the true value, and every other reported cell must be a ground-truth dependant of it;
alterations below the tolerance must not be reported.  (3) A cell calling an unknown function must
appear under 'not-implemented', a cell whose plugin raises under 'exceptions'.
"""
import contextlib
import io
import os

from vp import realbooks, wb, wbgen

PROP = 'C12'
LEVEL = 'fault_enumeration'
RULE = ('seeded acyclic workbooks (vp.wbgen.dag, sometimes with a CSE array) written as .xlsx with consistent stored '
        'results; every formula cell reachable from the chosen outputs in turn x alteration kind {number beyond '
        'tolerance, number below tolerance, text, logical, error code, number<->text} x tolerance {None, 1e-3, 0.5} x '
        'outputs {all, chosen}; plus unknown-function and raising-plugin cells. A case is one validate_calcs call; '
        'distinct by (workbook, altered cell, kind, tolerance, outputs); non-trivial = an alteration was applied.')
BUDGET = {'quick': 30, 'thorough': 300}
FLOORS = {
    'quick': {'validate_calls': 600, 'consistent_reports_empty': 100, 'alterations': 400,
              'kind:number-beyond': 60, 'kind:number-below': 60, 'kind:text': 20, 'kind:logical': 10,
              'kind:error': 10, 'kind:number-to-text': 30, 'kind:text-to-number': 10, 'not_implemented_cases': 30,
              'exception_cases': 30, 'other_reported_cells_checked': 100, 'tol:None': 100, 'tol:0.001': 100,
              'outputs:chosen': 40, 'outputs:all': 40, 'outputs:sheet': 10, 'big_workbook_validations': 9, 'second_validate_calcs_on_the_same_compiler': 6, 'validate_calcs_asked_to_raise_first': 15, 'unevaluable_cell_below_chosen_outputs': 10, 'unevaluable_cell_below_the_formulas_of_another_sheet': 3, 'prelude:noop-write': 40, 'prelude:read-input': 40, 'prelude:list-formula-cells': 40, 'real_book_validations': 6,
              'workbooks_with_iterative_calculation_on': 10, 'pristine_process_workbooks': 16, 'two_unevaluable_cells_cases': 12},
    'thorough': {'validate_calls': 12000, 'alterations': 8000, 'kind:logical': 300, 'kind:error': 300,
                 'not_implemented_cases': 600, 'exception_cases': 600},
}
ASSUMPTIONS = ['stored results are what pycel itself computes for a fresh model (the statement: "whose stored '
               'formula results are what its formulas produce")',
               'reachability and dependants come from the generator\'s ground-truth relation']

ERR = ['#N/A', '#DIV/0!', '#VALUE!', '#REF!', '#NAME?', '#NUM!', '#NULL!']


def quiet(fn, *a, **kw):
    with contextlib.redirect_stdout(io.StringIO()):
        return fn(*a, **kw)


def alter(rng, value, kind, tol):
    """the altered stored result, or None if this kind does not apply to the value"""
    new = _alter(rng, value, kind, tol)
    if kind == 'number-beyond' and new is not None:
        # the alteration must survive float rounding (|value| ~ 1e18 absorbs +-1.5) and the xlsx text form
        new = float(repr(float(new)))
        bound = tol if tol is not None else 1e-4 * abs(value)
        if not abs(new - value) > 2 * bound or abs(value) > 1e12:
            return None
    return new


def _alter(rng, value, kind, tol):
    num = isinstance(value, (int, float)) and not isinstance(value, bool)
    if kind == 'number-beyond' and num:
        if tol is None:
            return value * 1.01 if value else 0.5
        return value + rng.choice([-1, 1]) * 3 * tol
    if kind == 'number-below' and num:
        if tol is None:
            return value * (1 + 1e-7) if value else None
        return value + rng.choice([-1, 1]) * tol / 2
    if kind == 'text' and isinstance(value, str) and value not in ERR:
        return value + 'x'
    if kind == 'logical' and isinstance(value, bool):
        return not value
    if kind == 'error' and isinstance(value, str) and value in ERR:
        return rng.choice([e for e in ERR if e != value])
    if kind == 'number-to-text' and num:
        return 'abc'
    if kind == 'text-to-number' and isinstance(value, str) and value not in ERR:
        return 12345
    if kind == 'to-empty-text' and (num and value or isinstance(value, str) and value not in ERR and value != ''):
        return ''           # the stored result of a formula like =IF(A1>5,"big","")
    return None


KINDS = ['number-beyond', 'number-below', 'text', 'logical', 'error', 'number-to-text', 'text-to-number', 'to-empty-text']


def reachable(meta, outputs):
    out = set(outputs)
    for o in outputs:
        out |= wbgen.influencers(meta, o)
    return {a for a in out if a in meta['formulas']}


PRELUDES = ('none', 'none', 'read-input', 'noop-write', 'list-formula-cells')


def prelude(comp, spec, meta, how, pick):
    """calls a driver may make before validating that leave the workbook as the file has it: reading an input,
    and writing to an input the value it already has"""
    inputs = [a for a in meta['order'] if a not in meta['formulas']]
    if how == 'list-formula-cells':
        # what a driver does to count or show the formulas before it validates them
        list(comp.formula_cells())
        list(comp.formula_cells(spec['sheets'][0][0]))
        return
    if how == 'none' or not inputs:
        return
    addr = inputs[pick % len(inputs)]
    s, c = addr.rsplit('!', 1)
    value = dict(spec['sheets'])[s].get(c)
    quiet(comp.evaluate, addr)       # set_value needs the cell in the cell map
    if how == 'noop-write' and value is not None:
        quiet(comp.set_value, addr, value)


def one_validate(ctx, spec, meta, stored, outputs, tol, altered, kind, new_value, truth, how='none', pick=0,
                 sheet=None):
    """run validate_calcs on the workbook with ``stored`` results; check the report"""
    from pycel import ExcelCompiler
    case = {'spec': spec, 'meta': meta, 'outputs': outputs, 'tol': tol, 'altered': altered, 'kind': kind,
            'new_value': new_value, 'prelude': how, 'pick': pick, 'sheet': sheet}
    path = os.path.join(ctx.tmpdir, 'c12.xlsx')
    wb.write_xlsx(spec, path, stored)
    comp = ExcelCompiler(filename=path)
    try:
        prelude(comp, spec, meta, how, pick)
    except Exception as exc:
        if not wb.raised_outside_harness(exc):
            raise
        ctx.violation('prelude-raises', f'{how} of an input before validate_calcs raised {wb.describe(exc)}', case)
        return
    ctx.count('prelude:' + how)
    kw = {}
    if outputs is not None:
        kw['output_addrs'] = list(outputs)
    if sheet is not None:
        kw['sheet'] = sheet          # the outputs are the formula cells of this sheet
    if tol is not None:
        kw['tolerance'] = tol
    try:
        report = quiet(comp.validate_calcs, **kw)
    except Exception as exc:
        if not wb.raised_outside_harness(exc):
            raise
        ctx.violation('validate_calcs-raises', f'validate_calcs raised {wb.describe(exc)}', case)
        return
    ctx.count('validate_calls')
    ctx.count(f'tol:{tol}')
    ctx.count('outputs:' + ('sheet' if sheet is not None else 'all' if outputs is None else 'chosen'))
    ctx.case((repr(spec['sheets']), repr(spec['arrays']), altered, kind, tol, repr(outputs)),
             nontrivial=altered is not None)
    other = {k: v for k, v in report.items() if k != 'mismatch'}
    mism = report.get('mismatch', {})
    if other:
        ctx.violation('consistent-cells-reported-as-unevaluable',
                      f'report has {list(other)}: {str(other)[:300]} although every cell can be evaluated', case)
        return
    if altered is None:
        ctx.count('consistent_reports_empty')
        if mism:
            a = next(iter(mism))
            form = (meta['formulas'].get(a) or {}).get('form', '?')
            ctx.violation(f'consistent-workbook-reported/{form}',
                          f'stored results are what the formulas produce, yet the report lists {dict(mism)!r:.400}',
                          case)
        return
    ctx.count('alterations')
    ctx.count('kind:' + kind)
    form = meta['formulas'][altered]['form']
    if kind == 'number-below':
        # the statement only speaks about alterations beyond the tolerance.  Below it the altered cell
        # itself agrees with its formula and must not be listed; dependants recomputed from the slightly
        # different stored value may amplify the difference (exact MATCH, products, & ...) and may be listed
        if altered in mism:
            ctx.violation('alteration-below-tolerance-reported',
                          f'stored result of {altered} altered by less than the tolerance ({tol}): '
                          f'{truth!r} -> {new_value!r}, yet the report lists it: {mism[altered]!r:.200}', case)
            return
        deps = wbgen.dependants(meta, altered)
        for a in mism:
            ctx.count('other_reported_cells_checked')
            if a not in deps:
                ctx.violation('unrelated-cell-reported',
                              f'only the stored result of {altered} was altered (below the tolerance), but the '
                              f'report lists {a}, which does not depend on it', case)
                return
        return
    if altered not in mism:
        ctx.violation(f'altered-cell-not-reported/{kind}/{form}',
                      f'stored result of {altered} changed from {truth!r} to {new_value!r} (tolerance {tol}, outputs '
                      f'{outputs}); report lists only {list(mism)}', case)
        return
    if (spec.get('calc') or {}).get('iterate') and how == 'none':
        # a workbook saved with iterative calculation on is compared with its stored results on every run
        again = quiet(comp.validate_calcs, **kw).get('mismatch', {})
        ctx.count('second_validate_calcs_on_the_same_compiler')
        if altered not in again:
            ctx.violation(f'altered-cell-not-reported/second-run/{kind}',
                          f'stored result of {altered} changed from {truth!r} to {new_value!r}: the first '
                          f'validate_calcs({kw}) names it, a second one on the same compiler lists only {list(again)}', case)
            return
    m = mism[altered]
    if not wb.same(m.original, new_value) or not wb.same(m.calced, truth, rel=1e-6):
        ctx.violation(f'mismatch-entry-wrong-values/{kind}',
                      f'{altered}: stored {new_value!r}, true {truth!r}; the report says original={m.original!r} '
                      f'calced={m.calced!r}', case)
        return
    deps = wbgen.dependants(meta, altered)
    for a in mism:
        if a == altered:
            continue
        ctx.count('other_reported_cells_checked')
        if a not in deps:
            ctx.violation('unrelated-cell-reported',
                          f'only the stored result of {altered} was altered, but the report also lists {a}, which '
                          f'does not depend on it', case)
            return


def one_unevaluable(ctx, spec, meta, stored, cell, kind, second=None, sheet=None, outputs=None):
    from pycel import ExcelCompiler
    faulty = dict(spec, sheets=[[s, dict(c)] for s, c in spec['sheets']])
    for x in [cell] + ([second] if second else []):
        s, c = x.rsplit('!', 1)
        body = dict(faulty['sheets'])[s][c][1:]
        dict(faulty['sheets'])[s][c] = f'=NOSUCH({body})' if kind == 'nosuch' else f'=FAILK("v",0,{body})'
    s, c = cell.rsplit('!', 1)
    case = {'spec': faulty, 'meta': meta, 'cell': cell, 'kind': kind, 'unevaluable': True, 'stored': None,
            'second': second, 'sheet': sheet, 'outputs': outputs}
    path = os.path.join(ctx.tmpdir, 'c12u.xlsx')
    wb.write_xlsx(faulty, path, stored)
    comp = ExcelCompiler(filename=path, plugins='vp.plugins')
    try:
        if sheet is not None:
            ctx.count('unevaluable_cell_below_the_formulas_of_another_sheet')
        if outputs is not None:
            ctx.count('unevaluable_cell_below_chosen_outputs')
        if (len(cell) + len(kind) + (1 if second else 0)) % 3 == 0:
            # what a driver does to see the traceback first: the same call asked to raise, then the report
            kw_ = dict({'sheet': sheet} if sheet is not None else {}, **({'output_addrs': list(outputs)} if outputs else {}))
            try:
                quiet(comp.validate_calcs, raise_exceptions=True, **kw_)
                ctx.count('raise_exceptions_did_not_raise')
            except Exception as exc:     # noqa
                if not wb.raised_outside_harness(exc):
                    raise
                ctx.count('validate_calcs_asked_to_raise_first')
        report = quiet(comp.validate_calcs, **({'sheet': sheet} if sheet is not None else {}),
                       **({'output_addrs': list(outputs)} if outputs is not None else {}))
    except Exception as exc:
        if not wb.raised_outside_harness(exc):
            raise
        ctx.violation(f'validate_calcs-raises/{kind}', f'validate_calcs raised {wb.describe(exc)} instead of '
                      f'reporting {cell}', case)
        return
    ctx.count('validate_calls')
    ctx.count('not_implemented_cases' if kind == 'nosuch' else 'exception_cases')
    ctx.case((repr(faulty['sheets']), cell, kind))
    section = 'not-implemented or exceptions'     # the statement accepts either section
    listed = [entry[0] for sec in ('not-implemented', 'exceptions')
              for entries in report.get(sec, {}).values() for entry in entries]
    ctx.count('listed_under:' + ('not-implemented' if any(
        entry[0] == cell for entries in report.get('not-implemented', {}).values() for entry in entries)
        else 'exceptions' if cell in listed else 'nowhere'))
    for x in [cell] + ([second] if second else []):
        if x not in listed:
            elsewhere = {k: str(v)[:200] for k, v in report.items() if k != 'mismatch'}
            which = '' if not second else ('/first-of-two' if x == cell else '/second-of-two')
            ctx.violation(f'unevaluable-cell-not-reported/{kind}{which}',
                          f'{x} cannot be evaluated ({cell}{" and " + second if second else ""} use '
                          f'{"NOSUCH" if kind == "nosuch" else "a raising plugin"}) but is not listed under '
                          f'{section!r}; report: {elsewhere}, mismatches {list(report.get("mismatch", {}))}', case)
            break
    if second:
        ctx.count('two_unevaluable_cells_cases')


def one_workbook(ctx, rng, spec, meta, n_alter):
    truth_all = wb.fresh_values(spec)
    if any(o[0] == 'x' for o in truth_all.values()):
        ctx.count('skipped_workbooks_with_failing_cells')
        return
    stored = {a: o[1] for a, o in truth_all.items() if o[1] is not None and a in meta['formulas']}
    formulas = [a for a in meta['order'] if a in meta['formulas']]
    if not formulas:
        return
    ctx.count('workbooks')
    for tol in (None, 0.001):
        one_validate(ctx, spec, meta, stored, None, tol, None, None, None, None)
    chosen = rng.sample(formulas, min(len(formulas), rng.randint(1, 2)))
    one_validate(ctx, spec, meta, stored, chosen, rng.choice([None, 0.5]), None, None, None, None)
    if ctx.counters['workbooks'] % 15 == 1:
        ctx.sample({'cells': spec['sheets'], 'arrays': spec['arrays'], 'stored': {k: repr(v) for k, v in
                                                                                 list(stored.items())[:8]}})
    for _ in range(n_alter):
        outputs = None if rng.random() < 0.5 else rng.sample(formulas, min(len(formulas), rng.randint(1, 3)))
        sheet, roots = None, outputs if outputs is not None else formulas
        sheets_with_formulas = sorted({a.rsplit('!', 1)[0] for a in formulas})
        if len(sheets_with_formulas) > 1 and rng.random() < 0.4:
            # the formula cells of one sheet as the outputs: what they read on other sheets is reachable from them
            outputs, sheet = None, rng.choice(sheets_with_formulas)
            roots = [a for a in formulas if a.rsplit('!', 1)[0] == sheet]
        pool = sorted(reachable(meta, roots))
        if sheet is not None and any(a.rsplit('!', 1)[0] != sheet for a in pool if a in stored) and rng.random() < 0.7:
            pool = [a for a in pool if a.rsplit('!', 1)[0] != sheet]
        pool = [a for a in pool if a in stored]
        if not pool:
            continue
        cell = rng.choice(pool)
        tol = rng.choice([None, 0.001, 0.5])
        kinds = [k for k in KINDS if alter(rng, stored[cell], k, tol) is not None]
        if not kinds:
            continue
        kind = rng.choice(kinds)
        new = alter(rng, stored[cell], kind, tol)
        one_validate(ctx, spec, meta, dict(stored, **{cell: new}), outputs, tol, cell, kind, new, stored[cell],
                     how=rng.choice(PRELUDES), pick=rng.randrange(1000), sheet=sheet)
    plain = [a for a in formulas if a not in wb.array_members(spec)]
    if plain:
        one_unevaluable(ctx, spec, meta, stored, rng.choice(plain), rng.choice(['nosuch', 'failk']))
        # ... and a cell that the formulas of another sheet read, validated with that sheet's formulas as the outputs
        below = [(a, d.rsplit('!', 1)[0]) for a in plain for d in sorted(wbgen.dependants(meta, a))
                 if d in meta['formulas'] and d.rsplit('!', 1)[0] != a.rsplit('!', 1)[0]]
        if below:
            a, sh = rng.choice(below)
            one_unevaluable(ctx, spec, meta, stored, a, rng.choice(['nosuch', 'failk']), sheet=sh)
        # ... and a cell reached only from a chosen output that reads it (and fails with it)
        read = [(a, d) for a in plain for d in sorted(wbgen.dependants(meta, a)) if d in meta['formulas'] and d in plain]
        if read:
            a, d = rng.choice(read)
            one_unevaluable(ctx, spec, meta, stored, a, rng.choice(['nosuch', 'failk']), outputs=[d])
    if len(plain) >= 2 and rng.random() < 0.5:
        # two cells that fail for the same reason (the same unknown function, the same plugin)
        a, b = rng.sample(plain, 2)
        one_unevaluable(ctx, spec, meta, stored, a, rng.choice(['nosuch', 'failk']), second=b)


DIRECTED = [
    # (tag, cells, stored results, keyword arguments, altered cell that must be named, cells that must be listed as
    #  not evaluable, cells that must not be listed anywhere)
    ('altered-cell-only-under-a-whole-column-reference',
     {'A1': 1, 'A2': 2, 'B1': '=A1*2', 'B2': '=A2*3', 'C1': '=SUM(B:B)', 'D4': 5},
     {'B1': 2, 'B2': 7, 'C1': 8}, {'output_addrs': ['Sheet1!C1']}, 'B2', [], ['B1']),
    ('altered-cell-only-under-a-whole-row-reference',
     {'A1': 1, 'B1': 2, 'A2': '=A1*2', 'B2': '=B1*3', 'C4': '=SUM(2:2)'},
     {'A2': 2, 'B2': 7, 'C4': 8}, {'output_addrs': ['Sheet1!C4']}, 'B2', [], ['A2']),
    ('cell-that-does-not-compile-and-its-reader',
     {'A1': 1, 'A2': 2, 'A3': 3, 'B1': '=SUBTOTAL(12,A1:A3)', 'C1': '=B1+1', 'B3': '=A1+A2'},
     {'B3': 4}, {}, 'B3', ['B1', 'C1'], []),
    ('cell-that-cannot-be-built-is-visited-first',
     {'A1': 1, 'A2': 2, 'B1': '=A1*2', 'B2': '=A2*3', 'B9': '=[1]Prices!A1*2'},
     {'B1': 2, 'B2': 7}, {}, 'B2', ['B9'], ['B1']),
    ('cell-that-cannot-be-built-is-visited-first',
     {'A1': 1, 'A2': 2, 'B1': '=A1*2', 'B2': '=A2*3', 'B9': '=Missing!A1*2', 'C9': '=B1+B2'},
     {'B1': 2, 'B2': 7, 'C9': 8}, {'output_addrs': ['Sheet1!C9', 'Sheet1!B9']}, 'B2', ['B9'], ['B1']),
    # a range which starts on the first cell of an array formula and runs on over plain numbers / blanks / a
    # neighbouring column: everything is consistent but the one altered cell
    ('reader-of-a-range-that-starts-on-an-array-formula',
     {'A1': 1, 'A2': 2, 'A3': 3, 'D4': 7, 'D5': 8, 'E1': 5, 'E2': 6, 'E3': 7, 'G1': '=SUM(D1:D6)', 'G2': '=SUM(D1:E3)',
      'G3': '=G1+G2', 'B9': '=A1+A2'},
     {'D1': 2, 'D2': 4, 'D3': 6, 'G1': 27, 'G2': 30, 'G3': 57, 'B9': 4},
     {'arrays': [['Sheet1', 'D1:D3', '=A1:A3*2']]}, 'B9', [], ['G1', 'G2', 'G3', 'D1', 'D2', 'D3']),
]


def directed(ctx):
    from pycel import ExcelCompiler
    for tag, cells, stored, kw, altered, unevaluable, quiet_cells in DIRECTED:
        kw = dict(kw)
        spec = {'sheets': [['Sheet1', cells]], 'names': {}, 'arrays': kw.pop('arrays', []), 'calc': None}
        path = os.path.join(ctx.tmpdir, 'c12d.xlsx')
        wb.write_xlsx(spec, path, {f'Sheet1!{c}': v for c, v in stored.items()})
        case = {'kind': 'directed', 'tag': tag}
        ctx.count('directed_cases')
        ctx.case(('directed', tag, repr(cells)))
        try:
            report = quiet(ExcelCompiler(filename=path).validate_calcs, **kw)
        except Exception as exc:
            if not wb.raised_outside_harness(exc):
                raise
            ctx.violation(f'validate_calcs-raises/{tag}', f'{wb.describe(exc)} for {cells}', case)
            continue
        listed = [e[0] for k, sec in report.items() if k != 'mismatch' for es in sec.values() for e in es]
        mism = report.get('mismatch', {})
        problems = []
        if f'Sheet1!{altered}' not in mism:
            problems.append(f'the altered stored result of {altered} is not named')
        for c in unevaluable:
            if f'Sheet1!{c}' not in listed:
                problems.append(f'{c} cannot be evaluated and is not listed under exceptions / not-implemented')
        for c in quiet_cells:
            if f'Sheet1!{c}' in mism or f'Sheet1!{c}' in listed:
                problems.append(f'{c} is consistent and is reported')
        if problems:
            ctx.violation(f'directed/{tag}', f'{cells} with stored results {stored}, validate_calcs({kw}): ' +
                          '; '.join(problems) + f'. mismatches {list(mism)}, not evaluable {listed}', case)


def big_validate(ctx, rng):
    """a workbook of the large sizes (vp.wbgen.big) with a sheet Summary whose formulas read the 1000 cell block and the
    300-600 row table of Sheet1: one stored result of a formula cell inside the block is altered, the outputs are the
    formulas of Summary (sheet=), chosen outputs, or all"""
    from pycel import ExcelCompiler
    spec, meta = wbgen.big(rng)
    block = [a for a, m in meta['formulas'].items() if m['form'] == 'arith' and a[7:9].isalpha() and
             a.startswith('Sheet1!') and a[7] in 'AB' and len(a.rsplit('!', 1)[1].rstrip('0123456789')) == 2]
    agg = [a for a, m in meta['formulas'].items() if a == 'Sheet1!C400'][0]
    bref = dict(spec['sheets'])['Sheet1'][agg.rsplit('!', 1)[1]][5:-1]
    n_tab = max(int(a.rsplit('CB', 1)[1]) for a in meta['inputs'] if a.startswith('Sheet1!CB'))
    summary = {'B1': f'=SUM(Sheet1!{bref})', 'B2': f'=MAX(Sheet1!CB1:CB{n_tab})+Sheet1!D415', 'B3': '=B1+B2'}
    spec = dict(spec, sheets=spec['sheets'] + [['Summary', summary]])
    truth = wb.fresh_values(spec)
    stored = {a: o[1] for a, o in truth.items() if o[0] == 'v' and o[1] is not None and
              (a in meta['formulas'] or a.startswith('Summary!'))}
    path = os.path.join(ctx.tmpdir, 'c12big.xlsx')
    for how in ('sheet', 'outputs', 'all'):
        numeric = [a for a in sorted(block) if isinstance(stored.get(a), (int, float)) and not isinstance(stored.get(a), bool)]
        if not numeric:
            ctx.count('big_workbook_without_a_numeric_formula_in_the_block')
            return
        cell = rng.choice(numeric)
        new = stored[cell] + 1000
        wb.write_xlsx(spec, path, dict(stored, **{cell: new}))
        comp = ExcelCompiler(filename=path)
        kw = {'sheet': 'Summary'} if how == 'sheet' else {'output_addrs': ['Summary!B3']} if how == 'outputs' else {}
        case = {'kind': 'big'}
        ctx.count('big_workbook_validations')
        ctx.case(('big-validate', how, cell))
        try:
            report = quiet(comp.validate_calcs, **kw)
        except Exception as exc:
            if not wb.raised_outside_harness(exc):
                raise
            ctx.violation('validate_calcs-raises/large-workbook', f'validate_calcs({kw}) raised {wb.describe(exc)}', case)
            return
        mism = report.get('mismatch', {})
        other = {k: str(v)[:200] for k, v in report.items() if k != 'mismatch'}
        if cell not in mism or other:
            ctx.violation('altered-cell-not-reported/large-workbook/' + how,
                          f'stored result of {cell} (a formula inside the block {bref} that Summary!B1 adds up) changed from '
                          f'{stored[cell]!r} to {new!r}; validate_calcs({kw}) lists only {list(mism)[:6]} {other}', case)
            return


def run(ctx):
    if ctx.shard % 4 == 1 or not ctx.quick:
        import random
        from vp.core import h64
        big_validate(ctx, random.Random(h64(('c12-big', ctx.seed, ctx.shard))))
    if ctx.shard == 0:
        directed(ctx)
    rng = ctx.rng
    i = 0
    late = []
    # the workbooks shipped with the repository with one stored result altered in the file
    realbooks.run_cases(ctx, realbooks.c12_case, realbooks.acyclic_books(), 8 if ctx.quick else 80, fraction=0.25)
    while not ctx.out_of_time():
        i += 1
        spec, meta = wbgen.dag(rng, arrays=(i % 4 == 0), formula_ratio=0.65)
        if i % 5 == 0:
            # the same (acyclic) workbook saved with iterative calculation switched on
            spec = dict(spec, calc={'iterate': True, 'count': 100, 'delta': 0.001})
            ctx.count('workbooks_with_iterative_calculation_on')
        one_workbook(ctx, rng, spec, meta, 6)
        # (workbooks whose values depend on something resolved per workbook: the used area that A:A is clipped to)
        if i % 5 == 1 or any(m['form'] == 'unbounded' for m in meta['formulas'].values()):
            late.append((spec, meta))
    pristine_stored_results(ctx, late[-8:])


def pristine_stored_results(ctx, books):
    """stored results computed by a process that never saw another workbook, validated in this long-lived one:
    the report must be empty all the same (state that outlives a workbook - a cache on a class - shows here)"""
    if not books:
        return
    theirs = wb.pristine_outcomes([{'spec': spec} for spec, _ in books], ctx.tmpdir)
    for (spec, meta), vals in zip(books, theirs):
        if vals is None:
            raise RuntimeError('pristine child gave no result')
        if any(o[0] == 'x' for o in vals.values()):
            continue
        stored = {a: wb.denorm(o[1]) for a, o in vals.items() if a in meta['formulas'] and o[1] != ('blank',)}
        ctx.count('pristine_process_workbooks')
        one_validate(ctx, spec, meta, stored, None, None, None, None, None, None)


def replay(ctx, case):
    if case.get('kind') == 'directed':
        directed(ctx)
        return
    if case.get('kind') == 'big':
        import random
        from vp.core import h64
        for k in range(4):
            big_validate(ctx, random.Random(h64(('c12-big', ctx.seed, 4 * k + 1))))
        return
    if case.get('kind') == 'real-book':
        realbooks.c12_case(ctx, case['book'], case['case_seed'])
        return
    if case.get('unevaluable'):
        spec = case['spec']
        truth = {}
        one_unevaluable.__wrapped__ if False else None
        from pycel import ExcelCompiler
        path = os.path.join(ctx.tmpdir, 'c12u.xlsx')
        wb.write_xlsx(spec, path, None)
        comp = ExcelCompiler(filename=path, plugins='vp.plugins')
        report = quiet(comp.validate_calcs, **({'sheet': case['sheet']} if case.get('sheet') else {}),
                       **({'output_addrs': case['outputs']} if case.get('outputs') else {}))
        section = 'not-implemented or exceptions'
        listed = [e[0] for sec in ('not-implemented', 'exceptions')
                  for entries in report.get(sec, {}).values() for e in entries]
        for x in [case['cell']] + ([case['second']] if case.get('second') else []):
            if x not in listed:
                which = '' if not case.get('second') else ('/first-of-two' if x == case['cell'] else '/second-of-two')
                ctx.violation(f'unevaluable-cell-not-reported/{case["kind"]}{which}', f'{x} not under {section}', case)
                break
        return
    spec, meta = case['spec'], case['meta']
    truth_all = wb.fresh_values(spec)
    stored = {a: o[1] for a, o in truth_all.items() if o[1] is not None and a in meta['formulas']}
    if case['altered']:
        truth = stored[case['altered']]
        stored = dict(stored, **{case['altered']: case['new_value']})
    else:
        truth = None
    one_validate(ctx, spec, meta, stored, case['outputs'], case['tol'], case['altered'], case['kind'],
                 case['new_value'], truth, how=case.get('prelude', 'none'), pick=case.get('pick', 0),
                 sheet=case.get('sheet'))
