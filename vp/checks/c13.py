"""C13 - array (CSE) formulas: pointwise lifting and exact target shape.

(1) lifting: every operator and a set of array-aware functions applied to arrays up to 4x4 with
    scalar / single-row / single-column / row x column broadcasting; the oracle is the statement
    itself - at every position the value of the SAME scalar application (pycel's own scalar path)
    to the elements at that position.  Both through the library callables and through real formulas.
(2) fitting: every result shape x target shape <= 4x4 (exhaustive) through real array formula cells:
    the range value equals the fitting rule of the statement (trim, repeat scalar/row/column, #N/A),
    every member cell shows its own element, also after set_value on a source cell.
"""
import itertools

from vp import lib, wb

PROP = 'C13'
LEVEL = 'exploration'
RULE = ('(1) operators {+ - * / ^ & = <> < <= > >=} and array-aware functions (ABS, ROUND, MOD, POWER, INT, SIGN, '
        'LEFT, MID, UPPER, LEN, ISNUMBER, IF, IFERROR) x operand shapes up to 4x4 with scalar/row/column/row x column '
        'broadcasting x element fills incl. text, blanks, logicals and error values, through the library callables '
        'and through formulas in real workbooks; (2) all 16 x 16 (result shape, target shape) pairs x value fills x '
        'array formula kinds through ExcelCompiler, range and member cells, before and after a set_value. '
        'A case is one lifted application or one (result, target) fitting; distinct by (operator|function, shapes, '
        'fill) or (shapes, kind, fill); non-trivial = at least one operand is an array / shapes differ.')
BUDGET = {'quick': 25, 'thorough': 300}
FLOORS = {
    'quick': {'lift_cases': 2000, 'lift_positions': 12000, 'lift_through_workbook': 100, 'fit_cases': 512,
              'fit_positions': 4000, 'fit_member_cells': 4000, 'fit_after_set_value': 400, 'shape_pairs': 256,
              'broadcast:row-x-column': 80, 'broadcast:scalar': 300, 'broadcast:row': 150, 'broadcast:column': 150,
              'elements:error': 100, 'elements:text': 300, 'chained_fit_cases': 50,
              'lift_function_over_offset_array': 90, 'fit_oversized_reader_ranges': 500,
              'fit_cases_iterative_mode': 80, 'fit_cases_mixed_cells': 100},
    'thorough': {'lift_cases': 150000, 'fit_cases': 12000, 'shape_pairs': 256, 'lift_through_workbook': 5000},
}
EXHAUSTIVE = {'quick': False, 'thorough': False}
ASSUMPTIONS = ['the lifting oracle uses pycel\'s own scalar application (the statement is exactly this law); the '
               'scalar semantics themselves are decided by C10/C19/C20',
               'result shapes are produced by ranges of that shape (SRC*1, SRC&"", ABS(SRC), SRC+row vector ...)']

OPS = [('Add', '+'), ('Sub', '-'), ('Mult', '*'), ('Div', '/'), ('Pow', '^'), ('BitAnd', '&'), ('Eq', '='),
       ('NotEq', '<>'), ('Lt', '<'), ('LtE', '<='), ('Gt', '>'), ('GtE', '>=')]
NA = '#N/A'
FILLS = {
    'int': [1, 2, 3, 5, -4, 7, 10, 0, 12, -1, 8, 6, 9, 4, 11, 13],
    'mixed': [1, 'a', True, None, 2.5, 'B', False, 0, '3', -1, '', 7, 'x y', 4, None, 2],
    'error': [1, '#DIV/0!', 2, '#N/A', 3, '#VALUE!', 4, 5, '#REF!', 6, 7, '#NUM!', 8, 9, '#NAME?', 10],
    'float': [0.5, -2.25, 1.5, 3.0, 12.75, 0.25, -0.5, 2.0, 8.5, 1.25, 4.0, -7.5, 6.0, 0.75, 9.5, 10.0],
}


def grid(fill, h, w, offset=0):
    vals = FILLS[fill]
    return tuple(tuple(vals[(offset + i * w + j) % len(vals)] for j in range(w)) for i in range(h))


def count_elements(ctx, arr):
    for row in arr:
        for v in row:
            if isinstance(v, str) and v.startswith('#'):
                ctx.count('elements:error')
            elif isinstance(v, str):
                ctx.count('elements:text')
            elif v is None:
                ctx.count('elements:blank')


def bshape(a, b):
    """broadcast two (h, w) shapes per the statement, or None"""
    (ah, aw), (bh, bw) = a, b
    if ah != bh and 1 not in (ah, bh):
        return None
    if aw != bw and 1 not in (aw, bw):
        return None
    return max(ah, bh), max(aw, bw)


def at(arr, i, j):
    if not isinstance(arr, tuple):
        return arr
    h, w = len(arr), len(arr[0])
    return arr[i if h > 1 else 0][j if w > 1 else 0]


def kind_of(a, b):
    if not isinstance(b, tuple) or not isinstance(a, tuple):
        return 'scalar'
    (ah, aw), (bh, bw) = (len(a), len(a[0])), (len(b), len(b[0]))
    if (ah, aw) == (bh, bw):
        return 'same-shape'
    if {(ah == 1), (bh == 1)} == {True, False} and {(aw == 1), (bw == 1)} == {True, False} and (
            (ah == 1 and bw == 1) or (aw == 1 and bh == 1)):
        return 'row-x-column'
    if 1 in (ah, bh) and aw == bw:
        return 'row'
    if 1 in (aw, bw) and ah == bh:
        return 'column'
    return 'mixed'


def lift_operator(ctx, opname, sym, a, b, fill):
    fix = lib.operator_fixup()
    case = {'kind': 'lift-op', 'op': opname, 'a': a, 'b': b}
    try:
        got = fix(a, opname, b)
    except Exception as exc:
        if not wb.raised_outside_harness(exc):
            raise
        ctx.violation(f'operator-on-arrays-raises/{sym}/{kind_of(a, b)}',
                      f'{a!r} {sym} {b!r} raised {wb.describe(exc)}', case)
        return
    sa = (len(a), len(a[0])) if isinstance(a, tuple) else (1, 1)
    sb = (len(b), len(b[0])) if isinstance(b, tuple) else (1, 1)
    shape = bshape(sa, sb)
    for x in (a, b):
        count_elements(ctx, x if isinstance(x, tuple) else ((x,),))
    ctx.count('lift_cases')
    ctx.count('broadcast:' + kind_of(a, b))
    ctx.case(('op', opname, sa, sb, fill, isinstance(a, tuple), isinstance(b, tuple)))
    if not (isinstance(got, tuple) and got and isinstance(got[0], tuple) and
            (len(got), len(got[0])) == shape):
        ctx.violation(f'operator-result-shape/{sym}/{kind_of(a, b)}',
                      f'{sa} {sym} {sb} gives shape '
                      f'{(len(got), len(got[0])) if isinstance(got, tuple) and got and isinstance(got[0], tuple) else type(got).__name__}'
                      f', expected {shape}', case)
        return
    for i in range(shape[0]):
        for j in range(shape[1]):
            want = fix(at(a, i, j), opname, at(b, i, j))
            ctx.count('lift_positions')
            if not wb.same(got[i][j], want):
                ctx.violation(f'operator-not-pointwise/{sym}/{kind_of(a, b)}',
                              f'({a!r} {sym} {b!r})[{i}][{j}] = {got[i][j]!r} but '
                              f'{at(a, i, j)!r} {sym} {at(b, i, j)!r} = {want!r}', case)
                return


FUNCS = [
    # (python name, excel name, argument kinds: 'n' number grid, 't' text grid, 'a' any, literal scalar)
    ('abs_', 'ABS', ['n']), ('int_', 'INT', ['n']), ('sign', 'SIGN', ['n']),
    ('round_', 'ROUND', ['n', 1]), ('mod', 'MOD', ['n', 'n']), ('power', 'POWER', ['n', 2]),
    ('roundup', 'ROUNDUP', ['n', 0]), ('trunc', 'TRUNC', ['n']),
    ('left', 'LEFT', ['t', 1]), ('mid', 'MID', ['t', 1, 2]), ('upper', 'UPPER', ['t']),
    ('isnumber', 'ISNUMBER', ['a']), ('istext', 'ISTEXT', ['a']), ('iserror', 'ISERROR', ['a']),
    ('if_', 'IF', ['n', 'a', 'a']),
]


def lift_function(ctx, pyname, xlname, args, fill):
    f = lib.fn(pyname)
    case = {'kind': 'lift-fn', 'fn': pyname, 'args': args}
    arrays = [a for a in args if isinstance(a, tuple)]
    h, w = len(arrays[0]), len(arrays[0][0])
    try:
        got = f(*args)
    except Exception as exc:
        if not wb.raised_outside_harness(exc):
            raise
        ctx.violation(f'function-on-arrays-raises/{xlname}', f'{xlname}{args!r} raised {wb.describe(exc)}', case)
        return
    ctx.count('lift_cases')
    ctx.count('fn:' + xlname)
    ctx.case(('fn', pyname, (h, w), fill, tuple(isinstance(a, tuple) for a in args)))
    if not (isinstance(got, tuple) and got and isinstance(got[0], tuple) and (len(got), len(got[0])) == (h, w)):
        ctx.violation(f'function-result-shape/{xlname}',
                      f'{xlname} over {h}x{w} arrays gives {got!r:.200}', case)
        return
    for i in range(h):
        for j in range(w):
            want = f(*[a[i][j] if isinstance(a, tuple) else a for a in args])
            ctx.count('lift_positions')
            if not wb.same(got[i][j], want):
                ctx.violation(f'function-not-pointwise/{xlname}',
                              f'{xlname}{args!r}[{i}][{j}] = {got[i][j]!r} but the scalar call gives {want!r}', case)
                return


def lift_through_workbook(ctx, sym, opname, a, b, fill):
    """the same law through real cells: {=A1:..  op  F1:..} entered over the broadcast shape"""
    ah, aw = len(a), len(a[0])
    bh, bw = len(b), len(b[0])
    shape = bshape((ah, aw), (bh, bw))
    cells = {}
    for i in range(ah):
        for j in range(aw):
            cells[wb.coord(1 + j, 1 + i)] = a[i][j]
    for i in range(bh):
        for j in range(bw):
            cells[wb.coord(6 + j, 1 + i)] = b[i][j]
    ra = f'A1:{wb.coord(aw, ah)}' if (ah, aw) != (1, 1) else 'A1'
    rb = f'F1:{wb.coord(5 + bw, bh)}' if (bh, bw) != (1, 1) else 'F1'
    th, tw = shape
    target = f'A10:{wb.coord(tw, 9 + th)}' if shape != (1, 1) else 'A10'
    spec = {'sheets': [['Sheet1', cells]], 'names': {}, 'arrays': [['Sheet1', target, f'={ra}{sym}{rb}']],
            'calc': None}
    case = {'kind': 'lift-wb', 'op': opname, 'sym': sym, 'a': a, 'b': b}
    fix = lib.operator_fixup()
    comp = wb.compile_mem(spec)
    ctx.count('lift_through_workbook')
    ctx.case(('opwb', opname, (ah, aw), (bh, bw), fill))
    for i in range(th):
        for j in range(tw):
            m = f'Sheet1!{wb.coord(1 + j, 10 + i)}'
            got = wb.outcome(comp.evaluate, m)
            want = fix(at(a, i, j), opname, at(b, i, j))
            if want is None:
                want = 0
            ctx.count('lift_positions')
            if got[0] == 'x' or not (wb.same(got[1], want) or (want in (None, '') and got[1] in (0, ''))):
                err_scalar = any(len(x) == 1 and len(x[0]) == 1 and isinstance(x[0][0], str) and
                                 x[0][0].startswith('#') for x in (a, b))
                ctx.violation('array-formula-member-not-pointwise/' + (
                    'array-with-error-valued-scalar' if err_scalar else f'{sym}/{kind_of(a, b)}'),
                              f'member {m} of {{={ra}{sym}{rb}}} = {got!r}; {at(a, i, j)!r} {sym} {at(b, i, j)!r} = '
                              f'{want!r}', case)
                return


WB_FUNCS = [('ABS({a})', lambda f, v: f('abs_')(v)), ('ROUND({a},1)', lambda f, v: f('round_')(v, 1)),
            ('MOD({a},3)', lambda f, v: f('mod')(v, 3)), ('LEFT({a},1)', lambda f, v: f('left')(v, 1)),
            ('SIGN({a})', lambda f, v: f('sign')(v)), ('INT({a})', lambda f, v: f('int_')(v))]


def lift_function_through_workbook(ctx, h, w, k, via_offset):
    """{=F(range)} and {=F(OFFSET(A1,0,0,h,w))} entered over an h x w target: every member is the scalar F of
    its element (an array that comes out of OFFSET is an array like any other)"""
    template, scalar = WB_FUNCS[k % len(WB_FUNCS)]
    vals = grid('float', h, w, k)
    cells = {}
    for i in range(h):
        for j in range(w):
            cells[wb.coord(1 + j, 1 + i)] = vals[i][j]
    src = f'OFFSET(A1,0,0,{h},{w})' if via_offset else (f'A1:{wb.coord(w, h)}' if (h, w) != (1, 1) else 'A1')
    target = f'A10:{wb.coord(w, 9 + h)}' if (h, w) != (1, 1) else 'A10'
    formula = '=' + template.format(a=src)
    spec = {'sheets': [['Sheet1', cells]], 'names': {}, 'arrays': [['Sheet1', target, formula]], 'calc': None}
    case = {'kind': 'lift-fn-wb', 'h': h, 'w': w, 'k': k, 'via_offset': via_offset}
    comp = wb.compile_mem(spec)
    ctx.count('lift_function_through_workbook')
    ctx.count('lift_through_workbook')
    if via_offset:
        ctx.count('lift_function_over_offset_array')
    ctx.case(('fnwb', h, w, k % len(WB_FUNCS), via_offset))
    for i in range(h):
        for j in range(w):
            m = f'Sheet1!{wb.coord(1 + j, 10 + i)}'
            got = wb.outcome(comp.evaluate, m)
            want = scalar(lib.fn, vals[i][j])
            ctx.count('lift_positions')
            if got[0] == 'x' or not wb.same(got[1], want):
                ctx.violation('array-formula-function-not-pointwise/' + ('offset-array' if via_offset else 'range'),
                              f'member {m} of {{{formula}}} = {got!r}; the scalar call on {vals[i][j]!r} gives {want!r}',
                              case)
                return


# --------------------------------------------------------------------------- fitting

def fit_expected(result, th, tw):
    rh, rw = len(result), len(result[0])
    out = []
    for i in range(th):
        row = []
        for j in range(tw):
            if (rh == 1 or i < rh) and (rw == 1 or j < rw):
                row.append(result[i if rh > 1 else 0][j if rw > 1 else 0])
            else:
                row.append(NA)
        out.append(tuple(row))
    return tuple(out)


FIT_KINDS = {
    'times1': ('={src}*1', lambda v: v),
    # the cells themselves, of every type: an empty one shows as 0 like any formula result, FALSE and the empty text
    # (which python also takes for "nothing") stay what they are
    'identity': ('={src}', lambda v: 0 if v is None else v),
    'if-empty-text': ('=IF({src}="x y","",{src})', lambda v: '' if v == 'x y' else 0 if v is None else v),
    'concat': ('={src}&""', lambda v: _text(v)),
    'abs': ('=ABS({src})', lambda v: abs(v)),
    'plus-scalar': ('={src}+$J$9', lambda v: v + 100),
    # the scalar on the left; a scalar which is an error value on either side: every element the array covers is
    # that error, and the positions it does not cover are #N/A like for any other array
    'scalar-plus': ('=$J$9+{src}', lambda v: 100 + v),
    'error-times': ('=$J$8*{src}', lambda v: '#DIV/0!'),
    'times-error': ('={src}*$J$8', lambda v: '#DIV/0!'),
    # the result is a reference (an array like any other once it is shown in cells)
    'reference': ('=OFFSET(A1,0,0,{rh},{rw})', lambda v: v),
}


def _text(v):
    if isinstance(v, float) and v.is_integer():
        return str(int(v))
    return str(v)


def one_fit(ctx, rh, rw, th, tw, kind, fill, offset, iterative=False):
    src_vals = grid(fill, rh, rw, offset)
    template, f = FIT_KINDS[kind]
    # (the member cells of an array formula refer to their target by sheet name: also names that need quotes)
    sheet = ('Sheet1', 'Sheet1', 'My Sheet', 'P&L 2024')[(rh + rw + th + tw + offset) % 4]
    cells = {'J9': 100, 'J8': '#DIV/0!'}
    for i in range(rh):
        for j in range(rw):
            cells[wb.coord(1 + j, 1 + i)] = src_vals[i][j]
    src = f'A1:{wb.coord(rw, rh)}' if (rh, rw) != (1, 1) else 'A1'
    target = f'A10:{wb.coord(tw, 9 + th)}' if (th, tw) != (1, 1) else 'A10'
    formula = template.format(src=src, rh=rh, rw=rw)
    spec = {'sheets': [[sheet, cells]], 'names': {}, 'arrays': [[sheet, target, formula]],
            'calc': {'iterate': True, 'count': 20, 'delta': 0.001} if iterative else None}
    case = {'kind': 'fit', 'rh': rh, 'rw': rw, 'th': th, 'tw': tw, 'fkind': kind, 'fill': fill, 'offset': offset,
            'iterative': iterative}
    comp = wb.compile_mem(spec)
    ctx.count('fit_cases')
    if iterative:
        ctx.count('fit_cases_iterative_mode')
    ctx.case(('fit', rh, rw, th, tw, kind, fill, offset), nontrivial=(rh, rw) != (th, tw))
    tag = (f'result-{"scalar" if (rh, rw) == (1, 1) else "row" if rh == 1 else "column" if rw == 1 else "block"}'
           f'/target-{"cell" if (th, tw) == (1, 1) else "row" if th == 1 else "column" if tw == 1 else "block"}')

    def check(values, label):
        result = tuple(tuple(f(v) for v in row) for row in values)
        want = fit_expected(result, th, tw)
        if (th, tw) != (1, 1):
            got = wb.outcome(comp.evaluate, f'{sheet}!{target}')
            if got[0] == 'x':
                ctx.violation(f'array-range-raises/{tag}', f'{label}: evaluate({target}) raised {got[1]}', case)
                return False
            from vp.checks.c05 import elements
            try:
                el = elements(got[1], th, tw)
            except Exception:
                ctx.violation(f'array-range-wrong-shape/{tag}',
                              f'{label}: {{{formula}}} over {target} gives {got[1]!r:.200}, not {th}x{tw}', case)
                return False
            for (i, j), v in el.items():
                ctx.count('fit_positions')
                if not wb.same(v, want[i][j]):
                    ctx.violation(f'array-range-element-wrong/{tag}',
                                  f'{label}: {{{formula}}} ({rh}x{rw} result) over {target}: element [{i}][{j}] = '
                                  f'{v!r}, the fitting rule gives {want[i][j]!r}', case)
                    return False
        for i in range(th):
            for j in range(tw):
                m = f'{sheet}!{wb.coord(1 + j, 10 + i)}'
                got = wb.outcome(comp.evaluate, m)
                ctx.count('fit_member_cells')
                if got[0] == 'x' or not wb.same(got[1], want[i][j]):
                    ctx.violation(f'array-member-cell-wrong/{tag}',
                                  f'{label}: member {m} of {{{formula}}} ({rh}x{rw} result) over {target} = '
                                  f'{got!r}, its element is {want[i][j]!r}', case)
                    return False
        # a rectangle anchored at the target's first cell that reaches over blank cells next to it: the array
        # formula must not spread into them
        big = f'{sheet}!A10:{wb.coord(tw + 1, 9 + th + 2)}'
        got = wb.outcome(comp.evaluate, big)
        ctx.count('fit_oversized_reader_ranges')
        from vp.checks.c05 import elements
        try:
            el = elements(got[1], th + 2, tw + 1) if got[0] == 'v' else None
        except Exception:
            el = None
        bad = el is None
        if not bad:
            for (i, j), v in el.items():
                w_ = want[i][j] if i < th and j < tw else None
                if not wb.same(v, w_):
                    bad = True
                    break
        if bad:
            ctx.violation(f'array-formula-spreads-beyond-its-target/{tag}',
                          f'{label}: evaluate({big}) over the target {target} of {{{formula}}} plus blank cells gives '
                          f'{got!r:.300}', case)
            return False
        return True

    if not check(src_vals, 'first evaluation'):
        return
    if kind == 'reference':
        # cells reached only through a computed reference are not precedents in pycel's graph, a write to them
        # is not followed (outside of this property)
        return
    # change one source cell
    new = [list(r) for r in src_vals]
    new[rh - 1][rw - 1] = 41 if fill != 'float' else 41.5
    if fill == 'mixed' and src_vals[rh - 1][rw - 1] not in (None, False, ''):
        new[rh - 1][rw - 1] = (False, '', None)[(rh + rw + th + tw + offset) % 3]
    comp.set_value(f'{sheet}!{wb.coord(rw, rh)}', new[rh - 1][rw - 1])
    ctx.count('fit_after_set_value')
    check(tuple(tuple(r) for r in new), 'after set_value on a source cell')


def chained_fit(ctx, ysrc, ytgt, xtgt, first):
    """two array formulas: Y = {=SRC*1} over its target, X = {=Y_target+1} over another target of a
    different shape; after a set_value on a source cell of Y, X (a member or the range) is asked for
    before Y, so that Y is evaluated inside X's evaluation"""
    (sh, sw), (yh, yw), (xh, xw) = ysrc, ytgt, xtgt
    vals = grid('int', sh, sw, 3)
    cells = {}
    for i in range(sh):
        for j in range(sw):
            cells[wb.coord(1 + j, 1 + i)] = vals[i][j]
    src = f'A1:{wb.coord(sw, sh)}' if (sh, sw) != (1, 1) else 'A1'
    yref = f'F1:{wb.coord(5 + yw, yh)}' if (yh, yw) != (1, 1) else 'F1'
    xref = f'A10:{wb.coord(xw, 9 + xh)}' if (xh, xw) != (1, 1) else 'A10'
    spec = {'sheets': [['Sheet1', cells]], 'names': {}, 'calc': None,
            'arrays': [['Sheet1', yref, f'={src}*1'], ['Sheet1', xref, f'={yref}+1']]}
    case = {'kind': 'chain', 'ysrc': list(ysrc), 'ytgt': list(ytgt), 'xtgt': list(xtgt), 'first': first}
    comp = wb.compile_mem(spec)
    ctx.count('chained_fit_cases')
    ctx.case(('chain', ysrc, ytgt, xtgt, first))

    def check(values, label):
        yval = fit_expected(values, yh, yw)
        xres = tuple(tuple((v + 1) if isinstance(v, (int, float)) else v for v in row) for row in yval)
        xval = fit_expected(xres, xh, xw)
        order = [('x', xval, 10, 1), ('y', yval, 1, 6)]
        if first == 'y':
            order.reverse()
        for name, want, r0, c0 in order:
            for i in range(len(want)):
                for j in range(len(want[0])):
                    m = f'Sheet1!{wb.coord(c0 + j, r0 + i)}'
                    got = wb.outcome(comp.evaluate, m)
                    ctx.count('fit_member_cells')
                    if got[0] == 'x' or not wb.same(got[1], want[i][j]):
                        ctx.violation(f'chained-array-member-wrong/{name}-evaluated-{"first" if name == first else "second"}',
                                      f'{label}: member {m} of array formula {name.upper()} = {got!r}, its element '
                                      f'is {want[i][j]!r} (Y={{={src}*1}} over {yref}, X={{={yref}+1}} over {xref})',
                                      case)
                        return False
        return True

    if not check(vals, 'first evaluation'):
        return
    new = [list(r) for r in vals]
    new[0][0] = 50
    comp.set_value('Sheet1!A1', 50)
    ctx.count('fit_after_set_value')
    check(tuple(tuple(r) for r in new), f'after set_value on a source cell of Y, {first.upper()} asked for first')


DIRECTED_ARRAYS = [
    # ROW() / COLUMN() without an argument mean the member cell's own row / column
    ('row-column-without-argument', 'D1:D3', '=A1:A3*ROW()', (1, 4, 9)),
    ('row-column-without-argument', 'F2:F5', '=ROW()-ROW($F$2)+1', (1, 2, 3, 4)),
    ('row-column-without-argument', 'H1:K1', '=COLUMN()', (8, 9, 10, 11)),
    ('row-column-without-argument', 'H3:I4', '=ROW()*10+COLUMN()', ((38, 39), (48, 49))),
    # IFERROR / IFNA lift over the fallback argument too: the shape of the result is the shape of the array given
    ('iferror-scalar-with-array-fallback', 'M1:O3', '=IFERROR(A4/B1,A1:B2)',
     ((0.6, 0.6, '#N/A'), (0.6, 0.6, '#N/A'), ('#N/A', '#N/A', '#N/A'))),
    ('iferror-scalar-with-array-fallback', 'Q1:S3', '=IFERROR(A4/B2,A1:B2)',
     ((1, 10, '#N/A'), (2, 0, '#N/A'), ('#N/A', '#N/A', '#N/A'))),
    ('iferror-scalar-with-array-fallback', 'M5:N6', '=IFNA(A4,A1:B2)', ((6, 6), (6, 6))),
    # elements that are equal as python values and differ in type (1.0, TRUE, 1; 0.0, FALSE): each element is its own
    ('equal-elements-of-different-type', 'E10:E15', '=ISNUMBER(C1:C6)', (True, False, True, False, True, False)),
    ('equal-elements-of-different-type', 'F10:F15', '=ISLOGICAL(C1:C6)', (False, True, False, True, False, False)),
    ('equal-elements-of-different-type', 'G10:G15', '=ISTEXT(C1:C6)', (False, False, False, False, False, True)),
    # (text functions over 1, TRUE, 0, FALSE: how a float is rendered as text is not this property's matter)
    ('equal-elements-of-different-type', 'H10:H13', '=LEN(D1:D4)', (1, 4, 1, 5)),
    ('equal-elements-of-different-type', 'I10:I13', '=LEFT(D1:D4,1)', ('1', 'T', '0', 'F')),
    ('equal-elements-of-different-type', 'J10:J13', '=D1:D4&""', ('1', 'TRUE', '0', 'FALSE')),
    ('equal-elements-of-different-type', 'K10:K15', '=C1:C6=1', (True, False, False, False, True, False)),
    ('equal-elements-of-different-type', 'L10:L13', '=UPPER(D1:D4)', ('1', 'TRUE', '0', 'FALSE')),
    ('equal-elements-of-different-type', 'M10:M13', '=ISLOGICAL(D1:D4)', (False, True, False, True)),
]


def directed_arrays(ctx):
    from vp.checks.c05 import elements
    cells = {'A1': 1, 'A2': 2, 'A3': 3, 'B1': 10, 'B2': 0, 'A4': 6,
             'C1': 1.0, 'C2': True, 'C3': 0.0, 'C4': False, 'C5': 1, 'C6': '1',
             'D1': 1, 'D2': True, 'D3': 0, 'D4': False}
    for sheet in ('Sheet1', 'My Sheet'):
        for tag, target, formula, want in DIRECTED_ARRAYS:
            spec = {'sheets': [[sheet, cells]], 'names': {}, 'arrays': [[sheet, target, formula]], 'calc': None}
            rows = wb.range_cells(target)
            h, w = len(rows), len(rows[0])
            for members_first in (False, True):
                comp = wb.compile_mem(spec)
                ctx.count('directed_array_cases')
                ctx.case(('directed-array', sheet, target, formula, members_first))
                grid_ = want if h > 1 and w > 1 else (tuple((x,) for x in want) if w == 1 else (want,))
                checks = [('range', f'{sheet}!{target}', None)] + [
                    ('member', f'{sheet}!{rows[i][j]}', grid_[i][j]) for i in range(h) for j in range(w)]
                if members_first:
                    checks = checks[1:] + checks[:1]
                for what, a, exp in checks:
                    got = wb.outcome(comp.evaluate, a)
                    ok = got[0] == 'v'
                    if ok and what == 'range':
                        try:
                            el = elements(got[1], h, w)
                            ok = all(wb.same(el[(i, j)], grid_[i][j]) for i in range(h) for j in range(w))
                        except Exception:
                            ok = False
                    elif ok:
                        ok = wb.same(got[1], exp)
                    if not ok:
                        ctx.violation(f'array-formula-member-not-its-own-element/{tag}',
                                      f'{{{formula}}} over {sheet}!{target}: {what} {a} = {got!r}, expected '
                                      f'{want if what == "range" else exp!r}', {'kind': 'directed-arrays'})
                        break


def neighbouring_targets(ctx):
    """two array formulas next to each other (the first text a prefix of the second; the same text twice): a range
    read over both shows each target's own elements, an array formula never reaches into the other target"""
    from vp.checks.c05 import ARRAY_NEIGHBOURS
    for spec, text, want in ARRAY_NEIGHBOURS:
        for first in (True, False):
            comp = wb.compile_mem(spec)
            if not first:
                for a in wb.all_addresses(spec):
                    wb.outcome(comp.evaluate, a)
            got = wb.outcome(comp.evaluate, text)
            ctx.count('neighbouring_array_targets')
            ctx.case(('neighbours', text, repr(spec['arrays']), first))
            if got[0] != 'v' or not wb.same(got[1], want):
                ctx.violation('array-formula-spreads-beyond-its-target/into-a-neighbouring-array-formula',
                              f'evaluate({text!r}) over the array formulas {spec["arrays"]} gives {got!r}; the targets '
                              f'hold {want!r}', {'kind': 'neighbours'})


def run(ctx):
    if ctx.shard == 0:
        neighbouring_targets(ctx)
        directed_arrays(ctx)
    rng = ctx.rng
    # ---- (3) an array formula reading the target of another array formula of a different shape
    k = 0
    for ysrc, ytgt in (((2, 2), (2, 2)), ((1, 1), (3, 1)), ((1, 3), (2, 3)), ((3, 3), (2, 2)), ((2, 1), (2, 2))):
        for xtgt in ((4, 4), (1, 1), (3, 3), (2, 3), (4, 1)):
            for first in ('x', 'y'):
                k += 1
                if ctx.mine(k):
                    chained_fit(ctx, ysrc, ytgt, xtgt, first)
    # ---- (2) all shape pairs (deterministic, partitioned over the shards)
    shapes = [(h, w) for h in range(1, 5) for w in range(1, 5)]
    n = 0
    kinds = list(FIT_KINDS)
    for (rh, rw), (th, tw) in itertools.product(shapes, shapes):
        n += 1
        if not ctx.mine(n):
            continue
        ctx.count('shape_pairs')
        reps = 3 if ctx.quick else 16
        for r in range(reps):
            kind = kinds[(n + r) % len(kinds)]
            fill = 'float' if kind in ('abs', 'plus-scalar', 'scalar-plus') or r % 2 else 'int'
            if kind in ('identity', 'if-empty-text'):
                fill = 'mixed'
                ctx.count('fit_cases_mixed_cells')
            one_fit(ctx, rh, rw, th, tw, kind, fill, offset=(n * 7 + r * 3) % 16, iterative=(n + r) % 5 == 0)
    # ---- (1) lifting: deterministic sweep over shapes x broadcast partners
    m = 0
    for (h, w) in shapes:
        partners = {(h, w), (1, w), (h, 1), (1, 1)}
        for (ph, pw) in sorted(partners):
            for k, (opname, sym) in enumerate(OPS):
                m += 1
                if not ctx.mine(m):
                    continue
                fill = ['int', 'mixed', 'error', 'float'][(m + k) % 4]
                if opname == 'Pow':
                    fill = 'int'
                a = grid(fill, h, w, m % 16)
                b = grid('int' if opname == 'Pow' else fill, ph, pw, (m * 5) % 16)
                if opname == 'Pow':
                    b = tuple(tuple(abs(v) % 4 for v in row) for row in b)
                lift_operator(ctx, opname, sym, a, b, fill)
                lift_operator(ctx, opname, sym, b, a, fill)
                lift_operator(ctx, opname, sym, a, at(b, 0, 0), fill)          # python scalar partner
                lift_operator(ctx, opname, sym, at(b, 0, 0), a, fill)
                if fill == 'error':
                    lift_operator(ctx, opname, sym, a, '#NAME?', fill)       # error valued scalar partner
                    lift_operator(ctx, opname, sym, '#NAME?', a, fill)
                if m % 3 == 0:
                    lift_through_workbook(ctx, sym, opname, a, b, fill)
        # row x column
        if h > 1 and w > 1:
            for k, (opname, sym) in enumerate(OPS):
                m += 1
                if not ctx.mine(m):
                    continue
                fill = 'int' if opname == 'Pow' else ['int', 'mixed', 'error', 'float'][m % 4]
                col, row = grid(fill, h, 1, m % 16), grid(fill, 1, w, (m * 3) % 16)
                if opname == 'Pow':
                    row = tuple(tuple(abs(v) % 4 for v in r) for r in row)
                lift_operator(ctx, opname, sym, col, row, fill)
                lift_operator(ctx, opname, sym, row, col, fill)
                if m % 2 == 0:
                    lift_through_workbook(ctx, sym, opname, col, row, fill)
    for (h, w) in shapes:
        for pyname, xlname, kinds_ in FUNCS:
            m += 1
            if not ctx.mine(m):
                continue
            for fill_n, fill_t in (('int', 'mixed'), ('float', 'mixed'), ('error', 'error')):
                args = []
                for q, k in enumerate(kinds_):
                    if k == 'n':
                        args.append(grid(fill_n, h, w, (m + q) % 16))
                    elif k == 't':
                        args.append(tuple(tuple(_text(v) if v is not None else '' for v in row)
                                          for row in grid(fill_t, h, w, (m + q) % 16)))
                    elif k == 'a':
                        args.append(grid(fill_t, h, w, (m + q * 5) % 16))
                    else:
                        args.append(k)
                lift_function(ctx, pyname, xlname, args, fill_n)
    for (h, w) in shapes:
        for k in range(len(WB_FUNCS)):
            m += 1
            if ctx.mine(m):
                lift_function_through_workbook(ctx, h, w, k, via_offset=False)
                lift_function_through_workbook(ctx, h, w, k, via_offset=True)
    # ---- sampled extras until the budget ends
    while not ctx.out_of_time():
        h, w = rng.randint(1, 4), rng.randint(1, 4)
        ph, pw = rng.choice([(h, w), (1, w), (h, 1), (1, 1)])
        opname, sym = rng.choice(OPS)
        fill = 'int' if opname == 'Pow' else rng.choice(list(FILLS))
        a, b = grid(fill, h, w, rng.randrange(16)), grid(fill, ph, pw, rng.randrange(16))
        if opname == 'Pow':
            b = tuple(tuple(abs(v) % 4 for v in row) for row in b)
        lift_operator(ctx, opname, sym, a, b, fill)
        if rng.random() < 0.2:
            lift_through_workbook(ctx, sym, opname, a, b, fill)
        if rng.random() < 0.3:
            rh, rw, th, tw = (rng.randint(1, 4) for _ in range(4))
            kind = rng.choice(kinds)
            one_fit(ctx, rh, rw, th, tw, kind, 'float' if kind in ('abs', 'plus-scalar') else
                    'mixed' if kind in ('identity', 'if-empty-text') else
                    rng.choice(['int', 'float']), rng.randrange(16))


def _tt(x):
    return tuple(tuple(r) for r in x) if isinstance(x, list) else x


def replay(ctx, case):
    if case.get('kind') == 'directed-arrays':
        directed_arrays(ctx)
        return
    if case.get('kind') == 'neighbours':
        neighbouring_targets(ctx)
        return
    k = case['kind']
    if k == 'lift-fn-wb':
        lift_function_through_workbook(ctx, case['h'], case['w'], case['k'], case['via_offset'])
    elif k == 'chain':
        chained_fit(ctx, tuple(case['ysrc']), tuple(case['ytgt']), tuple(case['xtgt']), case['first'])
    elif k == 'fit':
        one_fit(ctx, case['rh'], case['rw'], case['th'], case['tw'], case['fkind'], case['fill'], case['offset'],
                iterative=case.get('iterative', False))
    elif k == 'lift-op':
        sym = dict(OPS)[case['op']]
        lift_operator(ctx, case['op'], sym, _tt(case['a']), _tt(case['b']), 'replay')
    elif k == 'lift-wb':
        lift_through_workbook(ctx, case['sym'], case['op'], _tt(case['a']), _tt(case['b']), 'replay')
    else:
        name = case['fn']
        xl = [f for f in FUNCS if f[0] == name][0][1]
        lift_function(ctx, name, xl, [_tt(a) for a in case['args']], 'replay')
