"""C14 - aggregates over ranges: SUM, AVERAGE, MIN, MAX, COUNT, SUBTOTAL, SUMPRODUCT.

Every pycel result is watched by (a) a linear-scan reference model written from the statement
(``vp.refmodel.aggregates``: exact rational arithmetic) and (b) the relations the statement names
between *pycel's own* results: invariance under permuting / reshaping the cells, SUM additive over a
partition into sub-rectangles / sub-lists / several range arguments, AVERAGE = SUM / COUNT,
SUBTOTAL(n, ...) = the function n names, SUMPRODUCT invariant under a common permutation.

Two paths: the library functions as a compiled formula reaches them (``vp.lib.call('sum_', range)``;
the bulk) and real worksheets (cells written into an in-memory workbook, ``=SUM(B2:D4)`` evaluated by
``ExcelCompiler.evaluate``; always for SUBTOTAL, which only exists at compile time).  In the worksheet
path the data may live on another sheet (name with a space), some cells are formulas yielding the
value (``=1/0``, ``="x"``, ``=TRUE``), and the formulas of one scenario share one workbook or get one
each.

Numbers: the *exact* pool (small ints, dyadic fractions: every sum / product is exact in binary
floating point in any order, so SUM/SUMPRODUCT/MIN/MAX/COUNT are compared exactly) and a *float*
pool (arbitrary floats |x| <= 1e6, compared within 1e-12 x the sum of the magnitudes of the terms).
AVERAGE is always compared within that tolerance (one division).  MIN/MAX/COUNT are always exact.

Deliberately permissive (the statement can be read two ways / is silent):
 * COUNT over a range holding error values: the number of numeric cells (Excel) or the first error
   (literal reading of the "first error value" clause) are both accepted; AVERAGE = SUM/COUNT is only
   asserted on error-free ranges.
 * "first error" is taken row-major inside a rectangle, range arguments left to right, and is
   applied to every rectangle as written; permutation/reshape invariance of the *result* is only
   asserted when at most one distinct error code is present (otherwise each side only has to obey the
   first-error rule of its own layout).
 * SUMPRODUCT over ranges containing error values: the statement only says "non-numbers counted as
   0"; accepted are any error code present in the arguments or the value with the error cells
   counted as 0.  It must not raise.
 * SUMPRODUCT over ranges of different shapes (error-free): #VALUE! is required (documented Excel
   behaviour, not in the statement; requested by the harness design).
 * int vs float of a numerically equal result is not distinguished; but the result must be a python
   int / float / str (no numpy scalar, no bool).
 * direct scalar arguments (``SUM("3", TRUE)``) have coercion rules of their own which the statement
   does not fix: only range arguments are generated.
A relation between two pycel results is reported only when neither operand already failed the
reference model (then it would be the same mechanism twice); the counters ``law:*`` show every
relation that was evaluated.

Workload = exhaustive() (small rectangles over the whole pool, same for every seed) + fixed()
(every shape x fill class x reps, contents from the shard's rng; size independent of the clock; all
floors are reached by these two alone) + sampled() (until the budget ends).

Mechanism keys (``diagnose``): FUNC/<predicate> where the predicate is one of - raises-<Exception>/
<input class>; result-type-<type>; last-error-returned / not-the-first-error / error-code-not-present
/ error-cells-ignored (input has error cells); SUMPRODUCT: mismatched-shapes-not-#VALUE!,
single-cell-ranges/<kind>-cell (worksheet path, every range 1x1), integer-result-beyond-int64 (all
numeric cells are ints and the true result needs more than 64 bits); SUBTOTAL/code-n-differs-from-FUNC
(the named function, same ranges, same workbook, is right); affected-by-<kinds>-cells /
wrong-on-plain-numbers: decided by a fixed probe battery (``battery``: FUNC over (7, v, 5) and
(-7, v, -5) for v in TRUE, "3", blank, "x") so that the key depends on the implementation's rule and
not on what else the failing range contained; else wrong-value/<input class>.  LAW/... for relations.
"""
import itertools
import os
from fractions import Fraction

from vp import lib, wb
from vp.refmodel import aggregates as ref

from vp.core import h64

PROP = 'C14'
LEVEL = 'exploration'
RULE = ('rectangles 1x1..5x5 (all 25 shapes) filled from pools of numbers (exact: small ints / dyadic '
        'fractions; float: arbitrary |x|<=1e6), numeric text ("3", " 3 ", "1e2"), text, "", TRUE/FALSE, '
        'blanks and the 7 error codes, in fill classes {numeric, mixed, sparse, nothing-numeric, blank, '
        'logical-heavy, numeric-text-heavy, one error, one code repeated, several codes, errors only}; '
        'exhaustive: every 1x1/1x2/2x1 rectangle over the full 41-value pool, every 2x2/1x3/3x1 over a '
        '10-value pool (library path), every 1x1 over the full pool through a workbook; sampled: per '
        'rectangle the five aggregates + a permuted/reshaped copy + a partition into sub-rectangles, '
        'sub-lists and several range arguments; SUBTOTAL(n) for the 10 codes; SUMPRODUCT of 1..3 equally '
        'shaped ranges (+ common permutation, mismatched shapes, near-int64 integer products). Paths: '
        'library function as a formula calls it / worksheet + ExcelCompiler.evaluate (the rectangle written out, '
        'or named by OFFSET(top-left,0,0,h,w) / INDIRECT("...") after the written form passed). A case = one '
        'scenario (all formulas over one set of rectangles); non-trivial = the ranges hold a cell that '
        'is not a plain number or at least two numeric cells; distinct by (kind, path, cell contents, '
        'permutation, partition, worksheet options).')
BUDGET = {'quick': 15, 'thorough': 180}
# every floor is below what the clock-independent part of the workload (exhaustive() + fixed())
# delivers on its own, so a loaded machine cannot make a run inconclusive
FLOORS = {
    'quick': {'directed:array_shown_ranges': 100, 'directed:ranges_beside_a_one_cell_sheet': 30, 'directed:cancelling': 16, 'directed:large_ranges': 11, 'exh:grids': 15403, 'exh:sumproduct': 12681, 'exh:wb': 141,
              'fixed:agg': 3300, 'fixed:subtotal': 300, 'fixed:sumproduct': 1125,
              'pycel_calls': 140000, 'calls:wb': 14000, 'calls:SUBTOTAL': 3000,
              'law:permutation:checked': 12000, 'law:permutation-several-codes:checked': 1500,
              'law:partition:checked': 5000, 'law:partition-as-arguments:checked': 4000,
              'law:average=sum/count:checked': 10000, 'law:subtotal:checked': 3000,
              'law:sumproduct-permutation:checked': 700,
              'branch:first-error': 50000, 'branch:nothing-numeric': 15000, 'class:several-codes': 10000,
              'sumproduct:mismatched': 200, 'sumproduct:beyond-int64': 30},
    'thorough': {'exh:grids': 15403, 'exh:sumproduct': 12681, 'exh:wb': 141,
                 'fixed:agg': 33000, 'fixed:subtotal': 3000, 'fixed:sumproduct': 11250,
                 'pycel_calls': 600000, 'calls:wb': 140000, 'calls:SUBTOTAL': 30000,
                 'law:permutation:checked': 120000, 'law:permutation-several-codes:checked': 15000,
                 'law:partition:checked': 50000, 'law:partition-as-arguments:checked': 40000,
                 'law:average=sum/count:checked': 40000, 'law:subtotal:checked': 30000,
                 'law:sumproduct-permutation:checked': 7000,
                 'branch:first-error': 200000, 'branch:nothing-numeric': 130000,
                 'class:several-codes': 60000, 'sumproduct:mismatched': 2000,
                 'sumproduct:beyond-int64': 500},
}
for _r in range(1, 6):
    for _c in range(1, 6):
        FLOORS['quick'][f'shape:{_r}x{_c}'] = 150
        FLOORS['thorough'][f'shape:{_r}x{_c}'] = 1500
ASSUMPTIONS = [
    'a range reaches a library function as a tuple of row tuples, blanks as None, error values as '
    'their code strings (what _R_ delivers); the workbook path checks this end to end',
    '"first error" = row-major inside a rectangle, range arguments left to right',
    'COUNT over ranges with error cells may return the numeric count or the first error',
    'SUMPRODUCT over ranges with error cells may return an error present or count them as 0',
    'only range arguments (no direct scalars) are generated; 1x1 rectangles are written A1:A1',
]

ERRORS = ref.ERRORS
PYNAME = {'SUM': 'sum_', 'AVERAGE': 'average', 'MIN': 'min_', 'MAX': 'max_', 'COUNT': 'count',
          'SUMPRODUCT': 'sumproduct'}
REL = Fraction(1, 10 ** 12)

class SubFloat(float):
    """a float of another class, like the ScalarFloat a model loaded from yml / json holds and the numpy.float64
    that SLOPE / FORECAST return (repr() stays a plain number: some routes write values as text)"""


NUM_EXACT = (0, 1, 2, 3, 5, 7, 10, 12, 64, 100, -1, -2, -7, -100,
             0.5, -0.5, 0.25, 1.5, -2.75, 3.125, 2.0, 0.0, -0.0,
             # numbers of a subclass of float
             SubFloat(4.5), SubFloat(6.0))
NUMTEXT = ('3', ' 3 ', '1e2', '-4.5')
TEXT = ('x', 'abc', 'TRUE', '', '# sold', '#12')        # (text that starts like an error value is text)
LOGICAL = (True, False)
FULL_POOL = NUM_EXACT + NUMTEXT + TEXT + LOGICAL + (None,) + ERRORS            # 45 values
SMALL_POOL = (1, 2.5, -3, '3', 'x', True, False, None, '#N/A', '#DIV/0!')      # 10 values
BIG_INTS = (10 ** 6, 999999, 10 ** 6 - 7, 987654, -10 ** 6, -999999)
FILLS = ('numeric', 'mixed', 'sparse', 'nothing-numeric', 'blank', 'logical-heavy', 'numtext-heavy',
         'one-error', 'one-code', 'several-codes', 'errors-only')
SP_FILLS = ('numeric', 'mixed', 'bigint', 'one-error', 'mismatch')
SHAPES = tuple((r, c) for r in range(1, 6) for c in range(1, 6))
SUBTOTAL_CODES = tuple(ref.SUBTOTAL)
DATA_SHEET = 'Data 1'


# --------------------------------------------------------------------------- generators

def rand_float(rng):
    k = rng.random()
    if k < .30:
        return rng.uniform(-1e6, 1e6)
    if k < .55:
        return rng.choice((-1, 1)) * 10 ** rng.uniform(-6, 6)
    if k < .75:
        return rng.randint(-10 ** 6, 10 ** 6)
    if k < .90:
        return round(rng.uniform(-1000, 1000), 2)
    return rng.choice((0.1, 0.2, 0.3, 0.7, 1e-7, -1e-7, 1e6, -1e6, 1 / 3))


def fill(rng, r, c, cls, exact):
    """a r x c grid (list of row lists) of the fill class ``cls``"""
    n = r * c
    if cls == 'bigint':
        def num():
            return rng.choice(BIG_INTS[:4]) if rng.random() < .9 else rng.choice(BIG_INTS)
    elif cls == 'bigpos':
        def num():
            return rng.choice(BIG_INTS[:4])
    elif exact:
        def num():
            return rng.choice(NUM_EXACT)
    else:
        def num():
            return rand_float(rng)

    def non():
        return rng.choice(NUMTEXT + TEXT + LOGICAL + (None, None))

    def mixed():
        return [num() if rng.random() < .5 else non() for _ in range(n)]

    if cls in ('numeric', 'bigint', 'bigpos', 'mismatch'):
        cells = [num() for _ in range(n)]
    elif cls == 'mixed':
        cells = mixed()
    elif cls == 'sparse':
        cells = [num() if rng.random() < .25 else None for _ in range(n)]
    elif cls == 'nothing-numeric':
        cells = [non() for _ in range(n)]
    elif cls == 'blank':
        cells = [None] * n
    elif cls == 'logical-heavy':
        cells = [num() if rng.random() < .4 else rng.choice(LOGICAL) for _ in range(n)]
    elif cls == 'numtext-heavy':
        cells = [num() if rng.random() < .4 else rng.choice(NUMTEXT) for _ in range(n)]
    elif cls == 'one-error':
        cells = mixed()
        cells[rng.randrange(n)] = rng.choice(ERRORS)
    elif cls == 'one-code':
        cells = mixed()
        code = rng.choice(ERRORS)
        for p in rng.sample(range(n), min(n, rng.randint(2, 4))):
            cells[p] = code
    elif cls == 'several-codes':
        cells = mixed()
        k = min(n, rng.randint(2, 4))
        for p, code in zip(rng.sample(range(n), k), rng.sample(ERRORS, k)):
            cells[p] = code
    elif cls == 'errors-only':
        cells = [non() for _ in range(n)]
        for p in rng.sample(range(n), min(n, rng.randint(1, 3))):
            cells[p] = rng.choice(ERRORS)
    else:
        raise ValueError(cls)
    return [cells[i * c:(i + 1) * c] for i in range(r)]


def gen_perm(rng, r, c):
    """a permutation of the r*c cells and a target shape (dims <= 5) with the same cell count"""
    n = r * c
    shapes = [(a, n // a) for a in range(1, 6) if n % a == 0 and n // a <= 5]
    shape = rng.choice(shapes)
    order = list(range(n))
    if rng.random() < .8 or shape == (r, c):
        rng.shuffle(order)
    return {'shape': list(shape), 'order': order}


def gen_parts(rng, r, c):
    """guillotine partition of the r x c rectangle into 1..5 sub-rectangles [r0, c0, r1, c1]"""
    rects = [[0, 0, r - 1, c - 1]]
    for _ in range(rng.randint(1, 4)):
        cand = [k for k, (r0, c0, r1, c1) in enumerate(rects) if r1 > r0 or c1 > c0]
        if not cand:
            break
        r0, c0, r1, c1 = rects.pop(rng.choice(cand))
        if r1 > r0 and (c1 == c0 or rng.random() < .5):
            cut = rng.randint(r0, r1 - 1)
            rects += [[r0, c0, cut, c1], [cut + 1, c0, r1, c1]]
        else:
            cut = rng.randint(c0, c1 - 1)
            rects += [[r0, c0, r1, cut], [r0, cut + 1, r1, c1]]
    rng.shuffle(rects)
    return rects


def gen_chunks(rng, n):
    """split n cells (row-major) into consecutive sub-lists of 1..5 cells"""
    out = []
    while n:
        k = rng.randint(1, min(5, n))
        out.append(k)
        n -= k
    return out


def gen_wbopt(rng, blocks, exact):
    computed = []
    if rng.random() < .35:
        for b, g in enumerate(blocks):
            for i, row in enumerate(g):
                for j, v in enumerate(row):
                    if v is not None and rng.random() < .4 and formula_for(v, exact) is not None:
                        computed.append([b, i, j])
    return {'origin': [rng.randint(1, 3), rng.randint(1, 3)], 'xsheet': rng.random() < .3,
            'computed': computed, 'sep': rng.random() < .15,
            'refform': rng.choice(('literal', 'literal', 'literal', 'offset', 'indirect'))}


def gen_agg(rng, r, c, cls, exact, path):
    grid = fill(rng, r, c, cls, exact)
    sc = {'kind': 'agg', 'path': path, 'exact': exact, 'fill': cls, 'grid': grid,
          'perm': gen_perm(rng, r, c), 'parts': gen_parts(rng, r, c),
          'chunks': gen_chunks(rng, r * c) if path == 'lib' else None}
    if path == 'wb':
        sc['wbopt'] = gen_wbopt(rng, [grid], exact)
    return sc


def gen_subtotal(rng, r, c, cls, exact):
    grids = [fill(rng, r, c, cls, exact)]
    if rng.random() < .25:
        r2, c2 = rng.choice(SHAPES)
        grids.append(fill(rng, r2, c2, rng.choice(('numeric', 'mixed', 'nothing-numeric')), exact))
    return {'kind': 'subtotal', 'path': 'wb', 'exact': exact, 'fill': cls, 'grids': grids,
            'wbopt': gen_wbopt(rng, grids, exact)}


def gen_sumproduct(rng, r, c, k, cls, exact, path):
    if cls in ('bigint', 'bigpos'):
        exact = False          # integer products near 2**63: an implementation may answer in floats
    if cls == 'mismatch':
        k = max(k, 2)
    grids = [fill(rng, r, c, 'numeric' if cls == 'one-error' and i else cls, exact) for i in range(k)]
    if cls == 'one-error':
        rng.shuffle(grids)
    perm = gen_perm(rng, r, c)
    if cls == 'mismatch':
        others = [s for s in SHAPES if s != (r, c)]
        same_count = [s for s in others if s[0] * s[1] == r * c]
        r2, c2 = rng.choice(same_count) if same_count and rng.random() < .4 else rng.choice(others)
        grids[rng.randrange(k)] = fill(rng, r2, c2, 'numeric' if rng.random() < .8 else 'mixed', exact)
        perm = None
    sc = {'kind': 'sumproduct', 'path': path, 'exact': exact, 'fill': cls, 'grids': grids, 'perm': perm}
    if path == 'wb':
        sc['wbopt'] = gen_wbopt(rng, grids, exact)
    return sc


# --------------------------------------------------------------------------- helpers

def tup(grid):
    return tuple(tuple(row) for row in grid)


def shape_of(grid):
    return (len(grid), len(grid[0]))


def flat(grid):
    return [v for row in grid for v in row]


def sub(grid, rect):
    r0, c0, r1, c1 = rect
    return tuple(tuple(row[c0:c1 + 1]) for row in grid[r0:r1 + 1])


def permuted(grid, perm):
    cells = flat(grid)
    r2, c2 = perm['shape']
    new = [cells[k] for k in perm['order']]
    return tuple(tuple(new[i * c2:(i + 1) * c2]) for i in range(r2))


def formula_for(v, exact):
    """a formula that evaluates to the value v (None: keep the constant)"""
    if isinstance(v, bool):
        return '=TRUE' if v else '=FALSE'
    if isinstance(v, int):
        return f'={v}' if v % 2 else f'={v - 1}+1'
    if isinstance(v, float):
        return f'={v!r}' if exact and 'e' not in repr(v) else None
    if v == '#DIV/0!':
        return '=1/0'
    if v == '#N/A':
        return '=NA()'
    if v in ERRORS:
        return '=' + v
    if isinstance(v, str):
        return '="' + v.replace('"', '""') + '"'
    return None


class Query:
    """one formula: func over range arguments.  ``values``: the ranges as tuples of row tuples;
    ``rects``: (block, [r0, c0, r1, c1]) per argument for the worksheet path (None: library only)"""
    __slots__ = ('tag', 'func', 'values', 'rects', 'out', 'bad', 'sibling')

    def __init__(self, tag, func, values, rects):
        self.tag, self.func, self.values, self.rects = tag, func, list(values), rects
        self.out = None
        self.bad = False
        self.sibling = None       # SUBTOTAL: the named function over the same ranges, same workbook

    def model_func(self):
        return ref.SUBTOTAL[int(self.func.split(':')[1])] if self.func.startswith('SUBTOTAL') else self.func

    def head(self):
        """function a deviation is attributed to: a SUBTOTAL whose named function fails the same
        way in the same workbook is the named function's defect, not one of the dispatch"""
        if self.func.startswith('SUBTOTAL'):
            return self.model_func() if self.sibling is not None and self.sibling.bad else 'SUBTOTAL'
        return self.func

    def text(self, opt=None):
        if self.rects is None or opt is None:
            return f'{self.func}({", ".join(repr(v) for v in self.values)})'
        return formula_text(self, opt)


def whole(block, grid):
    return (block, [0, 0, len(grid) - 1, len(grid[0]) - 1])


def ref_text(block, rect, opt):
    col0, row0 = opt['origin']
    r0, c0, r1, c1 = rect
    a = wb.coord(col0 + 6 * block + c0, row0 + r0)
    b = wb.coord(col0 + 6 * block + c1, row0 + r1)
    prefix = f"'{DATA_SHEET}'!" if opt['xsheet'] else ''
    form = opt.get('refform', 'literal')
    if form == 'offset':
        # the same rectangle, named by a reference-returning call
        return f'OFFSET({prefix}{a},0,0,{r1 - r0 + 1},{c1 - c0 + 1})'
    if form == 'indirect':
        return f'INDIRECT("{prefix}{a}:{b}")'
    return f'{prefix}{a}:{b}'


def formula_text(q, opt):
    refs = ','.join(ref_text(b, rect, opt) for b, rect in q.rects)
    if q.func.startswith('SUBTOTAL'):
        return f'=SUBTOTAL({q.func.split(":")[1]},{refs})'
    return f'={q.func}({refs})'


def eval_wb(blocks, queries, opt):
    """write the blocks into a worksheet, one formula cell per query; evaluate them"""
    col0, row0 = opt['origin']
    computed = {tuple(x) for x in opt['computed']}
    data = {}
    for b, grid in enumerate(blocks):
        for i, row in enumerate(grid):
            for j, v in enumerate(row):
                if v is None:
                    continue
                f = formula_for(v, True) if (b, i, j) in computed else None
                data[wb.coord(col0 + 6 * b + j, row0 + i)] = v if f is None else f

    def spec_for(formulas):
        if opt['xsheet']:
            sheets = [['Sheet1', dict(formulas)], [DATA_SHEET, dict(data)]]
        else:
            cells = dict(data)
            cells.update(formulas)
            sheets = [['Sheet1', cells]]
        return {'sheets': sheets, 'names': {}, 'arrays': [], 'calc': None}

    def run(formulas):
        try:
            comp = wb.compile_mem(spec_for(formulas))
        except Exception as exc:  # noqa  (a pycel failure: reported as the outcome of every formula)
            return {t: ('x', f'{type(exc).__name__}: {str(exc)[:120]}') for t in formulas}
        out = {}
        for t in formulas:
            try:
                out[t] = ('v', comp.evaluate(f'Sheet1!{t}'))
            except RecursionError:
                out[t] = ('x', 'RecursionError')
            except Exception as exc:  # noqa
                msg = str(exc).strip().splitlines()[-1][:120] if str(exc).strip() else ''
                out[t] = ('x', f'{type(exc).__name__}: {msg}')
        return out

    targets = {f'BZ{k + 1}': formula_text(q, opt) for k, q in enumerate(queries)}
    if opt['sep']:
        res = {}
        for t, f in targets.items():
            res.update(run({t: f}))
    else:
        res = run(targets)
    return [res[f'BZ{k + 1}'] for k in range(len(queries))]


def evaluate(ctx, sc, blocks, queries):
    if sc['path'] == 'lib':
        for q in queries:
            q.out = lib.call(PYNAME[q.func], *q.values)
    else:
        queries = [q for q in queries if q.rects is not None]
        for q, out in zip(queries, eval_wb(blocks, queries, sc['wbopt'])):
            q.out = out
    for q in queries:
        ctx.count('pycel_calls')
        ctx.count('calls:' + q.func.split(':')[0])
        ctx.count('calls:' + sc['path'])
        if sc['path'] == 'wb':
            ctx.count('range-named-by:' + sc['wbopt'].get('refform', 'literal'))
    return queries


# --------------------------------------------------------------------------- input classes / keys

def err_class(values):
    codes = set(ref.errors_in(values))
    return 'no-error' if not codes else ('one-code' if len(codes) == 1 else 'several-codes')


def input_tag(sc, q):
    """coarse input class used in mechanism keys when no more specific predicate applies"""
    vals = q.values
    if q.func == 'SUMPRODUCT' and len({ref.shape(v) for v in vals}) != 1:
        return 'mismatched-shapes'
    if sc['path'] == 'wb' and all(ref.shape(v) == (1, 1) for v in vals):
        return 'single-cell-ranges'
    ec = err_class(vals)
    if ec != 'no-error':
        return ec
    cells = list(ref.cells_of(vals))
    if not any(ref.is_numeric(v) for v in cells):
        return 'nothing-numeric'
    if all(ref.is_numeric(v) for v in cells):
        return 'numbers-only'
    return 'mixed-types'


def _num_text(v):
    if isinstance(v, str):
        try:
            return float(v.strip())
        except ValueError:
            return None
    return None


PROBE_KINDS = (('logical', True), ('numeric-text', '3'), ('blank', None), ('text', 'x'))
_BATTERY = {}


def battery(func):
    """Which kinds of non-numeric cell disturb pycel's FUNC on a fixed set of probe ranges.

    Used only to *name* a deviation that was already detected: the answer depends on the
    implementation alone, not on the failing input, so one defect ("logicals are counted") gets
    one key whatever else the failing range happened to contain.  Returns 'plain-numbers' when the
    function is already wrong on numbers only, else 'kind+kind' (possibly '')."""
    if func not in _BATTERY:
        def deviates(row):
            if func == 'SUMPRODUCT':
                ranges = [(row,), ((1,) * len(row),)]
                want = ref.sumproduct(ranges)
            else:
                ranges = [(row,)]
                want = ref.value(func, ranges)
            out = lib.call(PYNAME[func], *ranges)
            return out[0] == 'x' or not ref.matches(out[1], want, REL)
        if deviates((7, 5)) or deviates((-7, -5)) or deviates((7, 0.5, -5)):
            _BATTERY[func] = 'plain-numbers'
        else:
            _BATTERY[func] = '+'.join(name for name, v in PROBE_KINDS
                                      if deviates((7, v, 5)) or deviates((-7, v, -5)))
    return _BATTERY[func]


def by_battery(head, func):
    kinds = battery(func)
    if kinds == 'plain-numbers':
        return f'{head}/wrong-on-plain-numbers'
    if kinds:
        return f'{head}/affected-by-{kinds}-cells'
    return None


def fallback_tag(sc, q):
    tag = input_tag(sc, q)
    if tag not in ('mismatched-shapes', 'single-cell-ranges') and len(q.values) > 1 and q.func != 'SUMPRODUCT':
        return 'several-range-arguments'
    return tag


def diagnose(sc, q, got, rel):
    """mechanism key of a value that the reference model rejects: explicit predicates over the
    function, the class of the input (errors present / shapes / single cells / integer size) and the
    kind of answer (another error, errors ignored, the value of another function); for wrong numbers
    on error-free input the probe battery names the kinds of cell that disturb the function.
    Never the numbers themselves."""
    func = q.model_func()
    vals = q.values
    head = q.head()
    errs = ref.errors_in(vals)
    if head == 'SUBTOTAL' and q.sibling is not None:
        return f'SUBTOTAL/code-{q.func.split(":")[1]}-differs-from-{func}'
    if isinstance(got, str) and got not in ERRORS:
        return f'{head}/returns-text-that-is-no-error-code'
    if func == 'SUMPRODUCT':
        tag = input_tag(sc, q)
        if tag == 'mismatched-shapes':
            return 'SUMPRODUCT/mismatched-shapes-not-#VALUE!'
        if tag == 'single-cell-ranges':
            cells = list(ref.cells_of(vals))
            kind = ('blank' if any(v is None for v in cells) else
                    'logical' if any(isinstance(v, bool) for v in cells) else
                    'text' if any(isinstance(v, str) and v not in ERRORS for v in cells) else
                    'error' if errs else 'numbers')
            return f'SUMPRODUCT/single-cell-ranges/{kind}-cell'
        if errs:
            return 'SUMPRODUCT/' + ('error-code-not-present-in-ranges' if isinstance(got, str)
                                    else 'wrong-value/' + tag)
        if isinstance(got, str):
            return f'SUMPRODUCT/error-returned-for-error-free-ranges/{tag}'
        want = ref.sumproduct(vals)
        nums = [v for v in ref.cells_of(vals) if ref.is_numeric(v)]
        if all(isinstance(v, int) for v in nums) and abs(want[1]) >= 2 ** 63:
            return 'SUMPRODUCT/integer-result-beyond-int64'
        return by_battery(head, func) or f'SUMPRODUCT/wrong-value/{tag}'
    if errs and isinstance(got, str):
        if got in errs:
            return f'{head}/' + ('last-error-returned' if got == errs[-1] else 'not-the-first-error')
        return f'{head}/error-code-not-present-in-range'
    if errs and ref.matches(got, ref.value(func, vals, pick='ignore'), rel):
        return f'{head}/error-cells-ignored'
    if not errs and isinstance(got, str) and ref.numerics_in(vals):
        return f'{head}/error-returned-for-error-free-range/{fallback_tag(sc, q)}'
    named = by_battery(head, func)
    if named:
        return named
    tag = fallback_tag(sc, q)
    if tag == 'nothing-numeric':
        return f'{head}/nothing-numeric-not-' + ('DIV0' if func == 'AVERAGE' else '0')
    return f'{head}/wrong-value/{tag}'


def report(ctx, sc, q, key, msg):
    q.bad = True
    case = dict(sc)
    case['failing'] = q.tag
    form = (sc.get('wbopt') or {}).get('refform', 'literal')
    if sc['path'] == 'wb' and form != 'literal':
        key += f'/range-named-by-{form}'
    ctx.violation(key, msg, case)


# --------------------------------------------------------------------------- the oracle

def judge(ctx, sc, q, rel):
    """reference model + result type for one evaluated query"""
    opt = sc.get('wbopt')
    func, vals = q.model_func(), q.values
    head = q.head()
    if q.out[0] == 'x':
        exc = q.out[1].split(':')[0]
        report(ctx, sc, q, f'{head}/raises-{exc}/{input_tag(sc, q)}',
               f'{q.text(opt)} raised {q.out[1]} [ranges {q.values!r}]')
        return
    got = q.out[1]
    if not ref.plain(got):
        report(ctx, sc, q, f'{head}/result-type-{type(got).__name__}',
               f'{q.text(opt)} returned {got!r} of type {type(got).__module__}.{type(got).__name__}; '
               f'a python int/float/str is required [ranges {q.values!r}]')
    ec = err_class(vals)
    ctx.count('class:' + ec)
    if func == 'SUMPRODUCT':
        want = ref.sumproduct(vals)
        if want[0] == 'shape':
            ctx.count('sumproduct:mismatched')
            if ec == 'no-error':
                ok, shown = got == ref.VALUE, '#VALUE!'
            else:
                ok, shown = isinstance(got, str) and got in ERRORS, 'an error code'
        elif want[0] == 'e':
            ctx.count('branch:sumproduct-with-errors')
            alt = ref.sumproduct(vals, errors_as_zero=True)
            ok = (isinstance(got, str) and got in ref.errors_in(vals)) or ref.matches(got, alt, rel)
            ctx.count('sumproduct:error-returned' if isinstance(got, str) else 'sumproduct:errors-as-0')
            shown = f'{want[1]} (or another error present, or errors counted as 0)'
        else:
            ctx.count('branch:sumproduct-value')
            if abs(want[1]) >= 2 ** 63:
                ctx.count('sumproduct:beyond-int64')
            ok, shown = ref.matches(got, want, rel), show(want)
        if not ok:
            report(ctx, sc, q, diagnose(sc, q, got, rel),
                   f'{q.text(opt)} = {got!r}, the sum of pointwise products (non-numbers as 0) is '
                   f'{shown} [ranges {q.values!r}]')
        return
    wants = ref.acceptable(func, vals, rel)
    if wants[0][0] == 'e':
        ctx.count('branch:first-error')
    elif not ref.numerics_in(vals):
        ctx.count('branch:nothing-numeric')
    else:
        ctx.count('branch:numeric-cells')
    frel = REL if func == 'AVERAGE' else rel
    if not any(ref.matches(got, w, frel) for w in wants):
        report(ctx, sc, q, diagnose(sc, q, got, frel),
               f'{q.text(opt)} = {got!r}, reference model (numeric cells only, first error) gives '
               f'{" or ".join(show(w) for w in wants)} [ranges {q.values!r}]')
    elif func == 'COUNT' and len(wants) > 1:
        ctx.count('count-with-errors:' + ('error-returned' if isinstance(got, str) else 'numeric-count'))


def show(w):
    if w[0] == 'e':
        return w[1]
    if w[0] == 'shape':
        return '#VALUE!'
    v = w[1]
    return str(v.numerator) if v.denominator == 1 else repr(float(v))


def same_result(a, b, rel, scale):
    """two pycel results agree (numbers within rel*scale, error codes identical)"""
    if isinstance(a, str) or isinstance(b, str):
        return isinstance(a, str) and isinstance(b, str) and a == b
    fa, fb = ref.as_fraction(a), ref.as_fraction(b)
    if fa is None or fb is None:
        return False
    return abs(fa - fb) <= Fraction(rel) * scale


def law(ctx, sc, name, key, operands, holds, msg):
    """a relation between pycel results; reported only if every operand passed the model"""
    ctx.count(f'law:{name}:checked')
    if any(q.out is None or q.out[0] == 'x' for q in operands):
        ctx.count(f'law:{name}:operand-raised')
        return
    if holds():
        ctx.count(f'law:{name}:held')
        return
    if any(q.bad for q in operands):
        ctx.count(f'law:{name}:broken-by-an-operand-already-reported')
        return
    case = dict(sc)
    case['failing'] = [q.tag for q in operands]
    ctx.violation(key, msg(), case)


def scale_of(func, vals):
    if func == 'SUMPRODUCT':
        w = ref.sumproduct(vals, errors_as_zero=True)
    else:
        w = ref.value(func, vals, pick='ignore')
    return w[2] if w[0] == 'n' else Fraction(0)


# --------------------------------------------------------------------------- scenarios

def nontrivial(blocks):
    cells = [v for g in blocks for v in flat(g)]
    return any(not ref.is_numeric(v) for v in cells) or len(cells) >= 2


def note_grid(ctx, grid):
    r, c = shape_of(grid)
    ctx.count(f'shape:{r}x{c}')
    cells = flat(grid)
    for name, pred in (('number', ref.is_numeric), ('logical', ref.is_logical), ('error', ref.is_error),
                       ('blank', lambda v: v is None),
                       ('numeric-text', lambda v: isinstance(v, str) and _num_text(v) is not None),
                       ('text', lambda v: isinstance(v, str) and not ref.is_error(v) and _num_text(v) is None)):
        if any(pred(v) for v in cells):
            ctx.count('grids-with:' + name)


def run_agg(ctx, sc):
    grid = tup(sc['grid'])
    rel = 0 if sc['exact'] else REL
    opt = sc.get('wbopt')
    blocks = [grid]
    note_grid(ctx, grid)
    qs = {f: Query(f'R:{f}', f, [grid], [whole(0, grid)]) for f in ref.FUNCS}
    queries = list(qs.values())
    ps = {}
    if sc.get('perm'):
        g2 = permuted(grid, sc['perm'])
        blocks.append(g2)
        ps = {f: Query(f'P:{f}', f, [g2], [whole(1, g2)]) for f in ref.FUNCS}
        queries += ps.values()
    parts = multi = None
    if sc.get('parts'):
        rects = sc['parts']
        parts = [Query(f'part:{k}', 'SUM', [sub(grid, rc)], [(0, rc)]) for k, rc in enumerate(rects)]
        multi = Query('multi', 'SUM', [sub(grid, rc) for rc in rects], [(0, rc) for rc in rects])
        queries += parts + [multi]
    chunks = cmulti = None
    if sc.get('chunks') and sc['path'] == 'lib':
        cells, pos, lists = flat(grid), 0, []
        for k in sc['chunks']:
            lists.append((tuple(cells[pos:pos + k]),))
            pos += k
        chunks = [Query(f'chunk:{k}', 'SUM', [l], None) for k, l in enumerate(lists)]
        cmulti = Query('chunks-multi', 'SUM', lists, None)
        queries += chunks + [cmulti]

    queries = evaluate(ctx, sc, blocks, queries)
    for q in queries:
        judge(ctx, sc, q, rel)

    ec = err_class([grid])
    # AVERAGE = SUM / COUNT (error-free ranges only)
    if ec == 'no-error':
        for group, g in ((qs, grid),) + (((ps, blocks[1]),) if ps else ()):
            s, a, n = group['SUM'], group['AVERAGE'], group['COUNT']

            def holds(s=s, a=a, n=n, g=g):
                sv, av, nv = s.out[1], a.out[1], n.out[1]
                if isinstance(nv, str) or isinstance(sv, str) or ref.as_fraction(nv) is None:
                    return False
                if ref.as_fraction(nv) == 0:
                    return av == ref.DIV0
                fs, fa = ref.as_fraction(sv), ref.as_fraction(av)
                if fs is None or fa is None:
                    return False
                return abs(fa - fs / ref.as_fraction(nv)) <= REL * scale_of('AVERAGE', [g]) + \
                    Fraction(rel) * scale_of('AVERAGE', [g])
            law(ctx, sc, 'average=sum/count', 'LAW/AVERAGE-differs-from-SUM-over-COUNT', [s, a, n], holds,
                lambda s=s, a=a, n=n: f'{a.text(opt)} = {a.out[1]!r} but {s.text(opt)} = {s.out[1]!r} and '
                                      f'{n.text(opt)} = {n.out[1]!r} [range {grid!r}]')
    # permutation / reshape invariance (result equality when at most one distinct code)
    if ps:
        kind = 'reshape' if sc['perm']['order'] == sorted(sc['perm']['order']) else 'permutation'
        ctx.count('perm-kind:' + kind)
        for f in ref.FUNCS:
            a, b = qs[f], ps[f]
            if ec == 'several-codes':
                codes = set(ref.errors_in([grid]))

                def holds(a=a, b=b, codes=codes, f=f):
                    return all((isinstance(x.out[1], str) and x.out[1] in codes) or
                               (f == 'COUNT' and not isinstance(x.out[1], str)) for x in (a, b))
                law(ctx, sc, 'permutation-several-codes', f'LAW/{f}-permuted-result-is-no-error-present',
                    [a, b], holds,
                    lambda a=a, b=b: f'{a.text(opt)} = {a.out[1]!r}, permuted {b.text(opt)} = {b.out[1]!r}: '
                                     f'not among the error codes present [{grid!r} / {blocks[1]!r}]')
                continue
            frel = REL if f == 'AVERAGE' else rel
            law(ctx, sc, 'permutation', f'LAW/{f}-changes-under-permutation-or-reshape', [a, b],
                lambda a=a, b=b, f=f, frel=frel: same_result(a.out[1], b.out[1], 2 * frel, scale_of(f, [grid])),
                lambda a=a, b=b: f'{a.text(opt)} = {a.out[1]!r} but over the same cells rearranged '
                                 f'{b.text(opt)} = {b.out[1]!r} [{grid!r} / {blocks[1]!r}]')
    # SUM additive over a partition
    for name, pieces, joint in (('partition', parts, multi), ('partition', chunks, cmulti)):
        if not pieces or pieces[0].out is None:
            continue
        total = qs['SUM']

        def holds(pieces=pieces, total=total):
            outs = [p.out[1] for p in pieces]
            if any(isinstance(o, str) for o in outs):
                return isinstance(total.out[1], str)
            fr = [ref.as_fraction(o) for o in outs]
            ft = ref.as_fraction(total.out[1])
            if ft is None or any(x is None for x in fr):
                return False
            return abs(sum(fr) - ft) <= 2 * Fraction(rel) * scale_of('SUM', [grid])
        law(ctx, sc, name, 'LAW/SUM-not-additive-over-partition', [total] + pieces, holds,
            lambda pieces=pieces, total=total: f'{total.text(opt)} = {total.out[1]!r} but the parts '
            f'{[p.text(opt) for p in pieces]} give {[p.out[1] for p in pieces]!r} [range {grid!r}]')
        if ec != 'several-codes':
            law(ctx, sc, 'partition-as-arguments', 'LAW/SUM-of-range-differs-from-SUM-of-its-parts-as-arguments',
                [total, joint],
                lambda joint=joint, total=total: same_result(total.out[1], joint.out[1], 2 * Fraction(rel),
                                                             scale_of('SUM', [grid])),
                lambda joint=joint, total=total: f'{total.text(opt)} = {total.out[1]!r} but '
                f'{joint.text(opt)} = {joint.out[1]!r} [range {grid!r}]')
    sig = ('agg', sc['path'], repr(grid), repr(sc.get('perm')), repr(sc.get('parts')), repr(sc.get('chunks')),
           repr(opt))
    ctx.case(sig, nontrivial=nontrivial([grid]))


def run_subtotal(ctx, sc):
    grids = [tup(g) for g in sc['grids']]
    rel = 0 if sc['exact'] else REL
    opt = sc['wbopt']
    rects = [whole(b, g) for b, g in enumerate(grids)]
    for g in grids:
        note_grid(ctx, g)
    named = {f: Query(f'N:{f}', f, grids, rects) for f in ref.FUNCS}
    subs = {n: Query(f'S:{n}', f'SUBTOTAL:{n}', grids, rects) for n in SUBTOTAL_CODES}
    for n, q in subs.items():
        q.sibling = named[ref.SUBTOTAL[n]]
    queries = list(named.values()) + list(subs.values())
    evaluate(ctx, sc, grids, queries)
    for q in queries:
        judge(ctx, sc, q, rel)
    for n, q in subs.items():
        f = ref.SUBTOTAL[n]
        other = named[f]
        frel = REL if f == 'AVERAGE' else rel
        law(ctx, sc, 'subtotal', f'LAW/SUBTOTAL-{n}-differs-from-{f}', [q, other],
            lambda q=q, other=other, f=f, frel=frel: same_result(q.out[1], other.out[1], 2 * frel,
                                                                 scale_of(f, grids)),
            lambda q=q, other=other: f'{q.text(opt)} = {q.out[1]!r} but {other.text(opt)} = {other.out[1]!r} '
                                     f'[ranges {grids!r}]')
    ctx.case(('subtotal', repr(grids), repr(opt)), nontrivial=nontrivial(grids))


def run_sumproduct(ctx, sc):
    grids = [tup(g) for g in sc['grids']]
    rel = 0 if sc['exact'] else REL
    opt = sc.get('wbopt')
    blocks = list(grids)
    for g in grids:
        note_grid(ctx, g)
    ctx.count(f'sumproduct:ranges:{len(grids)}')
    q = Query('SP', 'SUMPRODUCT', grids, [whole(b, g) for b, g in enumerate(grids)])
    queries = [q]
    p = None
    if sc.get('perm') and len({shape_of(g) for g in grids}) == 1:
        g2 = [permuted(g, sc['perm']) for g in grids]
        blocks += g2
        p = Query('SP-perm', 'SUMPRODUCT', g2, [whole(len(grids) + b, g) for b, g in enumerate(g2)])
        queries.append(p)
    evaluate(ctx, sc, blocks, queries)
    for x in queries:
        judge(ctx, sc, x, rel)
    if p is not None and err_class(grids) != 'several-codes':
        law(ctx, sc, 'sumproduct-permutation', 'LAW/SUMPRODUCT-changes-under-common-permutation', [q, p],
            lambda: same_result(q.out[1], p.out[1], 2 * Fraction(rel), scale_of('SUMPRODUCT', grids)),
            lambda: f'{q.text(opt)} = {q.out[1]!r} but with all ranges rearranged the same way '
                    f'{p.text(opt)} = {p.out[1]!r} [ranges {grids!r}]')
    ctx.case(('sumproduct', sc['path'], repr(grids), repr(sc.get('perm')), repr(opt)),
             nontrivial=nontrivial(grids))


RUNNERS = {'agg': run_agg, 'subtotal': run_subtotal, 'sumproduct': run_sumproduct}


def execute(ctx, sc):
    ctx.count('scenarios:' + sc['kind'] + ':' + sc['path'])
    form = (sc.get('wbopt') or {}).get('refform', 'literal')
    if sc['path'] == 'wb' and form != 'literal':
        # first with the rectangle written out: what fails there is not about how the range is named
        plain = dict(sc, wbopt=dict(sc['wbopt'], refform='literal'))
        before = sum(v['count'] for v in ctx.violations.values())
        RUNNERS[sc['kind']](ctx, plain)
        if sum(v['count'] for v in ctx.violations.values()) != before:
            return
    RUNNERS[sc['kind']](ctx, sc)


# --------------------------------------------------------------------------- workload

PLAIN_WB = {'origin': [1, 1], 'xsheet': False, 'computed': [], 'sep': False}


def exhaustive(ctx):
    """small rectangles over the whole pool, deterministic, partitioned over the shards"""
    i = 0
    todo = []
    todo.append(((1, 1), FULL_POOL))
    todo.append(((1, 2), FULL_POOL))
    todo.append(((2, 1), FULL_POOL))
    todo.append(((2, 2), SMALL_POOL))
    todo.append(((1, 3), SMALL_POOL))
    todo.append(((3, 1), SMALL_POOL))
    for (r, c), pool in todo:
        for cells in itertools.product(pool, repeat=r * c):
            i += 1
            if not ctx.mine(i):
                continue
            grid = [list(cells[k * c:(k + 1) * c]) for k in range(r)]
            execute(ctx, {'kind': 'agg', 'path': 'lib', 'exact': True, 'fill': 'exhaustive', 'grid': grid,
                          'perm': None, 'parts': None, 'chunks': None})
            ctx.count('exh:grids')
    # SUMPRODUCT: 1x1 . 1x1 over the full pool, 1x2 . 1x2 and 1x1 . 1x1 . 1x1 over the small pool
    for a, b in itertools.product(FULL_POOL, repeat=2):
        i += 1
        if ctx.mine(i):
            execute(ctx, {'kind': 'sumproduct', 'path': 'lib', 'exact': True, 'fill': 'exhaustive',
                          'grids': [[[a]], [[b]]], 'perm': None})
            ctx.count('exh:sumproduct')
    for a, b, c, d in itertools.product(SMALL_POOL, repeat=4):
        i += 1
        if ctx.mine(i):
            execute(ctx, {'kind': 'sumproduct', 'path': 'lib', 'exact': True, 'fill': 'exhaustive',
                          'grids': [[[a, b]], [[c, d]]], 'perm': None})
            ctx.count('exh:sumproduct')
    for a, b, c in itertools.product(SMALL_POOL, repeat=3):
        i += 1
        if ctx.mine(i):
            execute(ctx, {'kind': 'sumproduct', 'path': 'lib', 'exact': True, 'fill': 'exhaustive',
                          'grids': [[[a]], [[b]], [[c]]], 'perm': None})
            ctx.count('exh:sumproduct')
    # through a workbook: every single-cell range, and single-cell SUMPRODUCT pairs over the small pool
    for v in FULL_POOL:
        i += 1
        if ctx.mine(i):
            execute(ctx, {'kind': 'subtotal', 'path': 'wb', 'exact': True, 'fill': 'exhaustive',
                          'grids': [[[v]]], 'wbopt': dict(PLAIN_WB)})
            ctx.count('exh:wb')
    for a, b in itertools.product(SMALL_POOL, repeat=2):
        i += 1
        if ctx.mine(i):
            execute(ctx, {'kind': 'sumproduct', 'path': 'wb', 'exact': True, 'fill': 'exhaustive',
                          'grids': [[[a]], [[b]]], 'perm': None, 'wbopt': dict(PLAIN_WB)})
            ctx.count('exh:wb')


def fixed(ctx, reps):
    """every shape x fill class x reps (contents drawn from the shard's rng): a workload whose size
    does not depend on the clock"""
    rng = ctx.rng
    i = 0
    for rep in range(reps):
        for (r, c) in SHAPES:
            for cls in FILLS:
                i += 1
                if not ctx.mine(i):
                    continue
                exact = rep % 2 == 0
                for path in ('lib', 'lib', 'lib', 'wb'):
                    sc = gen_agg(rng, r, c, cls, exact, path)
                    execute(ctx, sc)
                    ctx.count('fixed:agg')
                    if path == 'wb' and (r, c, cls) in ((3, 4, 'mixed'), (2, 3, 'several-codes')):
                        ctx.sample(sc, limit=5)
                if cls in ('mixed', 'nothing-numeric', 'one-error', 'several-codes'):
                    sc = gen_subtotal(rng, r, c, cls, exact)
                    execute(ctx, sc)
                    ctx.count('fixed:subtotal')
                    if (r, c, cls) == (2, 2, 'mixed'):
                        ctx.sample(sc, limit=5)
            for cls in SP_FILLS:
                for k in (1, 2, 3):
                    i += 1
                    if not ctx.mine(i):
                        continue
                    sc = gen_sumproduct(rng, r, c, k, cls, rep % 2 == 0, 'wb' if (i // 7) % 4 == 0 else 'lib')
                    execute(ctx, sc)
                    ctx.count('fixed:sumproduct')
                    if (r, c, k, cls) == (2, 3, 2, 'mixed'):
                        ctx.sample(sc, limit=5)
    # integer products whose sum certainly exceeds 2**63: 3 ranges of >= 15 cells near 1e6
    for rep in range(reps):
        for (r, c) in ((3, 5), (5, 3), (4, 4), (4, 5), (5, 5)):
            i += 1
            if ctx.mine(i):
                execute(ctx, gen_sumproduct(rng, r, c, 3, 'bigpos', False, 'lib' if rep % 2 == 0 else 'wb'))
                ctx.count('fixed:sumproduct-bigpos')


def sampled(ctx):
    rng = ctx.rng
    while not ctx.out_of_time():
        for n in range(24):
            r, c = rng.choice(SHAPES)
            exact = rng.random() < .6
            path = 'wb' if n < 3 else 'lib'
            k = rng.random()
            if n == 0:
                execute(ctx, gen_subtotal(rng, r, c, rng.choice(FILLS), exact))
            elif k < .75:
                execute(ctx, gen_agg(rng, r, c, rng.choice(FILLS), exact, path))
            else:
                cls = rng.choice(SP_FILLS)
                execute(ctx, gen_sumproduct(rng, r, c, rng.randint(1, 3), cls, exact, path))
            ctx.count('sampled')


def table_references(ctx):
    """an aggregate over a structured table reference uses the cells of that table column, wherever the formula is:
    on the table's sheet and on another sheet that has numbers of its own at the same coordinates; each must equal
    the same aggregate over the written range"""
    import warnings
    from vp import core
    from openpyxl import Workbook
    from openpyxl.worksheet.table import Table
    from pycel import ExcelCompiler
    amount = [10, '7', 'abc', True, 2.5, None, -4]
    weight = [3, 4, None, 1, 2, 5, 0.5]
    book = Workbook()
    data = book.active
    data.title = 'Data'
    data['B3'], data['C3'], data['D3'] = 'item', 'amount', 'weight'
    for i, (a, w) in enumerate(zip(amount, weight), start=4):
        data[f'B{i}'] = f'item{i}'
        if a is not None:
            data[f'C{i}'] = a
        if w is not None:
            data[f'D{i}'] = w
    last = 3 + len(amount)
    data.add_table(Table(displayName='Table1', ref=f'B3:D{last}'))
    report = book.create_sheet('Report')
    for i in range(4, last + 1):
        report[f'C{i}'] = 1000 * i
        report[f'D{i}'] = -i
    pairs = []
    funcs = ['SUM({})', 'AVERAGE({})', 'MIN({})', 'MAX({})', 'COUNT({})', 'SUBTOTAL(9,{})', 'SUBTOTAL(101,{})']
    row = 1
    for f in funcs:
        for sheet in (report, data):
            col_t, col_r = ('J', 'K') if sheet is data else ('A', 'B')
            sheet[f'{col_t}{row}'] = '=' + f.format('Table1[amount]')
            sheet[f'{col_r}{row}'] = '=' + f.format(f'Data!C4:C{last}')
            pairs.append((f.format('Table1[amount]'), sheet.title, f'{col_t}{row}', f'{col_r}{row}'))
        row += 1
    for sheet in (report, data):
        col_t, col_r = ('J', 'K') if sheet is data else ('A', 'B')
        sheet[f'{col_t}{row}'] = '=SUMPRODUCT(Table1[amount],Table1[weight])'
        sheet[f'{col_r}{row}'] = f'=SUMPRODUCT(Data!C4:C{last},Data!D4:D{last})'
        pairs.append(('SUMPRODUCT(Table1[amount],Table1[weight])', sheet.title, f'{col_t}{row}', f'{col_r}{row}'))
    core.silence()
    path = os.path.join(ctx.tmpdir, 'tables.xlsx')
    book.save(path)
    with warnings.catch_warnings():
        warnings.simplefilter('ignore')
        comp = ExcelCompiler(filename=path)
    for text, sheet, a, b in pairs:
        ctx.count('table-reference-cases')
        ctx.case(('table', text, sheet))
        got = attempt(comp.evaluate, f'{sheet}!{a}')
        want = attempt(comp.evaluate, f'{sheet}!{b}')
        if got != want:
            ctx.violation('table-reference/differs-from-the-written-range/' +
                          ('other-sheet' if sheet == 'Report' else 'own-sheet'),
                          f'={text} on sheet {sheet} gives {got!r}; the same aggregate over Data!C4:C{last} gives '
                          f'{want!r}', {'kind': 'tables'})


def attempt(fn, *a):
    try:
        return ('v', fn(*a))
    except Exception as exc:   # noqa
        return ('x', type(exc).__name__)


def _aggregate_formulas(rng_text):
    out = {f: f'={f}({rng_text})' for f in ('SUM', 'AVERAGE', 'MIN', 'MAX', 'COUNT')}
    out.update({f'SUBTOTAL:{n}': f'=SUBTOTAL({n},{rng_text})' for n in SUBTOTAL_CODES})
    out['SUMPRODUCT'] = f'=SUMPRODUCT({rng_text})'
    return out


def _judge_directed(ctx, key_head, label, comp, formulas, shown, case):
    """every aggregate over a range whose cells show ``shown`` (rows of values) against the model"""
    ranges = [tuple(tuple(r) for r in shown)]
    for k, (name, f) in enumerate(formulas.items()):
        got = attempt(comp.evaluate, f'Sheet1!K{k + 1}')
        ctx.count('directed_aggregate_calls')
        func = ref.SUBTOTAL[int(name.split(':')[1])] if name.startswith('SUBTOTAL') else name
        if func == 'SUMPRODUCT':
            ok = got[0] == 'v' and ref.matches(got[1], ref.sumproduct(ranges), REL)
        else:
            ok = got[0] == 'v' and ref.accepts(func, ranges, got[1], REL)
        if not ok:
            ctx.violation(f'{key_head}/{name.split(":")[0]}', f'{label}: {f} gives {got!r}; the cells show {shown!r}',
                          case)


def array_shown_ranges(ctx, rounds):
    """aggregates over the range of an array formula {=A1:A5} which shows a column of mixed cells (an empty source
    cell shows as the number 0, text, logicals and the empty text show as themselves)"""
    import random
    rng = random.Random(h64(('c14-array-shown', ctx.seed, ctx.shard)))
    pool = [1, 2.5, -3, 0, 'x', '3', '', True, False, None, None, 7]
    for r in range(rounds):
        n = rng.randint(2, 5)
        col = [rng.choice(pool) for _ in range(n)]
        if r % 3 == 0:
            col[rng.randrange(n)] = None            # an empty element next to FALSE / the empty text
            col[rng.randrange(n)] = rng.choice([False, '', 'x'])
        if r % 7 == 0:
            col[rng.randrange(n)] = rng.choice(ERRORS)
        wide = r % 2 == 1
        cells = {}
        for i, v in enumerate(col):
            if v is not None:
                cells[wb.coord(1 + i, 1) if wide else wb.coord(1, 1 + i)] = v
        src = f'A1:{wb.coord(n, 1)}' if wide else f'A1:A{n}'
        tgt = f'A8:{wb.coord(n, 8)}' if wide else f'C1:C{n}'
        formulas = _aggregate_formulas(tgt)
        cells.update({f'K{k + 1}': f for k, f in enumerate(formulas.values())})
        spec = {'sheets': [['Sheet1', cells]], 'names': {}, 'arrays': [['Sheet1', tgt, f'={src}']], 'calc': None}
        case = {'kind': 'array-shown', 'col': col, 'wide': wide}
        ctx.count('directed:array_shown_ranges')
        ctx.case(('array-shown', repr(col), wide))
        try:
            comp = wb.compile_mem(spec)
        except Exception as exc:   # noqa
            ctx.violation('array-shown-range/compile-raises', f'{type(exc).__name__} for {col!r}', case)
            continue
        shown = [0 if v is None else v for v in col]
        shown = [shown] if wide else [[v] for v in shown]
        _judge_directed(ctx, 'array-shown-range', f'{{={src}}} over {tgt} with the source cells {col!r}', comp,
                        formulas, shown, case)


def ranges_beside_a_one_cell_sheet(ctx):
    """whole columns / rows of a sheet whose used area is the single cell A1: A:A and 1:1 hold that cell, every other
    column or row holds nothing"""
    for v in (42, 'x', True, '#DIV/0!', 2.5):
        for text, shown in (('D!A:A', [[v]]), ('D!1:1', [[v]]), ('D!B:B', [[None]]), ('D!2:2', [[None]]),
                            ('D!C:C', [[None]]), ('D!B1:B6', [[None]] * 6)):
            formulas = _aggregate_formulas(text)
            cells = {f'K{k + 1}': f for k, f in enumerate(formulas.values())}
            spec = {'sheets': [['Sheet1', cells], ['D', {'A1': v}]], 'names': {}, 'arrays': [], 'calc': None}
            case = {'kind': 'one-cell-sheet', 'value': v, 'range': text}
            ctx.count('directed:ranges_beside_a_one_cell_sheet')
            ctx.case(('one-cell-sheet', repr(v), text))
            comp = wb.compile_mem(spec)
            _judge_directed(ctx, 'range-beside-a-one-cell-used-area', f'sheet D holds only A1 = {v!r}', comp, formulas,
                            shown, case)


CANCELLING = [
    [1e16, 1.0, -1e16], [1e16, 3.0, -1e16, 'n/a', None, True], [2.0 ** 60, 1.5, -2.0 ** 60, 0.25],
    [1e15, 0.1, 0.2, -1e15, 7.0], [-4e17, 3.0, 4e17], [1e16, 1.0, 1.0, -1e16, 1.0, 1.0],
    [9007199254740993, 1.5, -9007199254740993], [1e16, -1e16, 1.0],
]


def cancelling_cases(ctx):
    """AVERAGE = SUM / COUNT on cells whose sum cancels: the identity is one between pycel's own functions, so on the
    same cells AVERAGE is SUM / COUNT up to the rounding of that one division whatever way pycel adds (and SUBTOTAL 1
    is SUBTOTAL 9 / SUBTOTAL 2) - the tolerance is relative to the result here, not to the magnitude of the terms"""
    from vp.lib import call, eval_formula
    for cells_ in CANCELLING:
        for layout in ('row', 'column'):
            grid = (tuple(cells_),) if layout == 'row' else tuple((v,) for v in cells_)
            case = {'kind': 'cancelling', 'cells': cells_, 'layout': layout}
            ctx.count('directed:cancelling')
            ctx.case(('cancelling', repr(cells_), layout))
            outs = {f: call(f, grid) for f in ('sum_', 'average', 'count')}
            wcells = {(wb.coord(1 + i, 1) if layout == 'row' else wb.coord(1, 1 + i)): v
                      for i, v in enumerate(cells_) if v is not None}
            ref_ = f'A1:{wb.coord(len(cells_), 1)}' if layout == 'row' else f'A1:A{len(cells_)}'
            sheet = {f: eval_formula(f'={f}({ref_})', wcells) for f in ('SUM', 'AVERAGE', 'COUNT')}
            sub = {n: eval_formula(f'=SUBTOTAL({n},{ref_})', wcells) for n in (9, 1, 2)}
            for name, (s_, a_, n_) in (('library call', (outs['sum_'], outs['average'], outs['count'])),
                                       ('worksheet', (sheet['SUM'], sheet['AVERAGE'], sheet['COUNT'])),
                                       ('SUBTOTAL', (sub[9], sub[1], sub[2]))):
                ok = all(o[0] == 'v' and isinstance(o[1], (int, float)) and not isinstance(o[1], bool)
                         for o in (s_, a_, n_)) and n_[1] != 0
                if ok:
                    want = s_[1] / n_[1]
                    ok = abs(a_[1] - want) <= 1e-12 * abs(want)
                if not ok:
                    ctx.violation('LAW/AVERAGE-differs-from-SUM-over-COUNT/cancelling-terms',
                                  f'{name}: over {cells_!r} ({layout}) AVERAGE = {a_[1]!r} but SUM = {s_[1]!r} and COUNT = '
                                  f'{n_[1]!r}', case)


def large_ranges(ctx):
    """ranges of several hundred cells (the other workloads stay below 40): every numeric cell counts, whatever their
    number - 255, 256, 257, 260, 300, 511, 513, 700 of them - and however the range is shaped"""
    from vp.lib import call, eval_formula
    k = 0
    for n, shape in ((255, (255, 1)), (256, (1, 256)), (257, (257, 1)), (260, (30, 10)), (300, (300, 1)), (300, (3, 100)),
                     (511, (73, 7)), (513, (27, 19)), (700, (25, 28)), (540, (45, 12)), (512, (64, 8))):
        k += 1
        if not ctx.mine(k):
            continue
        h, w = shape
        flat_, numbers = [], 0
        i = 0
        while numbers < n or len(flat_) < h * w:
            i += 1
            if len(flat_) >= h * w:
                break
            v = ('t%d' % i) if i % 13 == 0 else True if i % 29 == 0 else None if i % 31 == 0 else (i * 7) % 23 - 9 + (0.5 if i % 5 == 0 else 0)
            if isinstance(v, (int, float)) and not isinstance(v, bool):
                if numbers >= n:
                    v = 'x'
                else:
                    numbers += 1
            flat_.append(v)
        grid = tuple(tuple(flat_[r * w:(r + 1) * w]) for r in range(h))
        nums = [v for v in flat_ if isinstance(v, (int, float)) and not isinstance(v, bool)]
        want = {'SUM': sum(nums), 'COUNT': len(nums), 'MAX': max(nums), 'MIN': min(nums), 'AVERAGE': sum(nums) / len(nums)}
        case = {'kind': 'large-ranges'}
        ctx.count('directed:large_ranges')
        ctx.case(('large-range', n, shape))
        cells = {wb.coord(1 + c, 1 + r): grid[r][c] for r in range(h) for c in range(w) if grid[r][c] is not None}
        ref_ = f'A1:{wb.coord(w, h)}'
        for f, py in (('SUM', 'sum_'), ('COUNT', 'count'), ('MAX', 'max_'), ('MIN', 'min_'), ('AVERAGE', 'average')):
            outs = {'library call': call(py, grid), 'worksheet': eval_formula(f'={f}({ref_})', cells)}
            if f in ('SUM', 'AVERAGE'):
                outs['SUBTOTAL'] = eval_formula(f'=SUBTOTAL({9 if f == "SUM" else 1},{ref_})', cells)
                # additivity: the same cells as two ranges
                half = wb.coord(w, h // 2) if h > 1 else wb.coord(w // 2, 1)
                rest = f'A{h // 2 + 1}:{wb.coord(w, h)}' if h > 1 else f'{wb.coord(w // 2 + 1, 1)}:{wb.coord(w, 1)}'
                outs['two ranges'] = eval_formula(f'={f}(A1:{half},{rest})', cells)
            for name, o in outs.items():
                if o[0] != 'v' or isinstance(o[1], (str, bool)) or abs(o[1] - want[f]) > 1e-9 * max(1, abs(want[f])):
                    ctx.violation(f'{f}/wrong-value/range-of-several-hundred-cells',
                                  f'{name}: {f} over a {h}x{w} range with {len(nums)} numeric cells (and text, logicals, '
                                  f'blanks) = {o!r}; the numeric cells give {want[f]!r}', case)


def run(ctx):
    large_ranges(ctx)
    if ctx.shard == 0:
        table_references(ctx)
    if ctx.shard == 1 % ctx.nshards:
        cancelling_cases(ctx)
    if ctx.shard == 2 % ctx.nshards:
        ranges_beside_a_one_cell_sheet(ctx)
    array_shown_ranges(ctx, 12 if ctx.quick else 150)
    exhaustive(ctx)
    fixed(ctx, 3 if ctx.quick else 30)
    sampled(ctx)


def replay(ctx, case):
    if case.get('kind') == 'tables':
        table_references(ctx)
        return
    if case.get('kind') == 'one-cell-sheet':
        ranges_beside_a_one_cell_sheet(ctx)
        return
    if case.get('kind') == 'large-ranges':
        ctx.shard, ctx.nshards = 0, 1
        large_ranges(ctx)
        return
    if case.get('kind') == 'cancelling':
        cancelling_cases(ctx)
        return
    if case.get('kind') == 'array-shown':
        array_shown_ranges(ctx, 12 if ctx.quick else 150)
        return
    sc = {k: v for k, v in case.items() if k != 'failing'}
    execute(ctx, sc)
