"""C15 - conditional aggregation (COUNTIF/COUNTIFS, SUMIF/SUMIFS, AVERAGEIF/AVERAGEIFS, MAXIFS, MINIFS)
selects exactly the matching cells.

Monitor: every call goes through the library function wrapped as a formula reaches it
(vp.lib.fn/call); ~2 % of the sampled cases are additionally written into a real worksheet and
evaluated by ExcelCompiler (all functions of the case as formulas) and must agree with the
library-level outcome.  A compiled formula hands a one-cell range to the function as the bare cell
value, so every 1x1 case is also run in that "single-cell argument" form, with the same oracle (this
is what exposes a blank cell as third argument of SUMIF/AVERAGEIF being taken for "omitted").
Criteria holding LF / CR / backslash are not sent through a formula literal (C02's business).

Oracle (vp/refmodel/criteria.py, written from the statement, three-valued YES / NO / OPEN per cell):
  * positions: AND over the criteria pairs (NO wins, then OPEN, else YES).
  * closed case (no OPEN position): COUNT = |YES|; SUM/AVERAGE/MAX/MIN over the cells of the
    aggregated range at the YES positions.
  * case with 1..MAX_OPEN open positions: the result must equal the reference result of SOME
    resolution of the open positions (each open cell selected or not, independently) - for COUNT
    that is |YES| <= n <= |YES|+|OPEN|.  More open positions: totality and the laws only.
  * laws, asserted for every case: one-criterion ...IFS = ...IF (incl. the 2-argument SUMIF/AVERAGEIF
    = ...IFS with the criteria range as the aggregated range), reversing/rotating the criteria pairs
    does not change the result, COUNTIF(r,"=x") + COUNTIF(r,"<>x") = number of cells of r for the x
    of every criterion drawn, AVERAGEIFS = SUMIFS/COUNTIFS when the aggregated range holds only
    numbers (no selected cell => an error code), ranges of different shapes => #VALUE! (the ...IFS
    forms; for the 3-argument SUMIF/AVERAGEIF Excel anchors the top-left cell instead, so those are
    only required to return a value).
  * totality / well-formedness, every call: no exception; the result is a number or one of the
    seven error codes (never another string such as a fragment of an error code, never NaN/None).

Deliberately permissive (statement silent or readable two ways):
  * non-numeric cells of the aggregated range at selected positions: text, "" and blank are
    ignored; logicals may be ignored or count as 0/1, numeric-looking text may be ignored or
    coerced, blanks may be ignored or count as 0 (for AVERAGE/MAX/MIN) - all eight combinations
    are accepted.  A logical result numerically equal to an accepted number (MAXIFS returning TRUE)
    is accepted and counted (counter obs:logical-result).
  * nothing numeric selected: SUM must be 0; AVERAGE must be an error code (any); MAX/MIN 0 or an
    error code.
  * an error value in the aggregated range at a selected position must give an error code, *which*
    one is only required to be one present in the ranges of the call; an error value at a
    non-selected position, or in a criteria range, may be ignored or may propagate.
  * "~": see the reference model (Excel's escape reading and the literal reading both accepted).
  * everything the reference model calls OPEN (numeric text under "=n", logical cells under numeric
    comparisons, blanks under < > <>, logical criteria, "" cells under "" / "=" / "<>" / "*", error
    cells in a criteria range, ordering of non-alphabetic text).
  Not generated: criteria that only python's float() reads as numbers ("nan", "inf", "1_0",
  " 3 "), blank (None) criteria, arrays as criteria.

Mechanism keys are predicates over the failing call (function family, class of the criterion,
class of the cell): see exc_key(), malformed_key(), mechanism(), diagnose(), diagnose_partition().
A wrong value is first traced to a single criteria-range cell (1-cell COUNTIF against a closed verdict
of the reference matcher); only if every single cell is right is the key <FAMILY>/criteria-intersection
(several pairs) or <FAMILY>/aggregation / count (one pair).
"""
import itertools

from vp import lib, wb
from vp.refmodel import criteria as cr

PROP = 'C15'
LEVEL = 'exploration'
RULE = ('(a) exhaustive table: every pool cell (numbers, numeric text, texts in several cases incl. '
        'wildcard/regex/newline characters, "", TRUE/FALSE, blank, error values) x every criterion of a fixed '
        'list built from the grammar {number, op number, text, op text, ?/* wildcards, ~ escapes, "", "=", "<>", '
        'logical} as a 1-cell COUNTIF and SUMIF; (b) every criterion of the list over three fixed 5x3 ranges '
        '(all classes / text only / numbers only) through all eight functions; (c) all ordered pairs of distinct '
        'shapes <= 5x3 for the #VALUE! rule; (d) seeded random cases: shape <= 5x3, aggregated range and 1..3 '
        'criteria ranges from typed pools, criteria derived from a cell of their range (65 %) or drawn from the '
        'list.  A case = one function call checked by the oracle; non-trivial = the criteria discriminate on '
        'the drawn ranges (at least one position not rejected and one rejected) or the ranges differ in shape; '
        'distinct = by (function, ranges, criteria).')
BUDGET = {'quick': 8, 'thorough': 200}
FLOORS = {
    # the first three are set to the exact size of the deterministic parts further down
    'quick': {'table:cells-x-criteria': 1, 'fixed-range-cases': 1, 'shape-mismatch-pairs': 1,
              'sampled-cases': 3000, 'cases:closed': 2500, 'cases:bounded-open': 1500,
              'law:ifs=if': 4000, 'law:commute': 1500, 'law:partition': 4000, 'law:avg=sum/count': 800,
              'selected-error-calls': 300, 'tie:evaluate-formulas': 150, 'distinct': 12000},
    'thorough': {'table:cells-x-criteria': 1, 'fixed-range-cases': 1, 'shape-mismatch-pairs': 1,
                 'sampled-cases': 50000, 'cases:closed': 40000, 'cases:bounded-open': 25000,
                 'law:ifs=if': 60000, 'law:commute': 25000, 'law:partition': 60000,
                 'law:avg=sum/count': 12000, 'selected-error-calls': 5000, 'tie:evaluate-formulas': 2500,
                 'distinct': 200000},
}
EXHAUSTIVE = {'quick': False, 'thorough': False}
ASSUMPTIONS = [
    'ranges reach the library functions as tuples of row tuples, blanks as None, error values as their code '
    'strings (checked against ExcelCompiler.evaluate on a ~2 % sample)',
    'Excel is not available: "matching" is the rule written in the statement; cells/criteria it leaves open '
    'are run for totality and the laws only (see module docstring)',
]

MAX_OPEN = 6
BLANK_THIRD = 'SUMIF-AVERAGEIF/blank-single-cell-range-taken-as-omitted-argument'
TIE_RATE = 0.02

PY = {'COUNTIF': 'countif', 'COUNTIFS': 'countifs', 'SUMIF': 'sumif', 'SUMIFS': 'sumifs',
      'AVERAGEIF': 'averageif', 'AVERAGEIFS': 'averageifs', 'MAXIFS': 'maxifs', 'MINIFS': 'minifs'}
FAMILY = {'COUNTIF': 'COUNTIFS', 'SUMIF': 'SUMIFS', 'AVERAGEIF': 'AVERAGEIFS'}
AGG_IFS = ('SUMIFS', 'AVERAGEIFS', 'MAXIFS', 'MINIFS')
ERRS = cr.ERROR_CODES

# ------------------------------------------------------------------------------------------ pools
NUMBERS = [0, 1, 2, 3, 3.0, 5, -1, 2.5, -0.5, 0.5, 10, 100, 1000000, 0.3, 0.1 + 0.2]     # (two neighbouring floats)
NUMTEXT = ['3', '2.5', '-1', '0', '1e2', '.5']
TEXTS = ['a', 'A', 'abc', 'ABC', 'Abd', 'b', 'ab', 'bcd', 'x y', 'Zoë', 'ZOË', 'a*', 'a?c', '*', '?',
         '~', 'a~b', 'a.c', '(b)', 'a+b', 'ab\ncd']
PLAIN_TEXTS = ['a', 'A', 'abc', 'ABC', 'Abd', 'b', 'ab', 'bcd', 'x y', 'Zoë', 'ZOË']
LOGICALS = [True, False]
POOL = NUMBERS + NUMTEXT + TEXTS + [''] + LOGICALS + [None] + list(ERRS)

OPS = ('=', '<>', '<', '>', '<=', '>=')


def criteria_list():
    out = [0, 1, 2, 3, 3.0, 2.5, -1, 10, 1000000, '3', '2.5', '-1', '0', '1e2', '3.0']
    for op in OPS:
        for n in ('0', '1', '2.5', '3', '-1', '100'):
            out.append(op + n)
    # spellings of numbers without a digit before / after the decimal point, with a sign, with an exponent
    out += ['.5', '=.5', '<>.5', '>.5', '>=.5', '<-.25', '>-.75', '<+.75', '5.', '>2.', '<1E1', '>=5e-1']
    # a number whose neighbouring float is in the range as well: equal means equal
    out += [0.3, '0.3', '=0.3', '<>0.3', '>0.3', '<=0.3', '=0.30000000000000004']
    for t in ('a', 'ABC', 'abd', 'b', 'x y', 'zoë', 'a.c', '(B)', 'a+b', 'ab\ncd'):
        for op in ('', '=', '<>'):
            out.append(op + t)
    for op in ('<', '>', '<=', '>='):
        for t in ('b', 'ABC', 'abd'):
            out.append(op + t)
    for w in ('*', '?', '??', '???', 'a*', 'A*', '*c', '*C', 'a?c', '*b*', '?*', '*?', 'a*c', '?b?', 'ab*d',
              'a.*', '?.?', '(*', '*)', 'a+*', '[*', '*\\', 'x*y', '* *', 'zo?', '3*', '?.5', '*e*', 'T*', '#*',
              # a head and a tail which overlap in a short text ("a*a" does not select "a", "ab*b" not "ab")
              'a*a', 'ab*b', 'b*b', 'ab*bc', 'abc*abc', 'a*bc'):
        for op in ('', '=', '<>'):
            out.append(op + w)
    for w in ('~*', '~?', '~~', 'a~*', 'a~?c', '*~*', '~**', '?~?', 'a~', 'a~b', '~a'):
        for op in ('', '<>'):
            out.append(op + w)
    out += ['', '=', '<>', '<', '>', '<=', '>=']
    out += [True, False, 'TRUE', 'false', '=TRUE', '<>FALSE', '<>true']
    return out


CRITERIA = criteria_list()
for _tier in FLOORS:        # the deterministic parts are complete by construction
    FLOORS[_tier]['table:cells-x-criteria'] = len(POOL) * len(CRITERIA)
    FLOORS[_tier]['fixed-range-cases'] = 3 * len(CRITERIA)
    FLOORS[_tier]['shape-mismatch-pairs'] = 15 * 14

FIXED_RANGES = {
    'all-classes': ((1, 'abc', True), (3, 'ABC', None), ('3', '', '#N/A'), (2.5, 'a*', False),
                    (-1, 'ab\ncd', 0)),
    'text-only': (('a', 'A', 'abc'), ('ABC', 'Abd', 'b'), ('a*', 'a?c', '*'), ('a.c', '(b)', 'a+b'),
                  ('Zoë', 'ZOË', 'x y')),
    'numbers-only': ((0, 1, 2), (3, 3.0, 5), (-1, 2.5, -0.5), (10, 100, 1000000), (2, 2, 1)),
}
FIXED_AGG = ((1, 2, 3), (4, 5, 6), (7, 8, 9), (10, 11, 12), (13, 14, 15))
FIXED_AGG_MIXED = ((1, 'x', 3), (True, 5, None), (7, '#DIV/0!', 9), ('3', 11, 12), (13, 14, ''))

SHAPES = [(r, c) for r in range(1, 6) for c in range(1, 4)]


# ------------------------------------------------------------------------------------------ helpers
def tup(rows):
    return tuple(tuple(r) for r in rows)


def flat(rows):
    return [v for r in rows for v in r]


def shape(rows):
    return (len(rows), len(rows[0]))


def numeric_result(v):
    return cr.is_num(v) and v == v and abs(v) != float('inf')


def close(a, b):
    return a == b or abs(a - b) <= 1e-9 * max(abs(a), abs(b)) + 1e-12


def same_value(a, b):
    """law comparison: equal numbers (tolerance; a logical counts as its number), or two error codes"""
    if isinstance(a, str) or isinstance(b, str):
        return isinstance(a, str) and isinstance(b, str)
    return close(float(a), float(b))


def build_args(fname, agg, pairs, scalar=False):
    two_args = agg is None
    if scalar:      # a one-cell range reaches the function as the bare cell value, as in a compiled formula
        agg = agg[0][0] if agg is not None and shape(agg) == (1, 1) else agg
        pairs = [(r[0][0] if shape(r) == (1, 1) else r, c) for r, c in pairs]
    flat_pairs = [x for r, c in pairs for x in (r, c)]
    if fname in ('COUNTIFS', 'COUNTIF'):
        return flat_pairs
    if fname in AGG_IFS:
        return [agg] + flat_pairs
    r, c = pairs[0]
    return [r, c] if two_args else [r, c, agg]


class Call:
    """one library call: function name, aggregated range (or None), criteria pairs"""

    def __init__(self, fname, agg, pairs, scalar=False):
        self.fname, self.agg, self.pairs, self.scalar = fname, agg, pairs, scalar
        self.fam = FAMILY.get(fname, fname)
        self.crits = [cr.Criterion(c) for _, c in pairs]
        self._status = None

    @property
    def eff_agg(self):
        """the range that is aggregated (2-argument SUMIF/AVERAGEIF: the criteria range)"""
        if self.fam == 'COUNTIFS':
            return None
        return self.agg if self.agg is not None else self.pairs[0][0]

    def shapes_agree(self):
        shapes = {shape(r) for r, _ in self.pairs}
        if self.eff_agg is not None:
            shapes.add(shape(self.eff_agg))
        return len(shapes) == 1

    @property
    def status(self):
        if self._status is None:
            self._status = cr.combine([cr.positions(r, c) for (r, _), c in zip(self.pairs, self.crits)])
        return self._status

    def blank_cell_as_third_argument(self):
        """SUMIF/AVERAGEIF whose sum/average range is one blank cell, passed as a compiled formula passes it"""
        return (self.scalar and self.fname in ('SUMIF', 'AVERAGEIF') and self.agg is not None
                and shape(self.agg) == (1, 1) and self.agg[0][0] is None)

    def describe(self):
        args = build_args(self.fname, self.agg, self.pairs, self.scalar)
        return f'{self.fname}({", ".join(repr(a) for a in args)})'


class Case:
    def __init__(self, ctx, case):
        self.ctx, self.case = ctx, case
        self.keys = set()

    def violate(self, key, msg):
        if key not in self.keys:
            self.keys.add(key)
            self.ctx.violation(key, msg, self.case)


# ------------------------------------------------------------------------------------------ classification
def exc_key(call, exc):
    """mechanism key of an exception: predicate over exception class + classes of the inputs"""
    cls = exc.split(':')[0]
    if any(isinstance(c, str) and ('\n' in c or '\r' in c) for _, c in call.pairs):
        return 'criterion-with-newline/raises'
    if cls == 'AttributeError':
        for (r, _), c in zip(call.pairs, call.crits):
            if c.kind == 'text' and c.op == '=' and c.has_wild and any(
                    cr.cell_class(v) in ('number', 'logical') for v in flat(r)):
                return 'wildcard-criterion/non-text-cell-raises'
    if cls in ('error', 'PatternError'):
        for c in call.crits:
            if c.kind == 'text' and c.has_wild and c.has_meta:
                return 'wildcard-criterion/regex-metachar-unescaped'
    if cls == 'TypeError' and call.blank_cell_as_third_argument() and any(
            cr.cell_class(v) == 'error' for v in flat(call.pairs[0][0])):
        return BLANK_THIRD          # the criteria range was aggregated instead of the blank cell
    if cls == 'TypeError' and call.eff_agg is not None and any(
            cr.cell_class(v) == 'error' for v in flat(call.eff_agg)):
        return f'{call.fam}/error-in-selected-cells-raises'
    return f'{call.fam}/unclassified-{cls}'


def malformed_key(call, v):
    if isinstance(v, str) and v and any(v in code for code in ERRS) and call.eff_agg is not None and any(
            cr.cell_class(x) == 'error' for x in flat(call.eff_agg)):
        return f'{call.fam}/error-string-fragment'
    return f'{call.fam}/non-value-result'


def mechanism(crit, v, got, partition=False):
    """mechanism key of a single criteria-range cell v that pycel selects (got=1) / skips (got=0) wrongly"""
    cc = cr.cell_class(v)
    if crit.kind == 'text' and crit.has_wild and isinstance(v, str):
        if crit.op == '<>' and (got == 1) == (v.lower() != crit.text.lower()):
            return 'not-equal-criterion/wildcards-ignored'      # answers as if ? and * were literal
        if crit.op == '=':
            if '\n' in v:
                return 'wildcard-criterion/newline-in-cell'
            if crit.has_meta:
                return 'wildcard-criterion/regex-metachar-unescaped'
    if partition and crit.kind == 'number' and cc == 'numeric-text':
        return 'numeric-criterion/numeric-text-counted-by-both-eq-and-ne'
    return ('partition/' if partition else 'select/') + f'{crit.cls}/{cc}'


def distinct_cells(r):
    seen = set()
    for v in flat(r):
        tag = (type(v).__name__, v)
        if tag not in seen:
            seen.add(tag)
            yield v


def single(v, c):
    """pycel's 1-cell COUNTIF: 1 / 0, or None when it is not a plain 0/1 answer"""
    out = lib.call('countif', ((v,),), c)
    return out[1] if out[0] == 'v' and out[1] in (0, 1) and not isinstance(out[1], bool) else None


def diagnose(pairs):
    """find a cell whose 1-cell COUNTIF contradicts a closed verdict of the reference matcher; None when
    every closed single cell is right (then the fault is in combining / aggregating)"""
    for r, c in pairs:
        crit = cr.Criterion(c)
        for v in distinct_cells(r):
            verdict = cr.match(v, crit)
            if verdict == cr.OPEN:
                continue
            got = single(v, c)
            if got is not None and (got == 1) != (verdict == cr.YES):
                return mechanism(crit, v, got)
    return None


def diagnose_partition(r, eq, ne):
    """a cell that "=x" and "<>x" both count or both skip"""
    ceq, cne = cr.Criterion(eq), cr.Criterion(ne)
    for v in distinct_cells(r):
        a, b = single(v, eq), single(v, ne)
        if a is None or b is None or a + b == 1:
            continue
        for crit, got in ((ceq, a), (cne, b)):
            verdict = cr.match(v, crit)
            if verdict != cr.OPEN and (got == 1) != (verdict == cr.YES):
                return mechanism(crit, v, got)
        return mechanism(cne, v, b, partition=True)
    return None


# ------------------------------------------------------------------------------------------ calls
def run_fn(K, call):
    """call pycel; report exceptions / non-values; return the value or None"""
    ctx = K.ctx
    out = lib.call(PY[call.fname], *build_args(call.fname, call.agg, call.pairs, call.scalar))
    ctx.count('fn:' + call.fname)
    if call.scalar:
        ctx.count('obs:single-cell-arguments')
    if out[0] == 'x':
        ctx.count('obs:exception')
        K.violate(exc_key(call, out[1]), f'{call.describe()} raised {out[1]} - "cells of any type in the '
                  f'range never make the function fail"')
        return None
    v = out[1]
    if isinstance(v, bool):
        ctx.count('obs:logical-result')
        return v
    if numeric_result(v) or (isinstance(v, str) and v in ERRS):
        return v
    ctx.count('obs:non-value')
    K.violate(malformed_key(call, v), f'{call.describe()} returned {v!r}: neither a number nor an error code')
    return None


# ------------------------------------------------------------------------------------------ reference results
def reference(call):
    """-> dict(numbers=set, empty=bool, must_err=bool, errs=set) over all resolutions of the open
    positions, or None when there are too many open positions"""
    status = call.status
    yes = [i for i, s in enumerate(status) if s == cr.YES]
    opn = [i for i, s in enumerate(status) if s == cr.OPEN]
    if len(opn) > MAX_OPEN:
        return None
    if call.fam == 'COUNTIFS':
        return {'lo': len(yes), 'hi': len(yes) + len(opn), 'closed': not opn}
    cells = flat(call.eff_agg)
    classes = [cr.cell_class(v) for v in cells]
    numbers, empty, err_res, num_res = set(), False, 0, 0
    for k in range(len(opn) + 1):
        for extra in itertools.combinations(opn, k):
            sel = yes + list(extra)
            if any(classes[i] == 'error' for i in sel):
                err_res += 1
                continue
            num_res += 1
            nums = [cells[i] for i in sel if classes[i] == 'number']
            bools = [int(cells[i]) for i in sel if classes[i] == 'logical']
            nts = [float(cells[i]) for i in sel if classes[i] == 'numeric-text']
            blanks = sum(1 for i in sel if classes[i] == 'blank')
            for b, t, z in itertools.product((0, 1), repeat=3):
                if (b and not bools) or (t and not nts) or (z and not blanks):
                    continue
                data = nums + (bools if b else []) + (nts if t else []) + ([0] * blanks if z else [])
                if call.fam == 'SUMIFS':
                    numbers.add(sum(data))
                elif not data:
                    empty = True
                elif call.fam == 'AVERAGEIFS':
                    numbers.add(sum(data) / len(data))
                elif call.fam == 'MAXIFS':
                    numbers.add(max(data))
                else:
                    numbers.add(min(data))
    return {'numbers': numbers, 'empty': empty, 'must_err': num_res == 0, 'may_err': err_res > 0,
            'closed': not opn}


def present_errors(call):
    out = set()
    for r, _ in call.pairs:
        out.update(v for v in flat(r) if cr.cell_class(v) == 'error')
    if call.eff_agg is not None:
        out.update(v for v in flat(call.eff_agg) if cr.cell_class(v) == 'error')
    return out


def check_value(K, call, v):
    """the oracle for one call whose ranges agree in shape; v = observed value (never None)"""
    ctx = K.ctx
    ref = reference(call)
    if ref is None:
        ctx.count('cases:totality-only')
        return
    ctx.count('cases:closed' if ref['closed'] else 'cases:bounded-open')
    errors_around = present_errors(call)
    kind = 'closed case' if ref['closed'] else 'some resolution of the open cells'
    problem = None
    if call.fam == 'COUNTIFS':
        want = f'{ref["lo"]}' if ref['closed'] else f'{ref["lo"]}..{ref["hi"]}'
        if isinstance(v, str):
            if v not in errors_around:
                problem = 'unexpected-error-code'
        elif not (float(v).is_integer() and ref['lo'] <= v <= ref['hi']):
            problem = 'criteria-intersection' if len(call.pairs) > 1 else 'count'
    else:
        want = f'{sorted(ref["numbers"])[:6] or "an error code"}' + (
            ' or an error code' if ref['numbers'] and (ref['empty'] or ref['may_err']) else '')
        if isinstance(v, str):
            # which of the codes present: not fixed by the statement.  nothing numeric selected:
            # AVERAGE -> error code, MAX/MIN -> 0 or an error code
            if v not in errors_around and not (ref['empty'] and call.fam != 'SUMIFS'):
                problem = 'unexpected-error-code'
        else:
            x = float(v)
            if any(close(x, y) for y in ref['numbers']):
                pass
            elif ref['empty'] and call.fam in ('MAXIFS', 'MINIFS') and x == 0:
                pass
            elif ref['must_err']:
                problem = 'error-in-selected-cells-ignored'
            else:
                problem = 'criteria-intersection' if len(call.pairs) > 1 else 'aggregation'
    if problem is None:
        return
    if call.blank_cell_as_third_argument():
        key = BLANK_THIRD
    else:
        key = diagnose(call.pairs) or f'{call.fam}/{problem}'
    K.violate(key, f'{call.describe()} = {v!r}, reference ({kind}): {want}; positions '
              f'{"".join(s[0] for s in call.status)} (y/n/o row-major) - "exactly the positions whose '
              f'criteria-range cells satisfy every criterion"')


# ------------------------------------------------------------------------------------------ one data case
def nontrivial(call):
    st = call.status
    return len(st) >= 2 and cr.NO in st and any(s != cr.NO for s in st)


def observe(K, call, oracle=True):
    """run one call with the full oracle; returns the value or None"""
    ctx = K.ctx
    v = run_fn(K, call)
    if not call.shapes_agree():
        ctx.count('obs:shape-mismatch-call')
        if v is not None and call.fname not in ('SUMIF', 'AVERAGEIF') and v != '#VALUE!':
            K.violate(f'{call.fam}/shape-mismatch-not-#VALUE!', f'{call.describe()} = {v!r}: ranges of different '
                      f'shapes must give #VALUE!')
        ctx.case((call.fname, call.scalar, call.agg, tuple(call.pairs)), nontrivial=True)
        return v
    for c in call.crits:
        ctx.count('critclass:' + c.cls)
    if call.eff_agg is not None and any(cr.cell_class(x) == 'error' and st == cr.YES
                                        for x, st in zip(flat(call.eff_agg), call.status)):
        ctx.count('selected-error-calls')
    ctx.case((call.fname, call.scalar, call.agg, tuple(call.pairs)), nontrivial=nontrivial(call))
    if v is not None and oracle:
        check_value(K, call, v)
    return v


def law_equal(K, name, a_call, a, b_call, b):
    K.ctx.count('law:' + name)
    if a is None or b is None:
        return
    if not same_value(a, b):
        key = diagnose(a_call.pairs) if name == 'commute' else None
        if a_call.blank_cell_as_third_argument():
            key = BLANK_THIRD
        K.violate(key or f'law/{name}/{a_call.fam}', f'{a_call.describe()} = {a!r} but {b_call.describe()} = {b!r}')


def partition_law(K, r, c):
    ctx = K.ctx
    crit = cr.Criterion(c)
    x = crit.value_text
    if x is None:
        return
    eq, ne = Call('COUNTIF', None, [(r, '=' + x)]), Call('COUNTIF', None, [(r, '<>' + x)])
    a, b = run_fn(K, eq), run_fn(K, ne)
    ctx.count('law:partition')
    if a is None or b is None or isinstance(a, str) or isinstance(b, str):
        return
    n = len(flat(r))
    if a + b != n:
        key = diagnose_partition(r, '=' + x, '<>' + x) or f'law/partition/{eq.crits[0].cls}'
        K.violate(key, f'{eq.describe()} = {a!r} and {ne.describe()} = {b!r} do not add up to the {n} cells: '
                  f'"=x" and "<>x" partition the range')


def check_case(ctx, case):
    """case = {'agg': rows, 'pairs': [[rows, criterion], ...], 'tie': bool}"""
    K = Case(ctx, case)
    agg = tup(case['agg'])
    pairs = [(tup(r), c) for r, c in case['pairs']]
    for v in flat(agg):
        ctx.count('aggclass:' + cr.cell_class(v))
    for r, _ in pairs:
        for v in flat(r):
            ctx.count('cellclass:' + cr.cell_class(v))
    calls = [Call('COUNTIFS', None, pairs)] + [Call(f, agg, pairs) for f in AGG_IFS]
    for s in calls[0].status if calls[0].shapes_agree() else ():
        ctx.count('verdict:' + s)
    res = {}
    for call in calls:
        res[call.fname] = observe(K, call)
    all_calls = list(calls)
    aligned = calls[1].shapes_agree()
    ctx.count('npairs:%d' % len(pairs))

    if len(pairs) == 1:
        r, c = pairs[0]
        for ifs, iff, a in (('COUNTIFS', 'COUNTIF', None), ('SUMIFS', 'SUMIF', agg), ('AVERAGEIFS', 'AVERAGEIF', agg)):
            call = Call(iff, a, pairs)
            all_calls.append(call)
            v = observe(K, call)
            if call.shapes_agree():
                law_equal(K, 'ifs=if', call, v, calls[0] if ifs == 'COUNTIFS' else Call(ifs, agg, pairs), res[ifs])
        for ifs, iff in (('SUMIFS', 'SUMIF'), ('AVERAGEIFS', 'AVERAGEIF')):
            call2, ref2 = Call(iff, None, pairs), Call(ifs, r, pairs)
            all_calls.append(call2)
            v2 = observe(K, call2)
            law_equal(K, 'ifs=if', call2, v2, ref2, run_fn(K, ref2))
    elif aligned:
        orders = [pairs[::-1]] if len(pairs) == 2 else [pairs[::-1], pairs[1:] + pairs[:1]]
        for order in orders:
            for call in calls:
                other = Call(call.fname, call.agg, order)
                law_equal(K, 'commute', call, res[call.fname], other, run_fn(K, other))

    if aligned:
        for r, c in pairs:
            partition_law(K, r, c)
        if all(cr.cell_class(v) == 'number' for v in flat(agg)):
            n, s, a = res['COUNTIFS'], res['SUMIFS'], res['AVERAGEIFS']
            if None not in (n, s, a) and not isinstance(n, str) and not isinstance(s, str):
                ctx.count('law:avg=sum/count')
                if n == 0:
                    if not isinstance(a, str):
                        K.violate('law/average=sum/count', f'{calls[2].describe()} = {a!r} with COUNTIFS = 0: an '
                                  f'error code is required')
                elif isinstance(a, str) or not close(float(a), float(s) / n):
                    K.violate(diagnose(pairs) or 'law/average=sum/count',
                              f'{calls[2].describe()} = {a!r} but SUMIFS/COUNTIFS = {s!r}/{n!r}')

    if aligned and shape(agg) == (1, 1):
        # one-cell ranges arrive as bare values when a formula is evaluated: same oracle, same laws
        sres = {}
        for call in all_calls:
            sc = Call(call.fname, call.agg, call.pairs, scalar=True)
            sres[(call.fname, call.agg is None)] = (sc, observe(K, sc))
        if len(pairs) == 1:
            for ifs, iff in (('COUNTIFS', 'COUNTIF'), ('SUMIFS', 'SUMIF'), ('AVERAGEIFS', 'AVERAGEIF')):
                (a_call, a), (b_call, b) = sres[(iff, iff == 'COUNTIF')], sres[(ifs, ifs == 'COUNTIFS')]
                law_equal(K, 'ifs=if', a_call, a, b_call, b)

    if case.get('tie'):
        tie(K, agg, pairs, all_calls)
    return K


# ------------------------------------------------------------------------------------------ evaluate tie
def tie(K, agg, pairs, calls):
    """the same calls as formulas of a real worksheet, evaluated by ExcelCompiler"""
    ctx = K.ctx
    if any(isinstance(c, str) and any(ch in c for ch in '\n\r\\') for _, c in pairs):
        # LF / CR / backslash inside a text literal of a formula: the translation of literals is C02's business
        ctx.count('tie:skipped-criterion-literal-with-LF-CR-backslash')
        return
    cells, where = {}, {}

    def place(rows, col0):
        for i, row in enumerate(rows):
            for j, v in enumerate(row):
                if v is not None:
                    cells[wb.coord(col0 + j, i + 1)] = v
        return f'{wb.coord(col0, 1)}:{wb.coord(col0 + len(rows[0]) - 1, len(rows))}'

    where['agg'] = place(agg, 1)
    for i, (r, _) in enumerate(pairs):
        where[i] = place(r, 5 + 4 * i)
    formulas = []
    for n, call in enumerate(calls):
        if call.pairs is not pairs:
            continue
        parts = [where['agg']] if call.fname in AGG_IFS else []
        for i, p in enumerate(pairs):
            parts += [where[i], lib.excel_literal(p[1])]
        if call.fname in ('SUMIF', 'AVERAGEIF') and call.agg is not None:
            parts.append(where['agg'])
        target = wb.coord(20, n + 1)
        cells[target] = f'={call.fname}({",".join(parts)})'
        formulas.append((target, call))
    spec = {'sheets': [['Sheet1', cells]], 'names': {}, 'arrays': [], 'calc': None}
    comp = wb.compile_mem(spec)
    for target, call in formulas:
        got = wb.outcome(comp.evaluate, 'Sheet1!' + target)
        want = lib.call(PY[call.fname], *build_args(call.fname, call.agg, call.pairs))
        ctx.count('tie:evaluate-formulas')
        ok = (got[0] == want[0] == 'x') or (got[0] == want[0] == 'v' and wb.same(got[1], want[1]))
        if not ok:
            K.violate(BLANK_THIRD if Call(call.fname, call.agg, call.pairs, True).blank_cell_as_third_argument()
                      else 'evaluate/differs-from-library-call',
                      f'{cells[target]} over {cells!r} evaluates to {got!r}, the library call gives {want!r}')


# ------------------------------------------------------------------------------------------ generators
def grid(rng, rows, cols, profile):
    def cell():
        p = rng.random()
        if profile == 'numeric':
            return rng.choice(NUMBERS)
        if profile == 'numeric+':
            if p < 0.75:
                return rng.choice(NUMBERS)
            return rng.choice([None, None, True, False, '3', '2.5', ''])
        if profile == 'text':
            if p < 0.8:
                return rng.choice(TEXTS)
            return rng.choice(NUMTEXT + ['', ''])
        if profile == 'plain-text':
            return rng.choice(PLAIN_TEXTS)
        if profile == 'text+blank':
            if p < 0.75:
                return rng.choice(TEXTS)
            return rng.choice([None, None, ''])
        if profile == 'errors':
            return rng.choice(NUMBERS) if p < 0.8 else rng.choice(ERRS)
        if profile == 'mixed' or p < 0.88:
            if p < 0.35:
                return rng.choice(NUMBERS)
            if p < 0.65:
                return rng.choice(TEXTS)
            return rng.choice(NUMTEXT + ['', True, False, None, None])
        return rng.choice(ERRS)
    return tuple(tuple(cell() for _ in range(cols)) for _ in range(rows))


def num_lit(v):
    return repr(v)


def wildcardise(rng, s):
    if not s:
        return rng.choice(['*', '?', '?*'])
    k = rng.randrange(8)
    i = rng.randrange(len(s))
    esc = ''.join('~' + ch if ch in '*?~' else ch for ch in s)
    flip = s.swapcase()
    if k == 0:
        return flip[:i + 1] + '*'
    if k == 1:
        return '*' + flip[i:]
    if k == 2:
        return s[:i] + '?' + s[i + 1:]
    if k == 3:
        return '*' + s[i] + '*'
    if k == 4:
        return '?' * len(s)
    if k == 5:
        return s + '*'
    if k == 6:
        return esc if esc != s else '?' + s[1:]
    return '*'


def derive_criterion(rng, v):
    cls = cr.cell_class(v)
    if cls == 'number':
        k = rng.randrange(5)
        if k == 0:
            return v
        if k == 1:
            return num_lit(v)
        near = v + rng.choice([-1, 0, 0, 1, 0.5])
        return rng.choice(OPS) + num_lit(near)
    if cls == 'numeric-text':
        return rng.choice([v, float(v), '=' + v, '<>' + v, '>' + v, '<=' + v, v[0] + '*', '?' * len(v), '<>' + v[0] + '*'])
    if cls in ('text', 'text-with-newline'):
        k = rng.randrange(8)
        if k == 0:
            return v.swapcase()
        if k == 1:
            return '=' + v.upper()
        if k == 2:
            return '<>' + v.lower()
        if k in (3, 4):
            return rng.choice(['', '=']) + wildcardise(rng, v)
        if k == 5:
            return '<>' + wildcardise(rng, v)
        if k == 6:
            return rng.choice(['<', '>', '<=', '>=']) + v
        return ''.join('~' + ch if ch in '*?~' else ch for ch in v)
    if cls == 'empty-text':
        return rng.choice(['', '=', '<>', '*', '?*', '<>*'])
    if cls == 'logical':
        return rng.choice([v, 'TRUE', '<>FALSE', 1, '>0', 't*', '<>f*', '=0'])
    if cls == 'blank':
        return rng.choice(['', '=', '<>', 0, '<1', '*', '<>*', '=0'])
    return rng.choice(['>0', '<>', '*', '<>0', '#*', '=1'])


def random_case(rng):
    rows, cols = rng.choice([1, 2, 3, 3, 4, 5, 5]), rng.choice([1, 1, 1, 2, 3])
    npairs = rng.choice([1, 1, 2, 2, 3])
    agg = grid(rng, rows, cols, rng.choice(['numeric'] * 4 + ['numeric+', 'mixed'] * 2 + ['errors'] * 3 + ['everything']))
    pairs = []
    for _ in range(npairs):
        r = grid(rng, rows, cols, rng.choice(['numeric', 'numeric+', 'text', 'plain-text', 'text+blank', 'mixed',
                                              'mixed', 'everything']))
        if rng.random() < 0.65:
            c = derive_criterion(rng, rng.choice(flat(r)))
        else:
            c = rng.choice(CRITERIA)
        pairs.append([r, c])
    if rng.random() < 0.03:
        # a range of another shape somewhere
        r2, c2 = rng.choice([s for s in SHAPES if s != (rows, cols)])
        k = rng.randrange(npairs + 1)
        if k == npairs:
            agg = grid(rng, r2, c2, 'numeric')
        else:
            pairs[k][0] = grid(rng, r2, c2, 'numeric')
    return {'agg': agg, 'pairs': pairs, 'tie': rng.random() < TIE_RATE}


# ------------------------------------------------------------------------------------------ deterministic parts
def table_case(ctx, cell, crit):
    """1-cell COUNTIF and SUMIF against the matcher"""
    case = {'agg': ((7,),), 'pairs': [[((cell,),), crit]], 'tie': False, 'kind': 'table'}
    K = Case(ctx, case)
    r = ((cell,),)
    c = Call('COUNTIF', None, [(r, crit)])
    s = Call('SUMIF', ((7,),), [(r, crit)])
    verdict = c.status[0]
    ctx.count('table:cells-x-criteria')
    ctx.count('table:' + verdict)
    cs = Call('COUNTIF', None, [(r, crit)], scalar=True)
    sb = Call('SUMIF', ((None,),), [(r, crit)], scalar=True)
    for call in (c, s, cs, sb):
        v = run_fn(K, call)
        ctx.case((call.fname, call.scalar, call.agg, tuple(call.pairs)), nontrivial=verdict != cr.OPEN)
        if v is not None:
            check_value(K, call, v)


def fixed_range_case(ctx, name, crit, agg):
    case = {'agg': agg, 'pairs': [[FIXED_RANGES[name], crit]], 'tie': False}
    check_case(ctx, case)
    ctx.count('fixed-range-cases')


def shape_case(ctx, s1, s2):
    a = tuple(tuple(1 + (i + j) % 3 for j in range(s1[1])) for i in range(s1[0]))
    b = tuple(tuple(1 + (i * j) % 3 for j in range(s2[1])) for i in range(s2[0]))
    ctx.count('shape-mismatch-pairs')
    # aggregated range a, criteria range b; and: two criteria ranges a, b with an aggregated range like a
    check_case(ctx, {'agg': a, 'pairs': [[b, '>1']], 'tie': False})
    check_case(ctx, {'agg': a, 'pairs': [[a, '>0'], [b, '<3']], 'tie': s1 == (2, 2) and s2[0] == 3})


TILDE_RANGE = (('what?',), ('what~?',), ('what~a',), ('whatx',), ('WHAT?',), ('a*b',), ('a~*b',), ('axxb',),
               ('a~xb',), ('~',), ('a~~b',), ('a~b',), (5,), (None,), ('',))
TILDE_CRITERIA = ['what~?', 'a~*b', 'a~~b', '=what~?', '<>what~?', '<>a~*b', 'w*~?', '~?*', 'a~*?']


def _wild(pattern, text, escapes):
    """does the text match the pattern?  escapes=True: ~? ~* ~~ denote the character itself"""
    toks, i = [], 0
    while i < len(pattern):
        c = pattern[i]
        if escapes and c == '~' and i + 1 < len(pattern) and pattern[i + 1] in '?*~':
            toks.append(('lit', pattern[i + 1]))
            i += 2
            continue
        toks.append(('one',) if c == '?' else ('any',) if c == '*' else ('lit', c))
        i += 1

    def rec(ti, si):
        if ti == len(toks):
            return si == len(text)
        t = toks[ti]
        if t[0] == 'any':
            return any(rec(ti + 1, k) for k in range(si, len(text) + 1))
        if si >= len(text):
            return False
        if t[0] == 'one' or t[1].lower() == text[si].lower():
            return rec(ti + 1, si + 1)
        return False
    return rec(0, 0)


def tilde_case(ctx, crit):
    """the statement does not mention '~'.  pycel documents it as the escape for ? and *; whichever reading
    an implementation takes, it must take ONE reading for the whole range: the count has to be the count
    under 'escape' or the count under 'ordinary character' (COUNTIF, and the =x / <>x complement)."""
    negate = crit.startswith('<>')
    pat = crit[2:] if negate else crit[1:] if crit.startswith('=') else crit
    out = lib.call('countif', TILDE_RANGE, crit)
    ctx.count('tilde-cases')
    ctx.case(('tilde', crit))
    case = {'kind': 'tilde', 'crit': crit}
    if out[0] != 'v' or isinstance(out[1], bool) or not isinstance(out[1], (int, float)):
        ctx.violation('tilde-criterion/raises-or-non-number', f'COUNTIF(range, {crit!r}) gives {out!r}', case)
        return
    counts = set()
    for escapes in (True, False):
        n = 0
        for (cell,) in TILDE_RANGE:
            hit = isinstance(cell, str) and _wild(pat, cell, escapes)
            n += (not hit) if negate else hit
        counts.add(n)
    if out[1] not in counts:
        ctx.violation('tilde-criterion/count-fits-neither-reading',
                      f'COUNTIF({[c for (c,) in TILDE_RANGE]!r}, {crit!r}) = {out[1]!r}; reading ~ as the escape or '
                      f'as an ordinary character gives {sorted(counts)}', case)


IDENTITY_TEXTS = ['abc', 'Stra\u00dfe', 'stra\u00dfe', 'STRASSE', '\u1f40\u03b4\u03cc\u03c2', '\ufb01n', 'fin', 'I\u0307', '\u0130',
                  'abc\n', 'a\nb', 'xbc\n', 'ab', '\u00e9t\u00e9', '\u00c9T\u00c9']


def identity_case(ctx, t):
    """a text cell is selected by the criterion that spells its own text, and by nothing the complement adds: however
    case is folded, it has to be folded the same way on both sides.  With a wildcard: ? is exactly one character and
    the end of the pattern is the end of the text, also when the text ends in a line feed."""
    rng = tuple((x,) for x in IDENTITY_TEXTS)
    case = {'kind': 'identity', 'text': t}
    ctx.count('identity-cases')
    ctx.case(('identity', t))
    eq, ne = lib.call('countif', rng, t), lib.call('countif', rng, '<>' + t)
    own = lib.call('countif', ((t,),), t)
    if own != ('v', 1):
        ctx.violation('identity/cell-not-selected-by-its-own-text',
                      f'COUNTIF(({t!r},), {t!r}) = {own!r}, expected 1', case)
        return
    if eq[0] != 'v' or ne[0] != 'v' or eq[1] + ne[1] != len(rng) or eq[1] < 1:
        ctx.violation('identity/equal-and-not-equal-do-not-partition',
                      f'COUNTIF(texts, {t!r}) = {eq!r} and COUNTIF(texts, {"<>" + t!r}) = {ne!r} over {len(rng)} '
                      f'text cells one of which is {t!r}', case)
        return
    if '\n' not in t and len(t) >= 2:
        # exactly-one-character and end-of-text, against cells that differ from t by a trailing line feed
        pat = t[:-1] + '?'
        want = sum(1 for x in IDENTITY_TEXTS if len(x) == len(t) and x[:-1].lower() == t[:-1].lower())
        got = lib.call('countif', rng, pat)
        closed = all(x.lower() == x.casefold() for x in IDENTITY_TEXTS if len(x) == len(t)) and t.lower() == t.casefold()
        if closed and got != ('v', want):
            ctx.violation('identity/question-mark-is-not-exactly-one-character',
                          f'COUNTIF(texts, {pat!r}) = {got!r}; {want} of the cells have the length of the pattern and '
                          f'agree with it up to the last character (a cell like {t + chr(10)!r} is one character longer)',
                          case)


BIG_INTS = [2 ** 53, 2 ** 53 + 1, 2 ** 53 + 2, 10 ** 17, 10 ** 17 + 1, 10 ** 17 - 1, -(2 ** 53) - 1, 5, 2 ** 53 + 1]


def big_integer_case(ctx):
    """whole numbers beyond 2**53 in the criteria range: a cell is selected by its own value and by no other (the
    neighbours that a double cannot tell apart are different numbers), "=x" and "<>x" partition the range"""
    rng = tuple((v,) for v in BIG_INTS)
    vals = tuple((k + 1,) for k in range(len(BIG_INTS)))
    for x in sorted(set(BIG_INTS)):
        n_eq = sum(1 for v in BIG_INTS if v == x)
        s_eq = sum(k + 1 for k, v in enumerate(BIG_INTS) if v == x)
        case = {'law': 'big-integers', 'x': x}
        ctx.count('directed:big-integers')
        ctx.case(('big-integers', x))
        for crit in (x, str(x), '=' + str(x)):
            outs = {'COUNTIF': (lib.call('countif', rng, crit), n_eq), 'COUNTIFS': (lib.call('countifs', rng, crit), n_eq),
                    'SUMIF': (lib.call('sumif', rng, crit, vals), s_eq), 'SUMIFS': (lib.call('sumifs', vals, rng, crit), s_eq),
                    'AVERAGEIF': (lib.call('averageif', rng, crit, vals), s_eq / n_eq),
                    'COUNTIF<>': (lib.call('countif', rng, '<>' + str(x)), len(BIG_INTS) - n_eq)}
            for f, (o, want) in outs.items():
                if o[0] != 'v' or isinstance(o[1], (str, bool)) or o[1] != want:
                    ctx.violation(f'select/number-beyond-2**53/{f.rstrip("<>")}',
                                  f'{f}(range {BIG_INTS!r}, criterion {crit!r}{"" if "<>" not in f else " negated"}) = {o!r}; '
                                  f'exactly the cells equal to {x} give {want!r}', case)


def run(ctx):
    if ctx.shard == 1 % ctx.nshards:
        big_integer_case(ctx)
    i = 0
    for t in IDENTITY_TEXTS:
        i += 1
        if ctx.mine(i):
            identity_case(ctx, t)
    for crit in TILDE_CRITERIA:
        i += 1
        if ctx.mine(i):
            tilde_case(ctx, crit)
    for cell in POOL:
        for crit in CRITERIA:
            i += 1
            if ctx.mine(i):
                table_case(ctx, cell, crit)
    for name in FIXED_RANGES:
        for crit in CRITERIA:
            i += 1
            if ctx.mine(i):
                fixed_range_case(ctx, name, crit, FIXED_AGG if i % 3 else FIXED_AGG_MIXED)
    for s1 in SHAPES:
        for s2 in SHAPES:
            if s1 != s2:
                i += 1
                if ctx.mine(i):
                    shape_case(ctx, s1, s2)
    rng = ctx.rng
    n = 0
    while not ctx.out_of_time():
        case = random_case(rng)
        K = check_case(ctx, case)
        ctx.count('sampled-cases')
        n += 1
        if n in (3, 40, 400) and not K.keys:
            ctx.sample({'agg': case['agg'], 'pairs': case['pairs']}, limit=2)


def replay(ctx, case):
    if case.get('law') == 'big-integers':
        big_integer_case(ctx)
        return
    if case.get('kind') == 'identity':
        identity_case(ctx, case['text'])
        return
    if case.get('kind') == 'tilde':
        tilde_case(ctx, case['crit'])
    elif case.get('kind') == 'table':
        table_case(ctx, case['pairs'][0][0][0][0], case['pairs'][0][1])
    else:
        check_case(ctx, case)
