"""C16 - MATCH / VLOOKUP / HLOOKUP / LOOKUP / INDEX agree with a linear-scan definition.

Oracle = vp.refmodel.lookup (linear scans written from the statement, returns the *set* of
acceptable answers) + laws between pycel's own functions:
  VLOOKUP(v, t, i, r) = INDEX(t, MATCH(v, first column, r?1:0), i)   (HLOOKUP, LOOKUP likewise),
  VLOOKUP(v, t, i, r) = HLOOKUP(v, transpose(t), i, r),
  MATCH on a row vector = MATCH on the same values as a column vector.
Every call goes through the wrappers a compiled formula uses (vp.lib.call); about 2 % of the cases
are also written into a one-sheet workbook and evaluated by ExcelCompiler (vp.lib.eval_formula) and
must agree with the library call and the model.

Deliberately permissive (see also vp/refmodel/lookup.py):
* duplicates under match type +-1 / approximate V/H/LOOKUP: any position holding the extreme value;
* blank cells in the data: "matches nothing" and "is the zero of the lookup value's type" are both
  accepted (exact mode everywhere, +-1 for the blanks at the ends of sorted data);
* "~" not followed by ? or * in a text lookup value: literal tilde or escape of the next character;
* a blank result cell may be delivered as None or 0;
* out-of-range index: #REF! or #VALUE! (also with a missing lookup value: the index is judged first);
* a fractional index (2.5) may be truncated or refused with #REF!/#VALUE! - only an exception or
  a cell other than the truncated one is reported;
* INDEX with row/column 0 or omitted: the whole row/column (any nesting), for vectors also the
  element counted along the vector; through a workbook cell the top-left element of that array;
* LOOKUP with a result vector shorter than the position found: #REF!, #VALUE! or #N/A.
Totality only (must return a position/cell/error code, no exception; value not judged): blank
lookup values; match type +-1 over data with interior blanks or error cells; unsorted data with
match type +-1 is never generated; text outside [0-9A-Za-z] is never ordered (+-1).
"""
import itertools

from vp import wb
from vp.lib import call, eval_formula, excel_literal
from vp.refmodel import lookup as L

PROP = 'C16'
LEVEL = 'exploration'
RULE = ('(1) exhaustive mini-space: every Excel-sorted vector of length <= 4 (and <= 3 with 0/1 blanks at '
        'either end) over the pool {1, 2, "a", "B", FALSE, TRUE} x 14 lookup values x MATCH type 1 (ascending) and '
        '-1 (descending), every sequence of length <= 4 over the pool x MATCH type 0, every (row, column) in '
        '-1..R+2 x -1..C+2 (+ omitted column) x INDEX/VLOOKUP/HLOOKUP over one table per shape up to 6x4, a '
        'directed list of 60 wildcard/tilde patterns x text vectors; (2) seeded scenarios: vectors up to length 8 '
        'and tables up to 6x4 over mixed pools (numbers, text, numeric text, logicals, duplicates, blanks at the '
        'ends, errors in result cells), sorted ascending/descending in Excel order or unsorted (type 0 only), x '
        'every value of the data plus neighbours (between, below the minimum, above the maximum, other case, '
        'numeric-text twin, absent type, blank, error code) x match types / range_lookup forms x every result '
        'index incl. 0, negative, too large, fractional. One case = one pycel call compared with the model; '
        'non-trivial = the model has a firm expectation (not a totality-only input); distinct = by (function, '
        'arguments).')
BUDGET = {'quick': 12, 'thorough': 240}
# mini:*, directed:*, match:mt=* and fn:match are the sizes of the deterministic enumerations (reached with
# any budget); the others are 5-10x below what a quick run reaches with 16 shards on an unloaded machine
# (>= 2x below a run on a machine with load average 80 on 16 cores)
FLOORS = {
    'quick': {'mini:match-approx': 12824, 'mini:match-exact': 21756, 'mini:index-sweep': 3690,
              'directed:wildcard': 1680, 'directed:folding': 30, 'directed:long-vector': 150, 'fn:match': 70000, 'match:mt=1': 6412, 'match:mt=-1': 6412,
              'match:mt=0': 22596, 'scenarios': 500,
              'fn:vlookup': 20000, 'fn:hlookup': 20000, 'fn:lookup': 500, 'fn:index': 2000,
              'via-workbook': 1000, 'firm': 60000,
              'law:vlookup=index(match)': 10000, 'law:hlookup=index(match)': 10000,
              'law:vlookup=hlookup(transpose)': 20000, 'law:lookup=index(match)': 400,
              'accept:duplicates': 5000, 'expect:#N/A': 28000, 'expect:error-propagates': 400,
              'data:blank-ends': 6972, 'vkind:text': 30000, 'vkind:bool': 10000, 'vkind:num': 20000,
              'wild:pattern': 1200, 'idx:too-large': 5000, 'idx:zero': 2500, 'idx:negative': 2500,
              'idx:in-range': 10000},
    'thorough': {'mini:match-approx': 12824, 'mini:match-exact': 21756, 'mini:index-sweep': 3690,
                 'directed:wildcard': 1680, 'directed:folding': 30, 'directed:long-vector': 150, 'fn:match': 400000, 'fn:vlookup': 300000, 'fn:hlookup': 300000,
                 'fn:lookup': 10000, 'fn:index': 30000, 'via-workbook': 15000, 'firm': 1000000,
                 'law:vlookup=index(match)': 150000, 'law:hlookup=index(match)': 150000,
                 'law:vlookup=hlookup(transpose)': 300000, 'law:lookup=index(match)': 8000,
                 'accept:duplicates': 50000, 'expect:#N/A': 300000, 'match:mt=1': 30000, 'match:mt=-1': 15000,
                 'match:mt=0': 100000, 'data:blank-ends': 40000, 'wild:pattern': 15000,
                 'idx:too-large': 80000, 'idx:zero': 40000, 'idx:negative': 40000},
}
EXHAUSTIVE = {'quick': False, 'thorough': False}
ASSUMPTIONS = [
    'text is ordered by its lower-cased code points; the sorted workloads only use [0-9A-Za-z] so that this '
    'agrees with Excel\'s collation',
    'library-level calls pass ranges as tuples of row tuples exactly as _R_ delivers them; the workbook sample '
    'ties that representation to ExcelCompiler.evaluate',
    'match types are -1, 0, 1 or omitted; range_lookup is TRUE/FALSE/1/0 or omitted',
]

# ----------------------------------------------------------------------------- pools

NUMS = [-1000000, -3, -1, 0, 0.5, 1, 2, 2.5, 3, 7, 10, 99.5, 100, 1000000,
        0.3, 0.1 + 0.2, 2 ** 53, 2 ** 53 + 2]      # neighbouring floats: equal means equal
TEXTS = ['a', 'A', 'ab', 'Ab', 'abc', 'b', 'B', 'ba', 'c', 'm', 'x', 'Zed', 'zed', '0', '1', '2', '10', '5',
         'a1', '100',
         # punctuation between Z and a sorts before letters in Excel; folding case the other way moves it behind
         # them.  (b_/B^ only ever meet a letter, a prefix or each other at the first difference.)
         'b_', 'B^']
BOOLS = [False, True]
WILD_DATA = ['a?', 'a*', 'a~', 'a~b', 'a.c', 'abc', 'axc', 'a.cd', 'abcd', '(ab', '(a', '[ab', 'a+', 'aa',
             'a\nb', 'a b', '?', '*', '~', 'a?c', 'ab*', 'éa', 'ÉA', 'a\\b', 'a|b', 'a$', '^a',
             'a{2}', 'ABC', 'b', 'ab', 'a', 'a~?', 'a~*', '~?']
PATTERNS = ['a?', 'a*', '*', '?', '??', '???', 'a~?', 'a~*', '~?', '~*', 'a.c*', 'a.?', 'a.c?', '(a*', '(a?',
            '[a*', '[ab?', 'a+*', '?+', 'a\\*', 'a|*', 'a|?', 'a$*', '^a*', '^?', 'a{2}*', '*c', 'a*c', 'A?C',
            'a?c', 'a~~', 'a~b', 'a~', '*~?', '*~*', 'a~?c', 'ab~*', 'AB*', '*b*', '?b?', 'a??', 'a?b',
            'É*', 'é?', 'a*d', '*.*', '?.?', 'a ?', 'a~?*', 'a~**', '~~', '~', 'a~~?', '*a', 'b*', '?*',
            '*?', 'a*~?', '~?*', 'abc']
RESULT_ERRS = ['#DIV/0!', '#N/A', '#REF!', '#VALUE!']
LOOKUP_ERRS = ['#DIV/0!', '#N/A', '#REF!', '#VALUE!', '#NUM!', '#NAME?', '#NULL!']
REGEX_META = set('.^$+{}[]()|\\')

MINI_POOL = [1, 2, 'a', 'B', False, True]
MINI_LOOKUPS = [0, 1, 1.5, 2, 3, '0', 'a', 'A', 'ab', 'b', 'c', '1', False, True]


# ----------------------------------------------------------------------------- small helpers

def tup(rows):
    return tuple(tuple(r) for r in rows)


def flat(v):
    if isinstance(v, (tuple, list)) or type(v).__name__ == 'ndarray':
        for x in v:
            yield from flat(x)
    else:
        yield v


def scalar_ok(got, want):
    if isinstance(got, (tuple, list)) or type(got).__name__ == 'ndarray':
        return False
    if want is None:
        return got is None or (not isinstance(got, bool) and isinstance(got, (int, float)) and got == 0)
    return wb.same(got, want)


def value_ok(got, acc, via_wb=False):
    """is the value pycel returned one of the acceptable answers"""
    is_arr = isinstance(got, (tuple, list)) or type(got).__name__ == 'ndarray'
    for want in acc:
        if isinstance(want, L.Arr):
            if is_arr:
                g = list(flat(got))
                if len(g) == len(want.flat) and all(scalar_ok(x, y) for x, y in zip(g, want.flat)):
                    return True
            elif via_wb and want.flat and scalar_ok(got, want.flat[0]):
                return True
        elif not is_arr and scalar_ok(got, want):
            return True
    return False


def is_code(v):
    return isinstance(v, str) and v in L.ERRORS


def same_outcome(a, b):
    if a[0] != b[0]:
        return False
    return True if a[0] == 'x' else wb.same(a[1], b[1])


def same_tie(lib, cell):
    """library call vs the value of a workbook cell holding the formula (a blank result shows as 0)"""
    if lib[0] != cell[0]:
        return False
    return lib[0] == 'x' or wb.same(lib[1], cell[1]) or (lib[1] is None and scalar_ok(cell[1], None))


def show(v):
    return excel_literal(v) if v is not None else '<blank>'


def data_flags(vec):
    kinds = {L.kind(x) for x in vec}
    lo, core, hi = L.strip_blanks(vec)
    return kinds, lo, core, hi


# ----------------------------------------------------------------------------- classification

def lookup_class(v, vec, mt):
    """mechanism class of a (lookup value, data, mode) triple - a predicate, never the numbers"""
    k = L.kind(v)
    if k == 'err':
        return 'error-lookup-value'
    if k == 'blank':
        return 'totality/blank-lookup-value'
    kinds, lo, core, hi = data_flags(vec)
    if mt == 0:
        if k == 'text':
            feats = L.pattern_features(v)
            if 'escape' in feats:
                return 'wildcard/tilde-escape'
            if 'wild' in feats and REGEX_META & set(v):
                return 'wildcard/regex-metacharacter-in-lookup-text'
            if 'wild' in feats and any(isinstance(x, str) and '\n' in x for x in vec):
                return 'wildcard/newline-in-data'
            if 'wild' in feats:
                return 'wildcard'
            if 'tilde' in feats:
                return 'exact/text-with-tilde'
        cls = 'exact/' + k
        if 'blank' in kinds:
            cls += '/blank-cells'
        if 'err' in kinds:
            cls += '/error-cells'
        return cls
    d = 'asc' if mt == 1 else 'desc'
    if 'err' in {L.kind(x) for x in core}:
        return f'totality/approx-{d}/error-cells-in-data'
    if any(x is None for x in core):
        return f'totality/approx-{d}/interior-blanks'
    if mt == -1 and (lo or hi) and k == 'num':
        # blanks before/after descending data and a numeric lookup value: one class whatever else the data holds
        return 'approx-desc/num/blank-ends'
    cls = f'approx-{d}/{k}'
    if {L.kind(x) for x in core} - {k}:
        cls += '/mixed-types'
    if lo or hi:
        cls += '/blank-ends'
    return cls


def index_class(idx, size):
    if idx is None:
        return 'omitted'
    if not L._is_int(idx):
        return 'fractional'
    if idx < 0:
        return 'negative'
    if idx == 0:
        return 'zero'
    if idx > size:
        return 'too-large'
    return 'in-range'


# ----------------------------------------------------------------------------- the monitor

class Seen:
    """one executed case: collects violations (deduplicated by key) and reports them once"""

    def __init__(self, ctx, case):
        self.ctx, self.case, self.keys = ctx, case, {}

    def bad(self, key, msg):
        self.keys.setdefault(key, msg)

    def flush(self):
        for key, msg in self.keys.items():
            self.ctx.violation(key, msg, self.case)
        return not self.keys


def judge(seen, func, cls, text, out, firm, acc, ok_total, via_wb=False):
    """compare one outcome with the model. ok_total(value) is the totality predicate."""
    ctx = seen.ctx
    if out[0] == 'x':
        ctx.count('outcome:exception')
        seen.bad(f'{func}/{cls}', f'{text} raised {out[1]}' +
                 (f'; acceptable: {acc!r}' if firm else '; a position/cell/error code is required'))
        return
    val = out[1]
    if firm:
        if not value_ok(val, acc, via_wb):
            seen.bad(f'{func}/{cls}', f'{text} = {val!r}; the linear-scan definition accepts {acc!r}')
    elif not ok_total(val):
        seen.bad(f'{func}/{cls}', f'{text} = {val!r}: neither a position/cell of the data nor an error code')


def wb_cells(rows, top=1, left=1):
    cells = {}
    for r, row in enumerate(rows):
        for c, v in enumerate(row):
            if v is not None:
                cells[wb.coord(left + c, top + r)] = v
    return cells


def rng_ref(rows, top=1, left=1):
    return f'{wb.coord(left, top)}:{wb.coord(left + len(rows[0]) - 1, top + len(rows) - 1)}'


V_CELL = 'K9'


def lookup_arg(cells, v, inline):
    """the lookup value as a formula argument: a literal, or a reference to a cell holding it"""
    if inline and v is not None and not (isinstance(v, str) and set(v) & set('\n\r\\')):
        # (a backslash / line break inside a text literal of a formula is C02's business, not a lookup matter)
        return excel_literal(v)
    if v is not None:
        cells[V_CELL] = v
    return V_CELL


# -- MATCH

def check_match(ctx, case):
    v, vec, mt = case['v'], list(case['a']), case['mt']
    emt = 1 if mt is None else mt
    seen = Seen(ctx, case)
    firm, acc = L.match_model(v, vec, emt)
    acc = sorted(acc, key=repr)
    cls = lookup_class(v, vec, emt)
    n = len(vec)

    def ok_total(val):
        return is_code(val) or (type(val) is int and 1 <= val <= n)

    tail = () if mt is None else (mt,)
    outs = {}
    for orient in ('row', 'col'):
        arr = (tuple(vec),) if orient == 'row' else tuple((x,) for x in vec)
        out = outs[orient] = call('match', v, arr, *tail)
        text = f'MATCH({show(v)}, {orient} {vec!r}{"".join(", %r" % m for m in tail)})'
        if out[0] == 'v' and firm and type(out[1]) is bool:
            seen.bad(f'MATCH/{cls}', f'{text} = {out[1]!r}, a logical instead of a position')
        judge(seen, 'MATCH', cls, text, out, firm, acc, ok_total)
        ctx.count('fn:match')
        ctx.case(('match', orient, repr(v), repr(vec), mt), nontrivial=firm)
        if n == 1:
            break
    if len(outs) == 2 and not same_outcome(outs['row'], outs['col']):
        seen.bad('MATCH/row-vs-column-orientation',
                 f'MATCH({show(v)}, {vec!r}, {mt}) = {outs["row"]!r} on a row but {outs["col"]!r} on a column')
    count_match(ctx, v, vec, emt, mt, firm, acc)

    if case.get('wb'):
        orient = case.get('wbo', 'col')
        rows = [vec] if orient == 'row' else [[x] for x in vec]
        cells = wb_cells(rows)
        arg = lookup_arg(cells, v, case.get('inline'))
        formula = f'=MATCH({arg},{rng_ref(rows)}{"".join(",%s" % excel_literal(m) for m in tail)})'
        out = eval_formula(formula, cells)
        ctx.count('via-workbook')
        ctx.count('via-workbook:match')
        ctx.case(('wb', formula, repr(sorted(cells.items()))), nontrivial=firm)
        wcls = 'single-cell-range' if n == 1 else cls
        judge(seen, 'MATCH', wcls, f'{formula} with {cells!r}', out, firm, acc, ok_total, via_wb=True)
        lib = outs.get(orient) or outs['row']
        if not same_tie(lib, out):
            seen.bad('MATCH/' + ('single-cell-range' if n == 1 else 'workbook-differs-from-library-call'),
                     f'{formula} with {cells!r} evaluates to {out!r}, the library call gives {lib!r}')
    return seen.flush()


def count_match(ctx, v, vec, emt, mt, firm, acc):
    ctx.count(f'match:mt={"omitted" if mt is None else mt}')
    ctx.count('vkind:' + L.kind(v))
    ctx.count('firm' if firm else 'totality-only')
    if firm:
        if L.NA in acc:
            ctx.count('expect:#N/A')
        if len(acc) > 1:
            ctx.count('accept:duplicates' if emt else 'accept:two-readings')
        if any(x is None for x in vec):
            ctx.count('data:blank-ends' if emt else 'data:blanks')
        if emt == 0 and L.kind(v) == 'text' and L.pattern_features(v) & {'wild', 'escape'}:
            ctx.count('wild:pattern')
        if L.kind(v) == 'err':
            ctx.count('expect:error-propagates')


# -- VLOOKUP / HLOOKUP

def check_vh(ctx, case):
    v, t, idx, rl = case['v'], [list(r) for r in case['t']], case['idx'], case['rl']
    seen = Seen(ctx, case)
    blank_rl = rl == 'blank'
    if blank_rl:
        # a range_lookup argument that is there but empty (=VLOOKUP(v,t,2,) or a reference to a blank cell) is
        # FALSE to Excel: the function receives None, which is not "omitted"
        rl = None
        ctx.count('vh:blank-range_lookup')
    exact = blank_rl or (rl is not None and not rl)
    tT = L.transpose(t)
    R, C = len(t), len(t[0])
    col = [row[0] for row in t]
    firm, acc = L.vlookup_model(v, t, idx, exact)
    ic = index_class(idx, C)
    cls = ('index-' + ic) if ic != 'in-range' else lookup_class(v, col, 0 if exact else 1)
    cells_of_t = [x for row in t for x in row]

    def ok_total(val):
        return is_code(val) or any(scalar_ok(val, x) for x in cells_of_t)

    tail = (None,) if blank_rl else () if rl is None else (rl,)
    outs = {}
    for func, tab in (('vlookup', t), ('hlookup', tT)):
        out = outs[func] = call(func, v, tup(tab), idx, *tail)
        text = f'{func.upper()}({show(v)}, {tab!r}, {idx!r}{"".join(", %r" % x for x in tail)})'
        judge(seen, func.upper(), cls, text, out, firm, acc, ok_total)
        ctx.count('fn:' + func)
        ctx.case((func, repr(v), repr(tab), idx, repr(rl)), nontrivial=firm)
    ctx.count('idx:' + ic)
    ctx.count('vh:exact' if exact else 'vh:approx')
    ctx.count('firm' if firm else 'totality-only', 2)
    ctx.count('vkind:' + L.kind(v), 2)
    if firm and len({repr(a) for a in acc}) > 1 and ic == 'in-range':
        ctx.count('accept:duplicates')
    if firm and L.NA in acc:
        ctx.count('expect:#N/A')
    ctx.count('law:vlookup=hlookup(transpose)')
    if not same_outcome(outs['vlookup'], outs['hlookup']):
        seen.bad('VLOOKUP-HLOOKUP/transpose-disagree',
                 f'VLOOKUP({show(v)}, {t!r}, {idx!r}, {rl!r}) = {outs["vlookup"]!r} but HLOOKUP on the transpose = '
                 f'{outs["hlookup"]!r}')
    if ic == 'in-range' and L.kind(v) not in ('err',):
        mt = 0 if exact else 1
        for func, tab, arr in (('vlookup', t, tuple((x,) for x in col)), ('hlookup', tT, (tuple(col),))):
            pm = call('match', v, arr, mt)
            if pm[0] != 'v':
                continue        # reported by the MATCH cases; V/HLOOKUP was judged against the model above
            if type(pm[1]) is int:
                want = call('index', tup(tab), pm[1], idx) if func == 'vlookup' else \
                    call('index', tup(tab), idx, pm[1])
            else:
                want = pm
            ctx.count(f'law:{func}=index(match)')
            if not same_outcome(outs[func], want):
                seen.bad(f'{func.upper()}/differs-from-INDEX-at-MATCH',
                         f'{func.upper()}({show(v)}, {tab!r}, {idx!r}, {rl!r}) = {outs[func]!r} but INDEX at '
                         f'MATCH(..., {mt}) = {pm!r} gives {want!r}')

    if case.get('wb'):
        for func, tab in (('vlookup', t), ('hlookup', tT)):
            cells = wb_cells(tab)
            arg = lookup_arg(cells, v, case.get('inline'))
            formula = (f'={func.upper()}({arg},{rng_ref(tab)},{excel_literal(idx)}'
                       f'{"".join(",%s" % excel_literal(x) for x in tail)})')
            out = eval_formula(formula, cells)
            ctx.count('via-workbook')
            ctx.count('via-workbook:' + func)
            ctx.case(('wb', formula, repr(sorted(cells.items()))), nontrivial=firm)
            single = R == 1 and C == 1
            judge(seen, func.upper(), 'single-cell-range' if single else cls, f'{formula} with {cells!r}', out,
                  firm, acc, ok_total, via_wb=True)
            if not same_tie(outs[func], out):
                seen.bad(f'{func.upper()}/' + ('single-cell-range' if single else
                                               'workbook-differs-from-library-call'),
                         f'{formula} with {cells!r} evaluates to {out!r}, the library call gives {outs[func]!r}')
    return seen.flush()


# -- LOOKUP

def check_lookup(ctx, case):
    v, a = case['v'], [list(r) for r in case['a']]
    res = None if case['r'] is None else [list(r) for r in case['r']]
    seen = Seen(ctx, case)
    firm, acc = L.lookup_model(v, a, res)
    R, C = len(a), len(a[0])
    if res is None:
        vec = list(a[0]) if C > R else [row[0] for row in a]
        form = 'array-form-wide' if C > R else 'array-form-tall'
        pool = [x for row in a for x in row]
        n_out = len(vec)
    else:
        vec = list(a[0]) if R == 1 else [row[0] for row in a]
        form = 'vector-form'
        pool = [x for row in res for x in row]
        n_out = len(pool)
    cls = lookup_class(v, vec, 1)
    if n_out < len(vec) and L.kind(v) != 'err':
        cls = 'result-vector-shorter'
    cls = f'{form}/{cls}'

    def ok_total(val):
        return is_code(val) or any(scalar_ok(val, x) for x in pool)

    args = (v, tup(a)) + (() if res is None else (tup(res),))
    out = call('lookup', *args)
    text = f'LOOKUP({show(v)}, {a!r}' + ('' if res is None else f', {res!r}') + ')'
    judge(seen, 'LOOKUP', cls, text, out, firm, acc, ok_total)
    ctx.count('fn:lookup')
    ctx.count('lookup:' + form)
    ctx.count('firm' if firm else 'totality-only')
    ctx.count('vkind:' + L.kind(v))
    ctx.case(('lookup', repr(v), repr(a), repr(res)), nontrivial=firm)
    if firm and L.NA in acc:
        ctx.count('expect:#N/A')
    if L.kind(v) != 'err':
        arr = (tuple(vec),)
        pm = call('match', v, arr, 1)
        if pm[0] == 'v':
            if type(pm[1]) is int:
                outvec = pool if res is not None else (list(a[-1]) if C > R else [row[-1] for row in a])
                want = call('index', (tuple(outvec),), 1, pm[1])
                if want == ('v', L.REF) and n_out < len(vec):
                    want = None       # which error a too short result vector gives is left open
            else:
                want = pm
            if want is not None:
                ctx.count('law:lookup=index(match)')
                if not same_outcome(out, want):
                    seen.bad('LOOKUP/differs-from-INDEX-at-MATCH',
                             f'{text} = {out!r} but INDEX of the result vector at MATCH(..., 1) = {pm!r} gives '
                             f'{want!r}')
    if case.get('wb'):
        cells = wb_cells(a)
        formula_tail = ''
        if res is not None:
            cells.update(wb_cells(res, top=12))
            formula_tail = ',' + rng_ref(res, top=12)
        arg = lookup_arg(cells, v, case.get('inline'))
        formula = f'=LOOKUP({arg},{rng_ref(a)}{formula_tail})'
        wout = eval_formula(formula, cells)
        ctx.count('via-workbook')
        ctx.count('via-workbook:lookup')
        ctx.case(('wb', formula, repr(sorted(cells.items()))), nontrivial=firm)
        single = (R == 1 and C == 1) or (res is not None and len(pool) == 1)
        judge(seen, 'LOOKUP', 'single-cell-range' if single else cls, f'{formula} with {cells!r}', wout, firm,
              acc, ok_total, via_wb=True)
        if not same_tie(out, wout):
            seen.bad('LOOKUP/' + ('single-cell-range' if single else 'workbook-differs-from-library-call'),
                     f'{formula} with {cells!r} evaluates to {wout!r}, the library call gives {out!r}')
    return seen.flush()


# -- INDEX

def check_index(ctx, case):
    t, r, c = [list(x) for x in case['t']], case['r'], case['c']
    seen = Seen(ctx, case)
    R, C = len(t), len(t[0])
    rc, cc = index_class(r, R), index_class(c, C)
    frac = 'fractional' in (rc, cc)
    acc = L.index_model(t, int(r), None if c is None else int(c))
    if frac:
        acc = acc + [x for x in (L.REF, L.VALUE) if x not in acc]
    for k in ('fractional', 'negative', 'too-large', 'zero', 'omitted'):
        if k in (rc, cc):
            cls = ('row-' if rc == k else 'column-') + k
            break
    else:
        cls = 'in-range'
    args = (tup(t), r) + (() if c is None else (c,))
    out = call('index', *args)
    text = f'INDEX({t!r}, {r!r}' + ('' if c is None else f', {c!r}') + ')'
    judge(seen, 'INDEX', cls, text, out, True, acc, None)
    ctx.count('fn:index')
    ctx.count('index:' + cls)
    ctx.count('firm')
    ctx.case(('index', repr(t), r, c))
    if case.get('wb'):
        cells = wb_cells(t)
        formula = f'=INDEX({rng_ref(t)},{excel_literal(r)}' + ('' if c is None else f',{excel_literal(c)}') + ')'
        wout = eval_formula(formula, cells)
        ctx.count('via-workbook')
        ctx.count('via-workbook:index')
        ctx.case(('wb', formula, repr(sorted(cells.items()))))
        single = R == 1 and C == 1
        judge(seen, 'INDEX', 'single-cell-range' if single else cls, f'{formula} with {cells!r}', wout, True, acc,
              None, via_wb=True)
        scalar = out[0] == 'x' or not isinstance(out[1], (tuple, list))
        if scalar and not same_tie(out, wout):
            seen.bad('INDEX/' + ('single-cell-range' if single else 'workbook-differs-from-library-call'),
                     f'{formula} with {cells!r} evaluates to {wout!r}, the library call gives {out!r}')
    return seen.flush()


CHECKS = {'match': check_match, 'vh': check_vh, 'lookup': check_lookup, 'index': check_index}


def check_case(ctx, case):
    return CHECKS[case['kind']](ctx, case)


# ----------------------------------------------------------------------------- generators

def swap_case(s):
    return s.swapcase()


def lookup_values(core, rng=None, extra=True):
    """every value of the data + neighbours: between, below the minimum, above the maximum, the other
    case, the numeric-text twin, a value of each type the data does not hold, blank, an error code"""
    out = []

    def add(x):
        if not any(type(x) is type(y) and x == y for y in out):
            out.append(x)

    nums = sorted({float(x) for x in core if L.kind(x) == 'num'})
    texts = sorted({x for x in core if L.kind(x) == 'text'}, key=L.fold)
    for x in core:
        if L.kind(x) in L.ZERO:
            add(x)
    for a, b in zip(nums, nums[1:]):
        add((a + b) / 2)
    if nums:
        add(nums[0] - 1)
        add(nums[-1] + 1)
        add(nums[0] + 0.25)
        add(str(int(nums[0])) if nums[0] == int(nums[0]) else str(nums[0]))
    else:
        add(1)
    for s in texts:
        if L.collation_safe(s):
            add(swap_case(s))
            add(s + 'a')
            if len(s) > 1:
                add(s[:-1])
            if s.isdigit() and len(s) < 7:
                add(int(s))
    if texts:
        add('0')
        add('zzzz')
    else:
        add('b')
    add(True)
    add(False)
    if extra:
        add(None)
        add(rng.choice(LOOKUP_ERRS) if rng else '#DIV/0!')
    return out


def draw_core(rng, n):
    """n values for a sorted workload: mostly one or two types, duplicates likely"""
    mix = rng.choice(['num', 'num', 'text', 'text', 'bool', 'num+text', 'num+text', 'text+bool', 'all', 'all'])
    pools = []
    if 'num' in mix or mix == 'all':
        pools.append(rng.sample(NUMS, rng.randint(1, 5)))
    if 'text' in mix or mix == 'all':
        pools.append(rng.sample(TEXTS, rng.randint(1, 5)))
    if 'bool' in mix or mix == 'all':
        pools.append(BOOLS)
    return [rng.choice(rng.choice(pools)) for _ in range(n)]


def sorted_vector(rng, direction, nmax=8):
    n = rng.randint(1, nmax)
    lead = rng.choice([0, 0, 0, 0, 1, 2])
    trail = rng.choice([0, 0, 0, 1, 1, 2])
    while n - lead - trail < 1:
        if trail:
            trail -= 1
        else:
            lead -= 1
    core = draw_core(rng, n - lead - trail)
    rng.shuffle(core)
    core = L.excel_sorted(core, descending=(direction == -1))
    return [None] * lead + core + [None] * trail


def unsorted_vector(rng, nmax=8):
    n = rng.randint(1, nmax)
    style = rng.random()
    if style < 0.45:
        pool = rng.sample(WILD_DATA, rng.randint(2, 6)) + rng.sample(TEXTS, 2)
    elif style < 0.8:
        pool = rng.sample(NUMS, 3) + rng.sample(TEXTS, 3) + BOOLS
    else:
        pool = rng.sample(NUMS, 2) + rng.sample(TEXTS, 2) + rng.sample(WILD_DATA, 2) + BOOLS + [None]
        if rng.random() < 0.5:
            pool.append(rng.choice(RESULT_ERRS))
    return [rng.choice(pool) for _ in range(n)]


def derived_patterns(rng, vec, k=6):
    """wildcard / escaped lookup texts derived from the text cells of the data"""
    out = []
    texts = [x for x in vec if L.kind(x) == 'text' and x]
    for _ in range(k):
        if not texts:
            break
        s = rng.choice(texts)
        how = rng.randrange(7)
        i = rng.randrange(len(s))
        j = rng.randint(i, len(s))
        if how == 0:
            p = s[:i] + '?' + s[i + 1:]
        elif how == 1:
            p = s[:i] + '*' + s[j:]
        elif how == 2:
            p = s[:i] + '*'
        elif how == 3:
            p = '*' + s[i:]
        elif how == 4:      # the literal text, wildcards escaped
            p = ''.join('~' + ch if ch in '?*' else ch for ch in s)
        elif how == 5:      # escaped and one real wildcard appended
            p = ''.join('~' + ch if ch in '?*' else ch for ch in s[:j]) + '*'
        else:
            p = swap_case(s)
        if p and not p.startswith('='):
            out.append(p)
    return out


def result_cell(rng, r, c):
    x = rng.random()
    if x < 0.55:
        return f'r{r}c{c}'
    if x < 0.8:
        return 1000 * r + 10 * c + 0.5
    if x < 0.87:
        return None
    if x < 0.93:
        return rng.choice(BOOLS)
    if x < 0.97:
        return rng.choice(RESULT_ERRS)
    return rng.choice(TEXTS)


def table_from(rng, keys, C):
    return [[k] + [result_cell(rng, r, c) for c in range(2, C + 1)] for r, k in enumerate(keys, 1)]


def indices(C, rng=None):
    out = list(range(-1, C + 3))
    if rng is not None and rng.random() < 0.3:
        out += [rng.choice([0.5, 1.5, C + 0.5, 1.0, float(C)])]
    return out


# ----------------------------------------------------------------------------- deterministic parts

def mini_space(ctx):
    """every sorted vector / every sequence over a 6-value pool, all lookups, all match types"""
    i = 0
    for n in range(1, 5):
        for combo in itertools.combinations_with_replacement(MINI_POOL, n):
            asc = L.excel_sorted(combo)
            variants = [(0, 0)] + ([(1, 0), (0, 1), (1, 1)] if n <= 3 else [])
            for lead, trail in variants:
                i += 1
                if not ctx.mine(i):
                    continue
                for mt, core in ((1, asc), (-1, asc[::-1])):
                    vec = [None] * lead + list(core) + [None] * trail
                    for v in MINI_LOOKUPS:
                        check_case(ctx, {'kind': 'match', 'v': v, 'a': vec, 'mt': mt})
                        ctx.count('mini:match-approx')
        for seq in itertools.product(MINI_POOL, repeat=n):
            i += 1
            if not ctx.mine(i):
                continue
            for v in MINI_LOOKUPS:
                check_case(ctx, {'kind': 'match', 'v': v, 'a': list(seq), 'mt': 0})
                ctx.count('mini:match-exact')


def index_sweep(ctx):
    """one table per shape up to 6x4, every (row, column) index pair incl. 0, negative, too large"""
    i = 0
    for R in range(1, 7):
        for C in range(1, 5):
            i += 1
            if not ctx.mine(i):
                continue
            keys = list(range(1, R + 1))
            t = [[k] + [f'r{r}c{c}' for c in range(2, C + 1)] for r, k in enumerate(keys, 1)]
            for r in range(-1, R + 3):
                for c in [None] + list(range(-1, C + 3)):
                    check_case(ctx, {'kind': 'index', 't': t, 'r': r, 'c': c, 'wb': (r + (c or 0)) % 7 == 0})
                    ctx.count('mini:index-sweep')
            for v in (1, R, R + 0.5, 0, 'x'):
                for idx in range(-1, C + 3):
                    for rl in (False, True, None, 'blank'):
                        check_case(ctx, {'kind': 'vh', 'v': v, 't': t, 'idx': idx, 'rl': rl,
                                         'wb': (idx == C and rl in (False, 'blank') and v in (1, R + 0.5))})
                        ctx.count('mini:index-sweep')


DIRECTED_VECTORS = [
    ['a?', 'ab', 'a~b', 'a~?'], ['abc', 'a*', 'a~', 'a~*'], ['abcd', 'a.cd', 'a.c', 'axc'],
    ['(ab', '(a', 'ab', 'a'], ['[ab', 'ab', 'b'], ['aa', 'a+', 'a+b'], ['a\nb', 'a b', 'axb', 'ab'],
    ['éa', 'ÉA', 'ea'], ['a\\b', 'a|b', 'a$', '^a', 'a{2}', 'aa'], ['?', '*', '~', '~?', 'x'],
    ['ABC', 'abc', 'a?c', 'ab*', 'abcd'], [1, True, None, 'ab', '#N/A', 'a?'], ['b', 'ab', 'bab', 'abc'],
    ['~~', '~', 'a~~', 'a~', 'a~~?'],
]


def directed_wildcards(ctx):
    i = 0
    for vec in DIRECTED_VECTORS:
        for p in PATTERNS:
            i += 1
            if not ctx.mine(i):
                continue
            check_case(ctx, {'kind': 'match', 'v': p, 'a': vec, 'mt': 0, 'wb': i % 11 == 0, 'inline': i % 2 == 0})
            ctx.count('directed:wildcard')
            t = [[k, f'r{r}'] for r, k in enumerate(vec, 1)]
            check_case(ctx, {'kind': 'vh', 'v': p, 't': t, 'idx': 2, 'rl': False, 'wb': i % 23 == 0})
            ctx.count('directed:wildcard')


# texts that differ in more than their case although a "full" case folding (str.casefold) makes them equal: sharp s
# and ss, the ligature fi and f + i, long s and s, kelvin sign and k are different texts for an exact match
FOLDING_VECTORS = [
    ['Straße', 'STRASSE', 'strasse'], ['masse', 'maße', 'MASSE'], ['ﬁn', 'fin', 'FIN'], ['ſa', 'sa', 'SA'],
    ['STRASSE', 'straße'], ['FIN', 'ﬁn'], ['ǆ', 'ǅ', 'Ǆ', 'dž'], ['ς', 'σ', 'Σ'],
]


def directed_folding(ctx):
    i = 0
    for vec in FOLDING_VECTORS:
        for v in sorted({x for k in vec for x in (k, k.upper(), k.lower())}):
            if len(v.lower()) != len(v) or v.lower().upper().lower() != v.lower():
                continue     # (upper() of a sharp s is SS: a different text, looked up as such below, not as "its" upper case)
            i += 1
            if not ctx.mine(i):
                continue
            check_case(ctx, {'kind': 'match', 'v': v, 'a': vec, 'mt': 0, 'wb': i % 5 == 0, 'inline': i % 2 == 0})
            ctx.count('directed:folding')
            t = [[k, f'r{r}'] for r, k in enumerate(vec, 1)]
            check_case(ctx, {'kind': 'vh', 'v': v, 't': t, 'idx': 2, 'rl': False, 'wb': i % 7 == 0})
            ctx.count('directed:folding')


def long_vectors(ctx):
    """vectors of 101 to 400 entries (the other workloads stay below 10): a logical above the first equal number, one
    text in several spellings, a numeric text next to its number - the first position that is equal in Excel's sense"""
    i = 0
    for n in (101, 150, 257, 400):
        vec = [True, False, '1', 'Widget'] + [k % 60 + 2 for k in range(n - 12)] + [1, 0, 'widget', 1.0, 'WIDGET', '57', 57.5, 'b?d']
        for v in (1, 0, 1.0, 0.0, True, False, 'widget', 'WIDGET', 'Widget', 'wIdGeT', 57, '57', '1', 61, 3, 57.5, 'w?dget', 'b~?d', 'zz'):
            i += 1
            if not ctx.mine(i):
                continue
            check_case(ctx, {'kind': 'match', 'v': v, 'a': vec, 'mt': 0, 'wb': i % 9 == 0, 'inline': False})
            ctx.count('directed:long-vector')
            t = [[k, f'r{r}'] for r, k in enumerate(vec, 1)]
            check_case(ctx, {'kind': 'vh', 'v': v, 't': t, 'idx': 2, 'rl': False, 'wb': i % 19 == 0})
            ctx.count('directed:long-vector')
    # sorted data of that length under the approximate match types
    asc = [k * 3 for k in range(1, 301)]
    for v in (3, 4, 299, 300, 450, 899, 900, 901, 2, 1e6):
        i += 1
        if ctx.mine(i):
            check_case(ctx, {'kind': 'match', 'v': v, 'a': asc, 'mt': 1, 'wb': False, 'inline': False})
            check_case(ctx, {'kind': 'match', 'v': v, 'a': list(reversed(asc)), 'mt': -1, 'wb': False, 'inline': False})
            ctx.count('directed:long-vector', 2)


# ----------------------------------------------------------------------------- seeded scenarios

WB_RATE = 0.02


def flag_wb(rng, case):
    if rng.random() < WB_RATE:
        case['wb'] = True
        case['inline'] = rng.random() < 0.3
        case['wbo'] = rng.choice(['row', 'col'])
    return case


def scenario_sorted_vector(ctx, rng):
    direction = rng.choice([1, 1, -1])
    vec = sorted_vector(rng, direction)
    _, core, _ = L.strip_blanks(vec)
    ctx.count('scenario:sorted-vector-' + ('asc' if direction == 1 else 'desc'))
    for v in lookup_values(core, rng):
        for mt in ((1, None, 0) if direction == 1 else (-1, 0)):
            check_case(ctx, flag_wb(rng, {'kind': 'match', 'v': v, 'a': vec, 'mt': mt}))


def scenario_unsorted_vector(ctx, rng):
    vec = unsorted_vector(rng)
    ctx.count('scenario:unsorted-vector')
    vals = lookup_values([x for x in vec if x is not None], rng)
    vals += derived_patterns(rng, vec) + rng.sample(PATTERNS, 4)
    for v in vals:
        check_case(ctx, flag_wb(rng, {'kind': 'match', 'v': v, 'a': vec, 'mt': 0}))


def scenario_table(ctx, rng):
    C = rng.randint(1, 4)
    if rng.random() < 0.6:
        keys = sorted_vector(rng, 1, nmax=6)
        modes = [True, 1, None, False, 0]
        ctx.count('scenario:sorted-table')
    else:
        keys = unsorted_vector(rng, nmax=6)
        modes = [False, 0]
        ctx.count('scenario:unsorted-table')
    t = table_from(rng, keys, C)
    vals = lookup_values([x for x in keys if x is not None], rng)
    if modes[0] is False:
        vals += derived_patterns(rng, keys, 3) + rng.sample(PATTERNS, 2)
    if len(vals) > 10:
        vals = rng.sample(vals, 10)
    idxs = indices(C, rng)
    for v in vals:
        for rl in modes:
            for idx in (idxs if rng.random() < 0.5 else [rng.choice(idxs), rng.randint(1, C)]):
                check_case(ctx, flag_wb(rng, {'kind': 'vh', 'v': v, 't': t, 'idx': idx, 'rl': rl}))


def scenario_lookup(ctx, rng):
    vec = sorted_vector(rng, 1)
    n = len(vec)
    _, core, _ = L.strip_blanks(vec)
    form = rng.choice(['vv', 'vv', 'vv-short', 'array'])
    ctx.count('scenario:lookup-' + form)
    if form == 'array':
        width = rng.randint(1, 4)
        a = table_from(rng, vec, width)             # n x width: searched down the first column if n >= width
        if rng.random() < 0.5:
            a = L.transpose(a)                      # width x n: searched along the first row if n > width
        # when the other dimension turns out to be the longer one Excel searches result cells instead of
        # the sorted keys: the model then reports "not firm" (unsorted) and the case runs for totality
        res = None
    else:
        m = n if form == 'vv' else rng.randint(1, max(1, n - 1))
        out = [result_cell(rng, r, 2) for r in range(1, m + 1)]
        a = [vec] if rng.random() < 0.5 else [[x] for x in vec]
        res = [out] if rng.random() < 0.5 else [[x] for x in out]
    for v in lookup_values(core, rng):
        check_case(ctx, flag_wb(rng, {'kind': 'lookup', 'v': v, 'a': a, 'r': res}))


def scenario_index(ctx, rng):
    R, C = rng.randint(1, 6), rng.randint(1, 4)
    t = [[result_cell(rng, r, c) for c in range(1, C + 1)] for r in range(1, R + 1)]
    ctx.count('scenario:index')
    for r in indices(R, rng):
        for c in [None] + indices(C, rng):
            check_case(ctx, flag_wb(rng, {'kind': 'index', 't': t, 'r': r, 'c': c}))


SCENARIOS = [(0.35, scenario_sorted_vector), (0.2, scenario_unsorted_vector), (0.3, scenario_table),
             (0.1, scenario_lookup), (0.05, scenario_index)]


def whole_column_lookups(ctx):
    """a lookup array written as a whole column / row of a sheet whose data does not start at A1: positions count from
    row 1 / column A (MATCH(30, Data!C:C, 0) is the row number of the cell)"""
    from vp import wb as wbm
    data = {'C4': 10, 'C5': 20, 'C6': 30, 'C7': 40, 'C8': 50, 'D4': 'ten', 'D5': 'twenty', 'D6': 'thirty',
            'D7': 'forty', 'D8': 'fifty'}
    wants = {'A1': ('=MATCH(30,Data!C:C,0)', 6), 'A2': ('=MATCH("thirty",Data!6:6,0)', 4),
             'A3': ('=INDEX(Data!D:D,6)', 'thirty'), 'A4': ('=VLOOKUP(30,Data!C:D,2,FALSE)', 'thirty'),
             'A5': ('=MATCH(35,Data!C:C,1)', 6), 'A6': ('=INDEX(Data!C:D,7,2)', 'forty'),
             'A7': ('=MATCH(30,Data!C4:C8,0)', 3), 'A8': ('=HLOOKUP("D",Data!1:8,6,FALSE)', None)}
    for order in ('unbounded-first', 'bounded-first'):
        cells = {k: f for k, (f, _) in wants.items() if k != 'A8'}
        spec = {'sheets': [['Sheet1', cells], ['Data', data]], 'names': {}, 'arrays': [], 'calc': None}
        comp = wbm.compile_mem(spec)
        keys = sorted(cells, reverse=(order == 'bounded-first'))
        for k in keys:
            f, want = wants[k]
            got = wbm.outcome(comp.evaluate, f'Sheet1!{k}')
            ctx.count('whole-column-lookup-cases')
            ctx.case(('whole-column', order, f))
            if got != ('v', want):
                ctx.violation('whole-column-lookup/position-not-counted-from-the-first-row-or-column',
                              f'{f} with the data in Data!C4:D8 gives {got!r}, expected {want!r} (evaluated '
                              f'{order})', {'kind': 'whole-column'})
                break


def run(ctx):
    if ctx.shard == 0:
        whole_column_lookups(ctx)
    mini_space(ctx)
    index_sweep(ctx)
    directed_wildcards(ctx)
    directed_folding(ctx)
    long_vectors(ctx)
    rng = ctx.rng
    while not ctx.out_of_time():
        x = rng.random()
        for w, scen in SCENARIOS:
            if x < w:
                scen(ctx, rng)
                break
            x -= w
        else:
            scenario_index(ctx, rng)
        ctx.count('scenarios')
    ctx.sample({'kind': 'match', 'v': 'a~?', 'a': ['a?', 'ab', 'a~b'], 'mt': 0,
                'model': repr(L.match_model('a~?', ['a?', 'ab', 'a~b'], 0))})
    ctx.sample({'kind': 'match', 'v': 'b', 'a': [None, 1, 2, 'a', 'B', 'b', 'c', True], 'mt': 1,
                'model': repr(L.match_model('b', [None, 1, 2, 'a', 'B', 'b', 'c', True], 1))})
    ctx.sample({'kind': 'vh', 'v': 2.5, 't': [[1, 'r1c2'], [2, 'r2c2'], [2, None], [3, 'r4c2']], 'idx': 2,
                'rl': True, 'model': repr(L.vlookup_model(2.5, [[1, 'r1c2'], [2, 'r2c2'], [2, None],
                                                                [3, 'r4c2']], 2, False))})


def replay(ctx, case):
    if case.get('kind') == 'whole-column':
        whole_column_lookups(ctx)
        return
    check_case(ctx, case)
