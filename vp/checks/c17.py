"""C17 - date serial numbers form Excel's 1900 calendar.

Every result of YEAR/MONTH/DAY/DATE/WEEKDAY/EOMONTH/EDATE/YEARFRAC/HOUR/MINUTE/SECOND - called through
the wrappers a compiled formula calls (vp.lib.fn) and, for every 101st case (~1 %), a second time as
formulas of a one-sheet workbook through ExcelCompiler.evaluate (class Tie: same oracle, same mechanism
keys, counters prefixed ``wb:``; at workbook level the WEEKDAY window is n, n+7 only) - is compared with
vp.refmodel.calendar, a closed-form model of the 1900 calendar written from the statement (no pycel,
no datetime).  An exception at workbook level surfaces as pycel's FormulaEvalError around the original.

Parts of the statement and how each is decided
  days      every serial n: parts(n) as the statement fixes them (0 = 1900-01-00, 1..59 = January and
            February 1900 - the only reading under which 0 and 60 are what the statement says -,
            60 = 1900-02-29, n > 60 = proleptic Gregorian 1899-12-30 + n), DATE(YEAR, MONTH, DAY) = n,
            WEEKDAY(n) an integer 1..7 with WEEKDAY(n + 7) = WEEKDAY(n) and 7 different values on 7
            consecutive days (fundamental period 7; the statement does not anchor which day is 1, so
            that is not judged).  pycel's WEEKDAY has no return_type parameter (a second argument is a
            TypeError in the python signature), so the default is the only return type there is.
  date      DATE(y, m, d) = serial(day 1 of the month reached by carrying m) + d - 1.
  shift     EOMONTH(n, k) = last day of the month k months from n's month; EDATE(n, k) = same
            day-of-month k months away.
  yearfrac  YEARFRAC(a, b, basis) = YEARFRAC(b, a, basis), bases 0..4 and basis omitted.
  hms       HOUR/MINUTE/SECOND of base + (k + delta)/86400 = k decomposed, |delta| <= 0.45 s.
  range     serial < 0, serial > 2958465, results outside 0..2958465 are #NUM!; an exception is always
            a violation.

Deliberately permissive (the statement is silent or has two readings; both are accepted and counted):
  * a DATE whose carried month lies outside 1900-01..9999-12 but whose final serial is in range
    (DATE(1900,0,40), DATE(9999,13,0)): the carried serial or #NUM!;
  * the last day of December 1899 (EOMONTH(15,-1), EDATE(31,-1)): #NUM! or 0 (serial 0 read as the day
    before 1900-01-01);
  * EDATE when the day-of-month does not exist in the target month (31 January + 1 month): the last day
    of the target month (Excel) or the carried day DATE(y, m + k, d) (pycel);
  * EDATE from serial 0 (day-of-month 0) with k != 0: any in-range serial or #NUM!;
  * WEEKDAY/HOUR/MINUTE/SECOND of a serial above 2958465: a value in the function's range or #NUM!
    (the *result* is not out of range); YEARFRAC with an out-of-range date: #NUM! or a number;
  * YEARFRAC is only checked for symmetry (equal within 1e-12 relative, or the same error value);
  * int and float results are the same number (DATE(1900,2,29) is 60.0 in pycel); bool/str are not.
Not judged at all: years below 1900 in DATE, fractional serials in YEAR/MONTH/DAY, text/logical
arguments, ties exactly half way between two seconds.
"""
import math
import numbers
import random

from vp import lib, wb
from vp.core import h64
from vp.refmodel import calendar as cal

PROP = 'C17'
LEVEL = 'exploration'
RULE = ('library functions through the formula wrappers (vp.lib.fn) + a 1 % sample through ExcelCompiler. '
        'days: thorough = every serial 0..2958465 in blocks of 1024 partitioned over the shards, quick = '
        'seed-dependent stride (13..59) + fixed boundary set (0,1,59,60,61,62,365,366,367, 1 Jan, 28 Feb, '
        '29 Feb/1 Mar, 31 Dec of every year 1900..9999, 2958465, 2958466, -1); date: all (m, d) in -40..60 '
        'squared for the years 1900,1901,1904,1999,2000,2020,2100,9998,9999 (+ seeded years); shift: EOMONTH '
        'and EDATE for every k in -1200..1200 from fixed + seeded start days; yearfrac: boundary x boundary '
        'and seeded near/far pairs x bases 0..4 + omitted, both argument orders; hms: second-of-day k '
        '(thorough all 86400, quick strided + boundaries) x sub-second offsets x day parts. A case is one '
        'argument tuple; all enumerations are duplicate-free, sampled cases are signed by their arguments; '
        'trivial = YEARFRAC(a, a).')
BUDGET = {'quick': 30, 'thorough': 240}
FLOORS = {
    'quick': {'days': 60000, 'days:boundary': 40000, 'serial:0': 1, 'serial:60': 1, 'serial:1..59': 5,
              'serial:2958465': 1, 'serial:2958466': 1, 'serial:-1': 1,
              'weekday_period_pairs': 60000, 'date_triples': 91809, 'date:day<=0': 30000,
              'date:month-carried': 60000, 'date:want-#NUM!': 100,
              'shift_calls': 100000, 'shift:EOMONTH': 50000, 'shift:EDATE': 50000, 'shift:want-#NUM!': 500,
              'yearfrac_pairs': 5000, 'yearfrac:basis=0': 800, 'yearfrac:basis=1': 800, 'yearfrac:basis=2': 800,
              'yearfrac:basis=3': 800, 'yearfrac:basis=4': 800, 'yearfrac:basis=omitted': 800,
              'hms_cases': 15000, 'hms:delta=0,base=0': 1000, 'tie_cases': 300},
    'thorough': {'days:in-range': 2958466, 'roundtrip_ok_or_judged': 2958466, 'weekday_period_pairs': 2958459,
                 'hms:delta=0,base=0': 86400, 'hms_cases': 86400 * 10, 'date_triples': 10201 * 20,
                 'shift_calls': 2401 * 2 * 100, 'yearfrac_pairs': 60000, 'tie_cases': 8000,
                 'serial:2958466': 1, 'serial:-1': 1},
}
EXHAUSTIVE = {'quick': False, 'thorough': True}
ASSUMPTIONS = [
    'the reference calendar is closed-form civil arithmetic (vp/refmodel/calendar.py), tied to datetime by '
    'selfcheck() at the start of every shard',
    'thorough is exhaustive over the serial days 0..2958465 and the 86400 seconds of a day; DATE '
    'normalisation, month shifts and YEARFRAC pairs are enumerated over fixed grids plus seeded samples',
    'where the statement has two readings both are accepted (list in the module docstring)',
]

NUM = cal.NUM
MAX = cal.MAX_SERIAL
BLOCK = 1024
TIE_BATCH = 40
TIE_EVERY = 101          # prime: walks through every residue of the inner loops (6 bases, 16 offsets)
PYNAME = {'YEAR': 'year', 'MONTH': 'month', 'DAY': 'day', 'DATE': 'date', 'WEEKDAY': 'weekday',
          'EOMONTH': 'eomonth', 'EDATE': 'edate', 'YEARFRAC': 'yearfrac', 'HOUR': 'hour',
          'MINUTE': 'minute', 'SECOND': 'second'}
DATE_YEARS = [1900, 1901, 1904, 1999, 2000, 2020, 2100, 9998, 9999]
SHIFT_STARTS = [0, 1, 15, 31, 32, 59, 60, 61, 62, 91, 365, 366, 367, 36556, 36585, 36616, 43861, 43890,
                45000, MAX - 365, MAX - 31, MAX - 30, MAX - 1, MAX, MAX + 1, -1]
YF_BOUNDARY = [0, 1, 30, 31, 32, 59, 60, 61, 62, 90, 91, 365, 366, 367, 425, 426, 36525, 36526, 36584, 36585,
               36586, 36891, 36950, 43861, 43889, 43890, 43891, 44196, 44255, MAX - 365, MAX - 1, MAX]
DELTAS = [0.0, 0.25, -0.25, 0.45, -0.45]
HMS_BOUNDARY = [0, 1, 2, 58, 59, 60, 61, 119, 120, 3540, 3599, 3600, 3601, 3659, 3660, 43199, 43200, 43201,
                86339, 86340, 86341, 86398, 86399]


# --------------------------------------------------------------------------- the two ways to call

class LibEval:
    """the library function wrapped as a formula's namespace holds it"""
    mode = 'lib'

    def calls(self, exprs):
        out = []
        for f, args in exprs:
            if f == 'ROUNDTRIP':
                try:
                    n = args[0]
                    out.append(('v', lib.fn('date')(lib.fn('year')(n), lib.fn('month')(n), lib.fn('day')(n))))
                except Exception as exc:  # noqa - an exception out of pycel is an observation
                    out.append(('x', f'{type(exc).__name__}: {str(exc)[:120]}'))
            else:
                out.append(lib.call(PYNAME[f], *[a for a in args if a is not None]))
        return out


class WbEval:
    """the same calls as formulas of a one-sheet in-memory workbook through ExcelCompiler.evaluate"""
    mode = 'wb'

    def calls(self, exprs):
        cells, targets = {}, []
        for r, (f, args) in enumerate(exprs, start=1):
            refs = []
            for c, a in enumerate(args):
                if a is None:
                    continue
                coord = wb.coord(c + 1, r)
                cells[coord] = a
                refs.append(coord)
            if f == 'ROUNDTRIP':
                formula = f'=DATE(YEAR({refs[0]}),MONTH({refs[0]}),DAY({refs[0]}))'
            else:
                formula = f'={f}({",".join(refs)})'
            targets.append((wb.coord(8, r), formula))
        if len(targets) == 1:
            return [lib.eval_formula(targets[0][1], cells=cells, target=targets[0][0])]
        for t, formula in targets:
            cells[t] = formula
        try:
            comp = wb.compile_mem({'sheets': [['Sheet1', cells]], 'names': {}, 'arrays': [], 'calc': None})
        except Exception as exc:  # noqa - as vp.lib.eval_formula: pycel refusing the workbook is an observation
            return [('x', f'{type(exc).__name__}: {str(exc)[:120]}')] * len(targets)
        out = []
        for t, _ in targets:
            try:
                out.append(('v', comp.evaluate(f'Sheet1!{t}')))
            except Exception as exc:  # noqa
                text = str(exc).strip()
                out.append(('x', f'{type(exc).__name__}: {text.splitlines()[-1][:120] if text else ""}'))
        return out


LIB, WB = LibEval(), WbEval()
EVALS = {'lib': LIB, 'wb': WB}


def is_number(v):
    return isinstance(v, numbers.Real) and not isinstance(v, bool) and type(v).__name__ != 'bool_' and v == v


def is_int_valued(v):
    return is_number(v) and math.isfinite(v) and v == int(v)


def show(o):
    return repr(o[1]) if o[0] == 'v' else f'raised {o[1]}'


def observed(outs):
    return tuple(wb.norm(o[1]) if o[0] == 'v' else ('x',) for o in outs)


# --------------------------------------------------------------------------- days

def n_class(n):
    return 'day-0' if n == 0 else 'day-60' if n == 60 else 'days-1..59' if n < 60 else 'days-above-60'


def check_day(ctx, ev, n):
    """all claims about the single serial n (parts, round trip, WEEKDAY window n..n+7)"""
    case = {'part': 'day', 'mode': ev.mode, 'n': n}
    # library level: WEEKDAY(n..n+7); workbook level: WEEKDAY(n), WEEKDAY(n+7) only (period, not distinctness)
    offsets = range(8) if ev.mode == 'lib' else (0, 7)
    window = [n + j for j in offsets if 0 <= n + j <= MAX] if 0 <= n <= MAX else [n]
    outs = ev.calls([('YEAR', (n,)), ('MONTH', (n,)), ('DAY', (n,)), ('ROUNDTRIP', (n,))] +
                    [('WEEKDAY', (x,)) for x in window])
    parts, rt, wds = outs[:3], outs[3], outs[4:]
    w7 = wds[-1] if len(window) > 1 and window[-1] == n + 7 else ('v', None)
    seen = observed(outs[:5] + [w7])           # the part of the observation both levels have
    bad = 0
    if not (0 <= n <= MAX):
        where = 'serial-past-9999' if n > MAX else 'negative-serial'
        for f, o in zip(('YEAR', 'MONTH', 'DAY'), parts):
            if o[0] == 'x':
                bad += 1
                ctx.violation(f'YEAR-MONTH-DAY/{where}-raises',
                              f'{f}({n}) {show(o)}; serial days end at {MAX}: expected #NUM!, never an exception', case)
            elif o[1] != NUM:
                bad += 1
                ctx.violation(f'YEAR-MONTH-DAY/{where}-returns-a-value',
                              f'{f}({n}) = {show(o)}; serial days end at {MAX}: expected #NUM!', case)
        o = wds[0]
        if o[0] == 'x':
            bad += 1
            ctx.violation(f'WEEKDAY/{where}-raises', f'WEEKDAY({n}) {show(o)}; expected #NUM! (or a weekday), '
                          f'never an exception', case)
        elif n < 0 and o[1] != NUM:
            bad += 1
            ctx.violation('WEEKDAY/negative-serial-returns-a-value', f'WEEKDAY({n}) = {show(o)}; expected #NUM!', case)
        elif o[1] != NUM and not (is_int_valued(o[1]) and 1 <= o[1] <= 7):
            bad += 1
            ctx.violation('WEEKDAY/not-in-1..7', f'WEEKDAY({n}) = {show(o)}', case)
        elif n > MAX:
            ctx.count('permissive:weekday-past-9999=' + ('#NUM!' if o[1] == NUM else 'weekday'))
        ctx.count('out_of_range_serials_checked')
        return bad, seen

    want = cal.parts(n)
    cls = n_class(n)
    got = []
    for f, o, w in zip(('YEAR', 'MONTH', 'DAY'), parts, want):
        if o[0] == 'x':
            bad += 1
            ctx.violation(f'YEAR-MONTH-DAY/raises/{cls}', f'{f}({n}) {show(o)}; expected {w}', case)
            got.append(None)
        else:
            got.append(o[1])
    if None not in got and not all(is_number(g) and g == w for g, w in zip(got, want)):
        bad += 1
        key = {'day-0': 'parts/day-0-is-not-1900-01-00', 'day-60': 'parts/day-60-is-not-1900-02-29',
               'days-1..59': 'parts/january-february-1900',
               'days-above-60': 'parts/not-proleptic-gregorian'}[cls]
        ctx.violation(key, f'YEAR/MONTH/DAY({n}) = {tuple(got)!r}, expected {want!r}', case)
    if rt[0] == 'x':
        bad += 1
        ctx.violation(f'roundtrip/raises/{cls}', f'DATE(YEAR({n}),MONTH({n}),DAY({n})) {show(rt)}; expected {n}', case)
    elif not (is_number(rt[1]) and rt[1] == n):
        bad += 1
        ctx.violation(f'roundtrip/not-identity/{cls}',
                      f'DATE(YEAR({n}),MONTH({n}),DAY({n})) = {show(rt)} with parts {tuple(got)!r}; expected {n}', case)
    ctx.count('roundtrip_ok_or_judged')
    # WEEKDAY
    vals = []
    for x, o in zip(window, wds):
        if o[0] == 'x':
            bad += 1
            ctx.violation('WEEKDAY/raises', f'WEEKDAY({x}) {show(o)}', case)
            vals.append(None)
        elif not (is_int_valued(o[1]) and 1 <= o[1] <= 7):
            bad += 1
            ctx.violation('WEEKDAY/not-in-1..7', f'WEEKDAY({x}) = {show(o)}; expected an integer 1..7', case)
            vals.append(None)
        else:
            vals.append(int(o[1]))
    if window[-1] == n + 7:
        ctx.count('weekday_period_pairs')
    if None not in vals:
        if window[-1] == n + 7 and vals[-1] != vals[0]:
            bad += 1
            ctx.violation('WEEKDAY/not-period-7', f'WEEKDAY({n}) = {vals[0]} but WEEKDAY({n + 7}) = {vals[-1]}', case)
        if ev.mode == 'lib' and len(vals) >= 7 and len(set(vals[:7])) != 7:
            bad += 1
            ctx.violation('WEEKDAY/seven-consecutive-days-not-distinct',
                          f'WEEKDAY({n}..{n + 6}) = {vals[:7]}: a shorter period than 7', case)
    return bad, seen


def count_day(ctx, n):
    ctx.count('days')
    if 0 <= n <= MAX:
        ctx.count('days:in-range')
    if n in (0, 60, MAX, MAX + 1, -1, 61, 59):
        ctx.count(f'serial:{n}')
    if 1 <= n <= 59:
        ctx.count('serial:1..59')


def fast_block(ctx, lo, hi):
    """serials lo..hi-1 (all within 0..MAX) through the library wrappers; anything that is not exactly
    as expected is handed to check_day, which classifies it.  Returns the number of days."""
    Y, M, D, DT, W = (lib.fn(x) for x in ('year', 'month', 'day', 'date', 'weekday'))
    top = min(hi + 7, MAX + 1)
    ws = []
    suspicious = set()
    for x in range(lo, top):
        try:
            w = W(x)
        except Exception:  # noqa
            w = None
        if type(w) is not int or not 1 <= w <= 7:
            w = None
        ws.append(w)
    for i in range(hi - lo):
        n = lo + i
        ok = ws[i] is not None
        if ok and i + 7 < len(ws):
            ok = ws[i + 7] == ws[i]
        if ok and i % 7 == 0 and i + 7 <= len(ws):
            ok = len(set(ws[i:i + 7])) == 7       # + periodicity => every window of 7 is distinct
        if ok:
            try:
                y, m, d = Y(n), M(n), D(n)
                r = DT(y, m, d)
                ok = ((y, m, d) == cal.parts(n) and type(y) is int and type(m) is int and type(d) is int and
                      r == n and type(r) in (int, float))
            except Exception:  # noqa
                ok = False
        if not ok:
            suspicious.add(n)
    good = (hi - lo) - len(suspicious)
    ctx.count('roundtrip_ok_or_judged', good)
    ctx.count('weekday_period_pairs', sum(1 for i in range(hi - lo) if lo + i + 7 <= MAX and lo + i not in suspicious))
    for n in sorted(suspicious):
        check_day(ctx, LIB, n)
        ctx.count('days:handed-to-slow-path')
    ctx.count('days', hi - lo)
    ctx.count('days:in-range', hi - lo)
    ctx.count('days:fast-path', hi - lo)
    for n in (0, 59, 60, 61, MAX):
        if lo <= n < hi:
            ctx.count(f'serial:{n}')
    if lo < 60:
        ctx.count('serial:1..59', min(hi, 60) - max(lo, 1))
    ctx.case(None, n=hi - lo)


def boundary_days():
    out = [0, 1, 2, 30, 31, 32, 33, 58, 59, 60, 61, 62, 63, 365, 366, 367, 368, 425, 426, 427, 730, 731, 732,
           MAX - 1, MAX]
    for y in range(1900, 10000):
        jan1 = cal.month_first(y, 1)
        mar1 = cal.month_first(y, 3)
        out += [jan1, mar1 - 2, mar1 - 1, mar1, cal.month_first(y, 12) + 30]
    seen, res = set(), []
    for n in out:
        if n not in seen and 0 <= n <= MAX:
            seen.add(n)
            res.append(n)
    return res


def sweep_days(ctx, tie):
    if ctx.quick:
        boundary = boundary_days()
        bset = set(boundary)
        for i, n in enumerate(boundary):
            if ctx.mine(i):
                count_day(ctx, n)
                ctx.count('days:boundary')
                res = check_day(ctx, LIB, n)
                ctx.case(None)
                tie(check_day, (n,), res[1])
        step = 13 + 2 * (h64(('c17-step', ctx.seed)) % 24)
        off = h64(('c17-off', ctx.seed)) % step
        ctx.count(f'days:stride={step}', 0)
        for i, n in enumerate(range(off, MAX + 1, step)):
            if ctx.mine(i) and n not in bset:
                count_day(ctx, n)
                ctx.count('days:strided')
                res = check_day(ctx, LIB, n)
                ctx.case(None)
                tie(check_day, (n,), res[1])
    else:
        nblocks = (MAX + 1 + BLOCK - 1) // BLOCK
        for b in range(nblocks):
            if ctx.mine(b):
                lo, hi = b * BLOCK, min((b + 1) * BLOCK, MAX + 1)
                fast_block(ctx, lo, hi)
                for n in range(lo, hi):
                    if n % TIE_EVERY == tie.phase:
                        tie.force(check_day, (n,))
    if ctx.shard == 0:
        for n in (-1, -2, MAX + 1, MAX + 2, MAX + 8, 3000000):
            count_day(ctx, n)
            res = check_day(ctx, LIB, n)
            ctx.case(None)
            tie.force(check_day, (n,), res[1])


class _Sink:
    """what a check function writes to when it is re-run for the tie: quiet (library-level re-run of a
    case the fast path already judged) or with prefixed counters (workbook-level run)"""

    def __init__(self, ctx, prefix='', quiet=False):
        self.ctx, self.prefix, self.quiet = ctx, prefix, quiet

    def violation(self, key, msg, case):
        if not self.quiet:
            self.ctx.violation(key, msg, case)

    def count(self, name, n=1):
        if not self.quiet:
            self.ctx.count(self.prefix + name, n)


# --------------------------------------------------------------------------- DATE normalisation

def check_date(ctx, ev, y, m, d):
    case = {'part': 'date', 'mode': ev.mode, 'y': y, 'm': m, 'd': d}
    o, = outs = ev.calls([('DATE', (y, m, d))])
    want, first_ok = cal.date_serial(y, m, d)
    yy, mm = cal.carry_month(y, m)
    s = cal.month_first(yy, mm) + d - 1            # the carried serial without the range check
    ctx.count('date_triples')
    if d <= 0:
        ctx.count('date:day<=0')
    elif d > cal.month_len(yy, mm):
        ctx.count('date:day>length')
    if not 1 <= m <= 12:
        ctx.count('date:month-carried')
    if want == NUM:
        ctx.count('date:want-#NUM!')
    result_class = 'result-past-9999' if s > MAX else 'result-before-1900' if s < 0 else 'result-in-range'
    if o[0] == 'x':
        if result_class == 'result-in-range' and not first_ok:
            result_class = 'carried-month-outside-1900..9999'
        ctx.violation(f'DATE/{result_class}-raises',
                      f'DATE({y},{m},{d}) {show(o)}; expected {want!r}, never an exception', case)
        return 1, observed(outs)
    accept = [want]
    if not first_ok and want != NUM:
        accept.append(NUM)
        ctx.count('permissive:date-carried-month-outside-range=' + ('#NUM!' if o[1] == NUM else 'serial'))
    elif not 1900 <= y <= 9999 and want != NUM:
        accept.append(NUM)                         # an invalid year argument carried back into range
        ctx.count('permissive:date-year-argument-outside-range=' + ('#NUM!' if o[1] == NUM else 'serial'))
    if any((a == NUM and o[1] == NUM) or (a != NUM and is_number(o[1]) and o[1] == a) for a in accept):
        return 0, observed(outs)
    if d <= 0:
        key = 'DATE/day<=0'
    elif want == NUM:
        key = f'DATE/{result_class}-returns-a-value'
    elif d > cal.month_len(yy, mm):
        key = 'DATE/day-beyond-month-end'
    elif not 1 <= m <= 12:
        key = 'DATE/month-carry'
    else:
        key = 'DATE/unclassified'
    py, pm, pd = (cal.parts(want) if want != NUM else ('-', '-', '-'))
    ctx.violation(key, f'DATE({y},{m},{d}) = {show(o)}; carrying gives day 1 of {yy}-{mm:02d} + {d - 1} days = '
                  f'{want!r} ({py}-{pm}-{pd})', case)
    return 1, observed(outs)


def sweep_date(ctx, tie):
    years = list(DATE_YEARS)
    rng_years = random.Random(h64(('c17-years', ctx.seed)))
    extra = 3 if ctx.quick else 40
    if not ctx.quick:
        years += [y for y in range(1902, 1912) if y not in years] + [2001, 2400, 4000, 8000]
    while extra:
        y = rng_years.randint(1900, 9999)
        if y not in years:
            years.append(y)
            extra -= 1
    i = 0
    for y in years:
        for m in range(-40, 61):
            i += 1
            if not ctx.mine(i):
                continue
            for d in range(-40, 61):
                res = check_date(ctx, LIB, y, m, d)
                tie(check_date, (y, m, d), res[1])
            ctx.case(None, n=101)
    if ctx.shard == 0:
        # year arguments outside 0..9999 (years 0..1899 mean 1900 + y in Excel; the statement does not
        # say so and they are not judged)
        for y in (-1, -1900, 10000, 10001, 12000):
            for m in (-40, -1, 0, 1, 2, 12, 13, 60):
                for d in (-40, -1, 0, 1, 28, 31, 32, 60):
                    res = check_date(ctx, LIB, y, m, d)
                    ctx.count('date:year-argument-outside-0..9999')
                    ctx.case(None)
                    tie(check_date, (y, m, d), res[1])


# --------------------------------------------------------------------------- EOMONTH / EDATE

def check_shift(ctx, ev, f, n, k):
    case = {'part': 'shift', 'mode': ev.mode, 'f': f, 'n': n, 'k': k}
    o, = outs = ev.calls([(f, (n, k))])
    ctx.count('shift_calls')
    ctx.count('shift:' + f)
    if not (0 <= n <= MAX):
        where = 'start-past-9999' if n > MAX else 'negative-start'
        ctx.count('shift:start-out-of-range')
        if o[0] == 'x':
            ctx.violation(f'{f}/{where}-raises', f'{f}({n},{k}) {show(o)}; expected #NUM!, never an exception', case)
            return 1, observed(outs)
        if o[1] != NUM:
            ctx.violation(f'{f}/{where}-returns-a-value', f'{f}({n},{k}) = {show(o)}; expected #NUM!', case)
            return 1, observed(outs)
        return 0, observed(outs)
    y0, m0, d0 = cal.parts(n)
    y2, m2 = cal.shifted_month(n, k)
    where = ('result-past-9999' if (y2, m2) > (9999, 12) else
             'result-before-1900' if (y2, m2) < (1900, 1) else 'result-in-range')
    if f == 'EOMONTH':
        want = cal.eomonth(n, k)
        accept, free = [want], False
        if (y2, m2) == (1899, 12):
            accept.append(0)
    else:
        strict, alts = cal.edate(n, k)
        free = (n == 0 and k != 0)
        if strict is None:
            accept, want = list(alts), f'{alts[0]} (last day of {y2}-{m2:02d}) or {alts[1]} (carried)'
            ctx.count('shift:edate-day-missing-in-target-month')
        else:
            accept, want = [strict], strict
            if (y2, m2) == (1899, 12) and cal.month_first(y2, m2) + d0 - 1 == 0:
                accept.append(0)
    if NUM in accept:
        ctx.count('shift:want-#NUM!')
    if o[0] == 'x':
        if f == 'EOMONTH' and (y2, m2) == (9999, 12):
            where = 'last-day-of-december-9999'
        ctx.violation(f'{f}/{where}-raises', f'{f}({n},{k}) {show(o)}; start is {y0}-{m0}-{d0}, target month '
                      f'{y2}-{m2:02d}: expected {want!r}, never an exception', case)
        return 1, observed(outs)
    v = o[1]
    if free:
        ctx.count('permissive:edate-from-day-0')
        if v == NUM or (is_number(v) and 0 <= v <= MAX):
            return 0, observed(outs)
        ctx.violation('EDATE/from-day-0-out-of-range-value', f'EDATE({n},{k}) = {show(o)}', case)
        return 1, observed(outs)
    hit = next((a for a in accept if (a == NUM and v == NUM) or (a != NUM and is_number(v) and v == a)), None)
    if hit is not None:
        if len(accept) > 1:
            which = accept.index(hit)
            if f == 'EDATE' and strict is None:
                ctx.count('permissive:edate-missing-day=' + ('clamped' if which == 0 else 'carried'))
            else:
                ctx.count('permissive:last-day-of-december-1899=' + ('#NUM!' if hit == NUM else '0'))
        return 0, observed(outs)
    key = f'{f}/wrong-value'
    if NUM in accept and where != 'result-in-range':
        key = f'{f}/{where}-returns-a-value'
    elif n in (0, 60):
        key = f'{f}/wrong-value-from-{n_class(n)}'
    elif f == 'EDATE' and strict is None:
        key = 'EDATE/missing-day-neither-clamped-nor-carried'
    ctx.violation(key, f'{f}({n},{k}) = {show(o)}; start is {y0}-{m0}-{d0}, target month {y2}-{m2:02d}: '
                  f'expected {want!r}', case)
    return 1, observed(outs)


def sweep_shift(ctx, tie):
    starts = list(SHIFT_STARTS)
    rng = random.Random(h64(('c17-starts', ctx.seed)))
    extra = 12 if ctx.quick else 200
    while extra:
        n = rng.choice([rng.randint(0, MAX), rng.randint(0, 80000), rng.randint(MAX - 40000, MAX)])
        if n not in starts:
            starts.append(n)
            extra -= 1
    i = 0
    for n in starts:
        for f in ('EOMONTH', 'EDATE'):
            for k0 in range(-1200, 1201, 100):
                i += 1
                if not ctx.mine(i):
                    continue
                ks = range(k0, min(k0 + 100, 1201))
                for k in ks:
                    res = check_shift(ctx, LIB, f, n, k)
                    tie(check_shift, (f, n, k), res[1])
                ctx.case(None, n=len(ks))


# --------------------------------------------------------------------------- YEARFRAC

def check_yearfrac(ctx, ev, a, b, basis):
    case = {'part': 'yearfrac', 'mode': ev.mode, 'a': a, 'b': b, 'basis': basis}
    o1, o2 = outs = ev.calls([('YEARFRAC', (a, b, basis)), ('YEARFRAC', (b, a, basis))])
    tag = 'omitted' if basis is None else str(basis)
    args = f'{a},{b}' + ('' if basis is None else f',{basis}')
    sgra = f'{b},{a}' + ('' if basis is None else f',{basis}')
    ctx.count('yearfrac_pairs')
    ctx.count('yearfrac:basis=' + tag)
    oor = not (0 <= a <= MAX and 0 <= b <= MAX)
    bad = 0
    for o, s in ((o1, args), (o2, sgra)):
        if o[0] == 'x':
            bad += 1
            ctx.violation(f'YEARFRAC/raises/basis-{tag}' + ('/date-out-of-range' if oor else ''),
                          f'YEARFRAC({s}) {show(o)}', case)
    if bad:
        return bad, observed(outs)
    v1, v2 = o1[1], o2[1]
    if oor:
        ctx.count('yearfrac:date-out-of-range')
        ctx.count('permissive:yearfrac-out-of-range=' + ('#NUM!' if v1 == NUM else 'other'))
    if is_number(v1) and is_number(v2):
        same = v1 == v2 or abs(v1 - v2) <= 1e-12 * max(abs(v1), abs(v2))
    else:
        same = isinstance(v1, str) and v1 == v2
        ctx.count('yearfrac:error-result')
    if not same:
        quirk = any(0 <= x <= 60 for x in (a, b))
        ctx.violation(f'YEARFRAC/asymmetric/basis-{tag}' + ('/involves-serial<=60' if quirk else ''),
                      f'YEARFRAC({args}) = {show(o1)} but YEARFRAC({sgra}) = {show(o2)}', case)
        return 1, observed(outs)
    return 0, observed(outs)


def sweep_yearfrac(ctx, tie):
    bases = [0, 1, 2, 3, 4, None]
    i = 0
    for a in YF_BOUNDARY:
        for b in YF_BOUNDARY:
            if a >= b:
                continue
            i += 1
            if ctx.mine(i):
                for basis in bases:
                    res = check_yearfrac(ctx, LIB, a, b, basis)
                    tie(check_yearfrac, (a, b, basis), res[1])
                ctx.case(None, n=len(bases))
    if ctx.shard == 0:
        for a, b in ((-1, 5), (5, MAX + 1), (-1, MAX + 1), (MAX, MAX + 1), (0, -1)):
            for basis in bases:
                check_yearfrac(ctx, LIB, a, b, basis)
                ctx.case(None)
        for n in (0, 60, MAX):
            for basis in bases:
                check_yearfrac(ctx, LIB, n, n, basis)
                ctx.case(None, nontrivial=False)
    total = 3000 if ctx.quick else 60000
    mine = total // ctx.nshards + 1
    rng = ctx.rng
    for j in range(mine):
        if j % 64 == 0 and ctx.out_of_time():
            ctx.note('yearfrac sampled pairs cut short by the budget')
            break
        r = rng.random()
        a = rng.choice([rng.randint(0, MAX), rng.randint(0, 1500), rng.randint(36000, 47000)])
        if r < 0.6:
            b = a + rng.randint(1, 800)
        elif r < 0.9:
            b = a + rng.randint(1, 40000)
        else:
            b = rng.randint(0, MAX)
        if b > MAX or a == b:
            b = max(0, a - rng.randint(1, 800))
        if a == b:
            continue
        a, b = min(a, b), max(a, b)
        if j % 6 == 0 and a > 61:
            # dates with a time of day, also two moments of one day
            fa, fb = rng.choice([0.25, 0.5, 0.75, 0.999]), rng.choice([0.0, 0.125, 0.5, 0.75])
            a, b = (a + fa, a + fb) if j % 12 == 0 and fa != fb else (a + fa, b + fb)
            ctx.count('yearfrac:with-time-of-day')
        for basis in bases:
            res = check_yearfrac(ctx, LIB, a, b, basis)
            ctx.case(('yf', a, b, basis))
            tie(check_yearfrac, (a, b, basis), res[1])


# --------------------------------------------------------------------------- HOUR / MINUTE / SECOND

def check_hms(ctx, ev, base, k, delta):
    case = {'part': 'hms', 'mode': ev.mode, 'base': base, 'k': k, 'delta': delta}
    x = base + (k + delta) / 86400
    outs = ev.calls([('HOUR', (x,)), ('MINUTE', (x,)), ('SECOND', (x,))])
    ctx.count('hms_cases')
    ctx.count(f'hms:delta={delta:g},base={"0" if base == 0 else "day"}')
    bad = 0
    for f, o in zip(('HOUR', 'MINUTE', 'SECOND'), outs):
        if o[0] == 'x':
            bad += 1
            ctx.violation('HMS/raises' + ('/negative' if x < 0 else '/serial-past-9999' if x > MAX + 1 else ''),
                          f'{f}({x!r}) {show(o)}', case)
    if bad:
        return bad, observed(outs)
    got = tuple(o[1] for o in outs)
    if x < 0:
        ctx.count('hms:negative')
        if got != (NUM, NUM, NUM):
            ctx.violation('HMS/negative-serial-returns-a-value',
                          f'HOUR/MINUTE/SECOND({x!r}) = {got!r}; expected #NUM!', case)
            return 1, observed(outs)
        return 0, observed(outs)
    want = cal.hms(k)
    if base > MAX and got == (NUM, NUM, NUM):
        ctx.count('permissive:hms-past-9999=#NUM!')
        return 0, observed(outs)
    if all(is_number(g) for g in got) and got == want:
        return 0, observed(outs)
    if all(is_number(g) for g in got) and (got[2] == 60 or got[1] == 60 or got[0] == 24):
        key = 'HMS/rounds-up-to-60-without-carry'
    elif all(is_number(g) for g in got) and delta == 0 and base == 0:
        key = 'HMS/whole-second-wrong'
    else:
        key = 'HMS/wrong-decomposition'
    ctx.violation(key, f'HOUR/MINUTE/SECOND({x!r}) = {got!r}; {x!r} is day {base} + {k + delta} s, nearest second '
                  f'{want[0]}:{want[1]:02d}:{want[2]:02d}', case)
    return 1, observed(outs)


def sweep_hms(ctx, tie):
    rng = random.Random(h64(('c17-hms', ctx.seed)))
    day = rng.randint(2, 60000)
    combos = [(0, dl) for dl in DELTAS] + [(day, dl) for dl in DELTAS] + \
             [(b, 0.0) for b in (1, 60, 61, 45000, MAX)] + [(MAX, -0.25)]
    if ctx.quick:
        step = 37 + 2 * (h64(('c17-kstep', ctx.seed)) % 12)
        off = h64(('c17-koff', ctx.seed)) % step
        ks = sorted(set(range(off, 86400, step)) | set(HMS_BOUNDARY))
    else:
        ks = range(86400)
    for i, k in enumerate(ks):
        if not ctx.mine(i):
            continue
        for base, delta in combos:
            if base == 0 and k == 0 and delta < 0:
                continue                            # a negative serial: see the fixed list below
            res = check_hms(ctx, LIB, base, k, delta)
            ctx.case(None)
            tie(check_hms, (base, k, delta), res[1])
    if ctx.shard == 0:
        for base, k, delta in ((0, 0, -0.25), (0, 0, -8640.0), (-1, 0, 0.0), (-1, 43200, 0.0),
                               (MAX + 1, 43200, 0.0), (MAX + 1, 0, 0.0), (1000000, 3661, 0.0)):
            res = check_hms(ctx, LIB, base, k, delta)
            ctx.case(None)
            tie.force(check_hms, (base, k, delta), res[1])


def text_times(ctx):
    """a time of day typed as text (24 hour clock, and 12 hour clock with AM / PM): HOUR / MINUTE / SECOND give the
    parts that are written there (12 AM is hour 0, 12 PM is hour 12)"""
    n = 0
    for h in range(24):
        for m, s_ in ((0, 0), (30, 15), (59, 59), (5, 9)):
            n += 1
            if not ctx.mine(n):
                continue
            h12 = h % 12 or 12
            for text in (f'{h}:{m:02d}:{s_:02d}', f'{h:02d}:{m:02d}:{s_:02d}',
                         f'{h12}:{m:02d}:{s_:02d} {"AM" if h < 12 else "PM"}',
                         f'{h12}:{m:02d}:{s_:02d} {"am" if h < 12 else "pm"}'):
                ctx.count('text_time_cases')
                ctx.case(('text-time', text))
                for name, want in (('hour', h), ('minute', m), ('second', s_)):
                    got = lib.call(name, text)
                    if got != ('v', want):
                        ctx.violation(f'{name.upper()}/time-typed-as-text',
                                      f'{name.upper()}({text!r}) = {got!r}, expected {want}',
                                      {'part': 'text-time', 'text': text})
                        break


# --------------------------------------------------------------------------- the 1 % tie to evaluate

class _Recorded(Exception):
    pass


class _RecordEval:
    """dry run of a check function: keeps the calls it wants to make (every check function makes all
    its calls in one ev.calls() before it looks at anything)"""
    mode = 'wb'
    exprs = None

    def calls(self, exprs):
        self.exprs = list(exprs)
        raise _Recorded


class _ReplayEval:
    mode = 'wb'

    def __init__(self, outs):
        self.outs = outs

    def calls(self, exprs):
        assert len(exprs) == len(self.outs)
        return self.outs


class Tie:
    """every 101st library-level case is judged a second time through ExcelCompiler (same oracle, same
    mechanism keys, counters prefixed wb:) and its observation compared with the library-level one.
    Cases whose library-level call returned values are evaluated TIE_BATCH at a time as independent rows
    of one workbook; a case with an exception on either side gets a workbook of its own
    (vp.lib.eval_formula for a single formula), so a failed evaluation cannot touch another case."""

    def __init__(self, ctx):
        self.ctx = ctx
        self.phase = h64(('c17-tie', ctx.seed)) % TIE_EVERY
        self.i = 0
        self.queue = []

    def __call__(self, check, args, seen_lib=None):
        """call right after the library-level ``check(ctx, LIB, *args)``"""
        self.i += 1
        if self.i % TIE_EVERY != self.phase:
            return
        if self.ctx.out_of_time():
            self.ctx.count('tie_skipped_out_of_time')
            return
        self.force(check, args, seen_lib)

    def force(self, check, args, seen_lib=None):
        if seen_lib is None:
            seen_lib = check(_Sink(self.ctx, quiet=True), LIB, *args)[1]
        if ('x',) in seen_lib:
            self.judge(check, args, seen_lib, WB)
            self.ctx.count('tie:own-workbook')
            return
        self.queue.append((check, args, seen_lib))
        if len(self.queue) >= TIE_BATCH:
            self.flush()

    def flush(self):
        queue, self.queue = self.queue, []
        if not queue:
            return
        exprs, spans = [], []
        for check, args, _ in queue:
            rec = _RecordEval()
            try:
                check(_Sink(self.ctx, quiet=True), rec, *args)
            except _Recorded:
                pass
            spans.append((len(exprs), len(rec.exprs)))
            exprs += rec.exprs
        outs = WB.calls(exprs)
        self.ctx.count('tie:workbooks')
        for (check, args, seen_lib), (a, n) in zip(queue, spans):
            mine = outs[a:a + n]
            if any(o[0] == 'x' for o in mine):
                self.judge(check, args, seen_lib, WB)          # again, alone
                self.ctx.count('tie:own-workbook')
            else:
                self.judge(check, args, seen_lib, _ReplayEval(mine))

    def judge(self, check, args, seen_lib, ev):
        seen_wb = check(_Sink(self.ctx, prefix='wb:'), ev, *args)[1]
        self.ctx.case(None, nontrivial=False)
        self.ctx.count('tie_cases')
        self.ctx.count('tie:' + check.__name__)
        if seen_wb == seen_lib:
            self.ctx.count('tie:evaluate-same-as-library-call')
        else:
            self.ctx.count('tie:evaluate-differs-from-library-call')
            self.ctx.note(f'{check.__name__}{args!r}: evaluate {seen_wb!r} vs library call {seen_lib!r}')


def far_months(ctx):
    """month arguments and month counts far outside of a calendar year: DATE carries them (the calendar has 97 199
    months), beyond it the answer is #NUM!, never an exception"""
    k = 0
    cases = []
    for y, m, d in ((1901, 32768, 15), (1900, 97199, 1), (1900, 97200, 31), (9999, -97187, 1), (9999, -97200, 1), (5000, 40000, 28),
                    (5000, -40000, 28), (1950, 65536, 1), (1900, 10 ** 9, 1), (1900, 1e22, 1), (1900, -1e22, 1), (1900, 2 ** 63, 1),
                    (2000, 1, 1e22), (2000, 1, -1e22), (1e22, 1, 1)):
        cases.append(('date', (y, m, d), cal.date_serial(int(y), int(m), int(d))[0] if abs(m) < 1e7 and abs(d) < 1e7 and abs(y) < 1e7 else NUM))
    start = cal.date_serial(1901, 1, 15)[0]
    for n, mk in ((start, 40000), (start, 32768), (start, 97000), (start, 98000), (cal.date_serial(9999, 1, 31)[0], -40000),
                  (start, 1e22), (start, -1e22), (100, 2 ** 63)):
        for f in ('edate', 'eomonth'):
            if abs(mk) < 1e7:
                want = cal.eomonth(n, int(mk)) if f == 'eomonth' else cal.edate(n, int(mk))[0]
            else:
                want = NUM
            cases.append((f, (n, mk), want))
    for f, args, want in cases:
        k += 1
        if not ctx.mine(k):
            continue
        o = lib.call(f, *args)
        ctx.count('far-months')
        ctx.case(('far-months', f, args))
        case = {'part': 'far-months'}
        if o[0] == 'x':
            ctx.violation(f'{f.upper()}/far-month-raises', f'{f.upper()}{args} {show(o)}; expected {want!r}, never an exception', case)
        elif want is not None and o[1] != want:
            ctx.violation(f'{f.upper()}/far-month-wrong-value', f'{f.upper()}{args} = {show(o)}; expected {want!r}', case)


def fractional_arguments(ctx):
    """year, month, day and the number of months given as numbers that are not whole: never an exception; the months of
    EDATE / EOMONTH are truncated (documented), the start day counts with its whole part; for DATE the whole part of
    each argument counts - towards zero or downwards, which the statement does not fix for negative values"""
    import math
    fr = (0.5, 0.25, 0.9, 0.999999)
    k = 0
    for y, m, d in ((2000, 2, 1), (1900, 1, 1), (2020, 12, 31), (1999, -3, 15), (2024, 14, -2), (9999, 12, 31), (1900, 3, 0)):
        for dy, dm, dd in ((0, .5, 0), (.7, 0, 0), (0, 0, .9), (.5, .5, .5), (0, -.5, 0), (0, 0, -.25), (.25, .999999, .5)):
            k += 1
            if not ctx.mine(k):
                continue
            args = (y + dy, m + dm, d + dd)
            o = lib.call('date', *args)
            ctx.count('fractional:date')
            ctx.case(('fractional-date', args))
            case = {'part': 'fractional'}
            if o[0] == 'x':
                ctx.violation('DATE/fractional-argument-raises', f'DATE{args} {show(o)}; never an exception', case)
                continue
            wants = set()
            for f in (math.floor, math.trunc):
                w = lib.call('date', f(args[0]), f(args[1]), f(args[2]))
                wants.add(w[1] if w[0] == 'v' else 'x')
            if o[1] not in wants:
                ctx.violation('DATE/fractional-argument-not-its-whole-part',
                              f'DATE{args} = {show(o)}; with the whole parts of the arguments it is one of {sorted(map(str, wants))}', case)
    for f in ('edate', 'eomonth'):
        for n in (100, 59, 61, 36525, 45000, 2958465, 31, 60, 0, 1, 366):
            for mk in (1.5, -1.5, 0.9, -0.9, 12.25, -13.75, 2.999999, 0, 12, 1):
                for dn in (0, 0.5, 0.25, 0.999):
                    k += 1
                    if not ctx.mine(k):
                        continue
                    o = lib.call(f, n + dn, mk)
                    ctx.count('fractional:shift')
                    ctx.case(('fractional-shift', f, n + dn, mk))
                    case = {'part': 'fractional'}
                    if o[0] == 'x':
                        ctx.violation(f'{f.upper()}/fractional-argument-raises',
                                      f'{f.upper()}({n + dn}, {mk}) {show(o)}; never an exception', case)
                        continue
                    w = lib.call(f, n, math.trunc(mk))
                    if w[0] == 'v' and o[1] != w[1]:
                        ctx.violation(f'{f.upper()}/fractional-months-not-truncated',
                                      f'{f.upper()}({n + dn}, {mk}) = {show(o)}; {f.upper()}({n}, {math.trunc(mk)}) = {show(w)}',
                                      case)


def run(ctx):
    cal.selfcheck()
    tie = Tie(ctx)
    fractional_arguments(ctx)
    far_months(ctx)
    sweep_date(ctx, tie)
    sweep_shift(ctx, tie)
    sweep_hms(ctx, tie)
    text_times(ctx)
    sweep_yearfrac(ctx, tie)
    sweep_days(ctx, tie)
    tie.flush()
    if ctx.shard:
        return
    ctx.sample({'part': 'day', 'n': 60, 'YEAR/MONTH/DAY': [lib.call(f, 60) for f in ('year', 'month', 'day')],
                'DATE(1900,2,29)': lib.call('date', 1900, 2, 29)})
    ctx.sample({'part': 'date', 'args': [2020, 3, 0], 'DATE': lib.call('date', 2020, 3, 0),
                'model': cal.date_serial(2020, 3, 0)[0]})
    ctx.sample({'part': 'shift', 'EOMONTH(43861,1)': lib.call('eomonth', 43861, 1), 'model': cal.eomonth(43861, 1)})
    ctx.sample({'part': 'hms', 'x': 3661 / 86400, 'HOUR/MINUTE/SECOND': [lib.call(f, 3661 / 86400)
                                                                        for f in ('hour', 'minute', 'second')]})


def replay(ctx, case):
    cal.selfcheck()
    ev = EVALS[case.get('mode', 'lib')]
    part = case['part']
    if part == 'text-time':
        text_times(ctx)
        return
    if part == 'fractional':
        ctx.nshards, ctx.shard = 1, 0
        fractional_arguments(ctx)
        return
    if part == 'day':
        check_day(ctx, ev, case['n'])
    elif part == 'date':
        check_date(ctx, ev, case['y'], case['m'], case['d'])
    elif part == 'shift':
        check_shift(ctx, ev, case['f'], case['n'], case['k'])
    elif part == 'yearfrac':
        check_yearfrac(ctx, ev, case['a'], case['b'], case['basis'])
    elif part == 'hms':
        check_hms(ctx, ev, case['base'], case['k'], case['delta'])
    else:
        raise ValueError(f'unknown case part {part!r}')
    ctx.case(None)
