"""C18 - radix conversions (DEC2BIN/OCT/HEX, BIN/OCT/HEX2DEC, base-to-base) are exact inverses on
Excel's 10-digit two's-complement range.

The library functions are called exactly as a formula calls them (vp.lib.fn) and every result is
judged by the reference model vp.refmodel.radix (two's-complement arithmetic on ints, written from the
statement).  A ~1 % sample of the cases is re-run through one-cell workbooks (ExcelCompiler.evaluate),
once with the arguments as literals and once as cell references.

Clauses and how they are decided
  round trip        X2DEC(DEC2X(n)) == n, also for every DEC2X(n, places) that gives a text
  rendering         n < 0: exactly the 10 digits of n + base**10; n >= 0: the digits of n
  places 1..10      n >= 0: exactly `places` digits, zero padded, or #NUM!/#VALUE! when they do not fit
  base-to-base      X2Y(s[, p]) == DEC2Y(X2DEC(s)[, p]) (pycel against pycel: same text, or both errors)
                    and == the reference model
  rejection         number outside the range, text longer than 10 characters or with a character
                    outside the alphabet, logical: #NUM! or #VALUE! - never a value, never an exception

Deliberately permissive (the statement is silent or has two readings; all are counted, none alarms):
  * negative n with places < 10: #NUM!/#VALUE! or the 10-digit text (places == 10: the text);
  * DEC2X(n >= 0) without places: leading zeros (up to 10 digits) are tolerated, hex digits in either case;
  * hex letters in lower case on input: the right value or an error;
  * blank / empty text: the value of 0 or an error, independently per function (so the composition law
    is not applied to blanks: pycel pins BIN2OCT(blank) = #NUM! while BIN2DEC(blank) = 0);
  * numbers (int/float) handed to BIN2../OCT2../HEX2..: if the decimal digits of a non-negative integer
    value form a legal digit string the right value or an error, otherwise an error is required;
  * numeric text handed to DEC2..: the right text or an error; non-integers (float or text): the
    rendering of trunc(x) or floor(x) or an error (an error is required if neither is in the range);
  * logicals handed to DEC2..: the rendering of 0/1 or an error; error values: any error value;
  * places outside 1..10 (0, 11, text, logical, ...) are outside the quantifier: observed and counted
    (`unjudged:...`, exceptions also as notes), never a verdict.
Int-valued floats (5.0, places 3.0) are the same Excel numbers as the ints and are judged like them.
"""
from vp import wb
from vp.core import h64
from vp.lib import call, eval_formula, excel_literal
from vp.refmodel import radix as R

PROP = 'C18'
LEVEL = 'exploration'
RULE = ('numbers: every integer of -512..511 (exhaustive, both tiers), boundary sets (range ends +-3, 0, '
        'powers of the base +-1, out-of-range neighbours and far values) and seeded samples (uniform, '
        'log-uniform, near-boundary, out-of-range) of the octal and hex ranges; each as int, float and text, '
        'without places and with every places 1..10, then its canonical text through the two base-to-base '
        'functions of its base (x places) against the composition through decimal and the model. '
        'texts: every binary string of length 0..11 (exhaustive), every octal/hex string up to a small '
        'length (exhaustive), boundary strings and seeded samples of length 1..11 (hex in mixed case); '
        'illegal texts = a digit string (length 0..10) plus one character from {digit outside the base, '
        'blank/tab/newline/nbsp, _, +, -, ., comma, full-width and arabic-indic digit} at every position, '
        'or a 0b/0o/0x prefix (exhaustive over short binary strings, listed + sampled for the rest); '
        'typed inputs: ints/floats/logicals/blank/error values/decimal texts. A case is one number or one '
        'text of one base with all its calls; distinct by (kind, base, value); non-trivial = everything but '
        'blank/empty inputs.')
BUDGET = {'quick': 25, 'thorough': 240}
EXHAUSTIVE = {'quick': False, 'thorough': False}
ASSUMPTIONS = [
    'the functions are reached as library calls wrapped like a formula wraps them; a ~1 % sample is tied '
    'to ExcelCompiler.evaluate (literal and cell-reference arguments)',
    'the binary range -512..511 and all binary texts of length <= 11 are exhaustive in both tiers; the '
    'octal and hex ranges are boundary sets plus seeded samples',
    'places outside 1..10 and non-scalar (range) arguments are outside the statement and not judged',
]

# sampled work per tier (totals over all shards)
SIZES = {
    'quick': {'numbers': 24000, 'texts': 12000, 'illegal': 16000, 'floats': 3000,
              'bin_illegal_len': 4, 'small': {8: 3, 16: 2}},
    'thorough': {'numbers': 800000, 'texts': 300000, 'illegal': 300000, 'floats': 50000,
                 'bin_illegal_len': 7, 'small': {8: 5, 16: 4}},
}
# exh:* and illegal:too-long (2048 binary texts of length 11) come from the exhaustive parts; the
# others are set about 5x below what the sampled parts reach when they are not cut by the budget
FLOORS = {
    'quick': {
        'exh:bin-range-numbers': 1024, 'exh:bin-texts': 4095, 'exh:small-texts': 584 + 272,
        'lookalike_history_calls': 96,
        'round_trips': 28000, 'round_trips:negative': 10000, 'negative_renderings': 2100,
        'places_calls': 85000, 'places:too-small->error': 48000, 'places:padded': 25000,
        'compositions': 250000, 'numbers:oct:in-range': 2000, 'numbers:hex:in-range': 2000,
        'numbers:oct:out-of-range': 400, 'numbers:hex:out-of-range': 400,
        'legal_texts': 6000, 'legal_texts:negative': 700,
        'illegal_texts_len<=10': 3500, 'illegal:whitespace': 1100, 'illegal:underscore': 240,
        'illegal:plus-sign': 240, 'illegal:minus-sign': 240, 'illegal:decimal-point': 240,
        'illegal:radix-prefix': 600, 'illegal:digit-outside-base': 600, 'illegal:too-long': 2048,
        'illegal:non-ascii-digit': 480, 'typed_cases': 375, 'ties': 450,
    },
    'thorough': {
        'exh:bin-range-numbers': 1024, 'exh:bin-texts': 4095, 'exh:small-texts': 37448 + 69904,
        'round_trips': 800000, 'round_trips:negative': 300000, 'negative_renderings': 60000,
        'places_calls': 2500000, 'places:too-small->error': 1200000, 'places:padded': 450000,
        'compositions': 6000000, 'numbers:oct:in-range': 60000, 'numbers:hex:in-range': 60000,
        'numbers:oct:out-of-range': 12000, 'numbers:hex:out-of-range': 12000,
        'legal_texts': 150000, 'legal_texts:negative': 15000,
        'illegal_texts_len<=10': 50000, 'illegal:whitespace': 18000, 'illegal:underscore': 4000,
        'illegal:plus-sign': 4000, 'illegal:minus-sign': 4000, 'illegal:decimal-point': 4000,
        'illegal:radix-prefix': 7000, 'illegal:digit-outside-base': 10000, 'illegal:too-long': 2048,
        'illegal:non-ascii-digit': 8000, 'typed_cases': 375, 'ties': 10000,
    },
}

LOW = {2: 'bin', 8: 'oct', 16: 'hex'}
OUTSIDE = {2: ['2', '9', 'A', 'b'], 8: ['8', '9', 'A', 'o'], 16: ['G', 'g', 'x', 'Z']}
COMMON = [' ', '\t', '\n', '\xa0', '_', '+', '-', '.', ',', '１', '١']
PREFIXES = ['0b', '0B', '0o', '0O', '0x', '0X']
TIE_PERCENT = 1


def is_num(v):
    return isinstance(v, (int, float)) and not isinstance(v, bool)


def show(name, args):
    return f"{name.upper()}({', '.join(repr(a) for a in args)})"


class Case:
    """one case: routes calls to pycel, collects at most one violation per mechanism key"""

    def __init__(self, ctx, case, tie):
        self.ctx, self.case, self.tie = ctx, case, tie
        self.keys = set()
        self.calls = []

    def call(self, name, *args):
        out = call(name, *args)
        self.ctx.count('calls')
        self.ctx.count('fn:' + name.upper())
        if self.tie:
            self.calls.append((name, args, out))
        return out

    def bad(self, key, msg):
        if key in self.keys:
            return
        self.keys.add(key)
        case = dict(self.case)
        case['tie'] = self.tie
        self.ctx.violation(key, msg, case)

    # ---- the 1 % tie to ExcelCompiler
    def run_tie(self):
        if not self.tie or not self.calls:
            return
        picks = sorted({h64(('pick', k, repr(self.case))) % len(self.calls) for k in range(2)})
        for i in picks:
            name, args, lib = self.calls[i]
            if not all(_formula_safe(a) for a in args):
                self.ctx.count('tie_skipped_unprintable')
                continue
            lits = ['Y1' if a is None else excel_literal(a) for a in args]
            self._tie_one(name, args, lib, f"={name.upper()}({','.join(lits)})", {}, 'literal')
            if all(a != '' for a in args):
                cells = {f'{"ABC"[j]}1': a for j, a in enumerate(args) if a is not None}
                refs = ','.join(f'{"ABC"[j]}1' for j in range(len(args)))
                self._tie_one(name, args, lib, f'={name.upper()}({refs})', cells, 'cells')

    def _tie_one(self, name, args, lib, formula, cells, how):
        got = eval_formula(formula, cells=cells)
        self.ctx.count('ties')
        self.ctx.count('ties:' + how)
        if got[0] == 'x' and lib[0] == 'x':
            return
        if got[0] != lib[0] or not wb.same(got[1], lib[1]):
            self.bad('evaluate/differs-from-library-call',
                     f'{formula} {cells or ""} evaluates to {got!r} but the library call '
                     f'{show(name, args)} gives {lib!r}')


def _formula_safe(a):
    if isinstance(a, str):
        return a.isprintable() and '"' not in a and not a.startswith(('#', '='))
    if isinstance(a, float):
        return a == a and abs(a) != float('inf')
    return True


def want_tie(sig):
    return h64(('tie', sig)) % 100 < TIE_PERCENT


# --------------------------------------------------------------------------- judges

def judge_render(c, family, name, args, out, n, base, places, lenient=False, tag=''):
    """``out`` = outcome of a call that must render the in-range integer ``n`` in ``base``.
    returns the text if one was returned and accepted as a rendering of n, else None"""
    ctx = c.ctx
    sign = 'negative' if n < 0 else 'nonnegative'
    withp = '' if places is None else '/with-places'
    if out[0] == 'x':
        c.bad(f'{family}/exception/in-range{tag}{withp}', f'{show(name, args)} raised {out[1]}')
        return None
    v = out[1]
    exp = R.expected(n, base, places)
    if isinstance(v, str) and v in R.NUMERR:
        if exp['error_ok'] or lenient:
            ctx.count(f'places:{sign}:too-small->error' if exp['error_ok'] else 'lenient-input->error')
            if exp['error_ok'] and n >= 0:
                ctx.count('places:too-small->error')
            return None
        c.bad(f'{family}/{sign}-in-range-rejected{tag}{withp}',
              f'{show(name, args)} = {v!r}, expected {exp["text"]!r}')
        return None
    if isinstance(v, str) and v in R.ALL_ERRORS:
        c.bad(f'{family}/unexpected-error-code{tag}', f'{show(name, args)} = {v!r}')
        return None
    if not isinstance(v, str):
        c.bad(f'{family}/non-text-result{tag}', f'{show(name, args)} = {v!r} ({type(v).__name__})')
        return None
    if not exp['value_ok']:
        c.bad(f'{family}/places-too-small-but-a-value{tag}',
              f'{show(name, args)} = {v!r}: {R.encode(n, base)!r} does not fit in {places} places, '
              f'expected #NUM!')
        return None
    if v == exp['text']:
        if places is not None and n >= 0:
            ctx.count('places:padded' if len(v) > len(R.encode(n, base)) else 'places:exact-fit')
        return v
    if v.upper() == exp['text']:
        ctx.count('tolerated:lower-case-hex-output')
        return v
    if exp['any_padding'] and len(v) <= R.WIDTH and R.is_digit_string(v, base) \
            and v.upper().lstrip('0') == exp['text'].lstrip('0'):
        ctx.count('tolerated:leading-zeros-without-places')
        return v
    if n < 0:
        c.bad(f'{family}/negative-not-10-digit-twos-complement{tag}{withp}',
              f'{show(name, args)} = {v!r}, expected {exp["text"]!r} (= {n} + {base}**10 in base {base})')
    elif places is None:
        c.bad(f'{family}/wrong-digits{tag}', f'{show(name, args)} = {v!r}, expected {exp["text"]!r}')
    else:
        c.bad(f'{family}/places-wrong-padding{tag}',
              f'{show(name, args)} = {v!r}, expected {exp["text"]!r} (exactly {places} digits)')
    return None


def judge_reject(c, name, args, out, key_value, key_exc, any_error=False):
    """``out`` must be #NUM!/#VALUE! (any error value if any_error)"""
    if out[0] == 'x':
        c.bad(key_exc, f'{show(name, args)} raised {out[1]}')
        return
    v = out[1]
    if isinstance(v, str) and v in (R.ALL_ERRORS if any_error else R.NUMERR):
        c.ctx.count('rejected:' + v)
        return
    if isinstance(v, str) and v in R.ALL_ERRORS:
        c.bad(key_value + '/other-error-code', f'{show(name, args)} = {v!r}, expected #NUM! or #VALUE!')
        return
    c.bad(key_value, f'{show(name, args)} = {v!r}, expected #NUM! or #VALUE!')


def judge_decode(c, name, args, out, want, lenient=False, tag=''):
    """``out`` must be the number ``want`` (or, if lenient, an error)"""
    if out[0] == 'x':
        c.bad(f'X2DEC/exception{tag}', f'{show(name, args)} raised {out[1]}')
        return
    v = out[1]
    if is_num(v) and v == want:
        return
    if isinstance(v, str) and v in R.NUMERR:
        if lenient:
            c.ctx.count('lenient-input->error')
        else:
            c.bad(f'X2DEC/legal-digit-string-rejected{tag}', f'{show(name, args)} = {v!r}, expected {want}')
        return
    kind = 'negative-10-digit' if want < 0 else 'nonnegative'
    c.bad(f'X2DEC/wrong-value/{kind}{tag}', f'{show(name, args)} = {v!r}, expected {want}')


def same_composition(direct, comp):
    if direct[0] == 'x' or comp[0] == 'x':
        return direct[0] == comp[0]
    a, b = direct[1], comp[1]
    ea, eb = isinstance(a, str) and a in R.ALL_ERRORS, isinstance(b, str) and b in R.ALL_ERRORS
    if ea or eb:
        return ea and eb
    return type(a) is type(b) and a == b


def base_to_base(c, base, s, dec_out, mode, n=None, cls=None, reject_key=None):
    """the two direct functions of ``base`` on the text ``s`` without places and with every places
    1..10: against the composition through decimal (pycel's own X2DEC then DEC2Y) and the model.
    mode: 'legal' (n = value), 'lenient' (n = value, errors tolerated), 'zero' (blank/empty: value of
    0 or error, no composition law), 'reject' (cls = class of the illegal text)"""
    ctx = c.ctx
    for t in R.BASES:
        if t == base:
            continue
        direct_name, dec2y = f'{LOW[base]}2{LOW[t]}', f'dec2{LOW[t]}'
        for p in (None,) + R.PLACES:
            extra = () if p is None else (p,)
            direct = c.call(direct_name, s, *extra)
            if mode in ('legal', 'lenient'):
                if R.in_range(n, t):
                    judge_render(c, 'X2Y', direct_name, (s,) + extra, direct, n, t, p,
                                 lenient=(mode == 'lenient'))
                else:
                    ctx.count('x2y:target-range-overflow')
                    judge_reject(c, direct_name, (s,) + extra, direct,
                                 'X2Y/target-range-overflow-accepted', 'X2Y/exception/target-range-overflow')
            elif mode == 'zero':
                if not (direct[0] == 'v' and isinstance(direct[1], str) and direct[1] in R.ALL_ERRORS):
                    judge_render(c, 'X2Y', direct_name, (s,) + extra, direct, 0, t, p, tag='/blank')
            else:
                judge_reject(c, direct_name, (s,) + extra, direct,
                             reject_key or f'X2*/illegal-text-accepted/{cls}', f'X2*/exception/{cls}',
                             any_error=(cls == 'error-value'))
            if mode != 'zero' and dec_out[0] == 'v':
                comp = c.call(dec2y, dec_out[1], *extra)
                ctx.count('compositions')
                if not same_composition(direct, comp):
                    c.bad('X2Y/differs-from-composition-through-decimal',
                          f'{show(direct_name, (s,) + extra)} = {direct!r} but '
                          f'{show(dec2y, (dec_out[1],) + extra)} = {comp!r} '
                          f'(with {show(LOW[base] + "2dec", (s,))} = {dec_out[1]!r})')


# --------------------------------------------------------------------------- the cases

def check_number(ctx, case, tie=False):
    """an integer n handed to DEC2X of one base (as int, float, text; all places), its round trip and
    its canonical text through the base-to-base functions"""
    base, n = case['base'], case['n']
    c = Case(ctx, case, tie)
    b = LOW[base]
    dec2x, x2dec = 'dec2' + b, b + '2dec'
    inr = R.in_range(n, base)
    ctx.count(f'numbers:{b}:' + ('in-range' if inr else 'out-of-range'))
    forms = [('int', n)]
    if float(n) == n:
        forms.append(('float', float(n)))
    forms.append(('text', str(n)))
    if not inr:
        for form, v in forms:
            for p in (None,) + R.PLACES:
                args = (v,) if p is None else (v, p)
                judge_reject(c, dec2x, args, c.call(dec2x, *args),
                             'DEC2X/out-of-range-number-accepted', 'DEC2X/exception/out-of-range-number')
        c.run_tie()
        return c
    if n < 0:
        ctx.count('negative_renderings')
    for form, v in forms:
        out = c.call(dec2x, v)
        text = judge_render(c, 'DEC2X', dec2x, (v,), out, n, base, None, lenient=(form == 'text'),
                            tag='' if form != 'text' else '/numeric-text')
        if text is not None:
            round_trip(c, x2dec, text, n, f'{show(dec2x, (v,))}')
        if form == 'text' and out[0] == 'v':
            # whether a number typed as text is taken is not fixed by the statement; that it is the same answer for
            # every number of the range is: a text of 11 or 12 digits is a number like one of 3
            seen = ctx.__dict__.setdefault('_c18_numeric_text', {}).setdefault(base, {})
            seen.setdefault('taken' if text is not None else 'refused', (v, out[1]))
            if len(seen) == 2 and not seen.get('reported'):
                seen['reported'] = True
                ctx.violation('DEC2X/numeric-text-taken-for-some-numbers-of-the-range-only',
                              f'{dec2x.upper()}({seen["taken"][0]!r}) = {seen["taken"][1]!r} but '
                              f'{dec2x.upper()}({seen["refused"][0]!r}) = {seen["refused"][1]!r}: both are numbers of the '
                              f'range typed as text', dict(case))
    for p in R.PLACES:
        for pv in (p, float(p)):
            out = c.call(dec2x, n, pv)
            ctx.count('places_calls')
            text = judge_render(c, 'DEC2X', dec2x, (n, pv), out, n, base, p)
            if text is not None:
                round_trip(c, x2dec, text, n, f'{show(dec2x, (n, pv))}')
    enc = R.encode(n, base)
    dec_out = c.call(x2dec, enc)
    judge_decode(c, x2dec, (enc,), dec_out, n)
    base_to_base(c, base, enc, dec_out, 'legal', n=n)
    c.run_tie()
    return c


def round_trip(c, x2dec, text, n, origin):
    back = c.call(x2dec, text)
    c.ctx.count('round_trips')
    if n < 0:
        c.ctx.count('round_trips:negative')
    if back[0] == 'v' and is_num(back[1]) and back[1] == n:
        return
    what = f'raised {back[1]}' if back[0] == 'x' else f'= {back[1]!r}'
    c.bad('round-trip/' + ('negative' if n < 0 else 'nonnegative'),
          f'{origin} = {text!r} but {show(x2dec, (text,))} {what}, expected {n}')


def check_text(ctx, case, tie=False):
    """a text handed to X2DEC and the two X2Y of one base"""
    base, s = case['base'], case['s']
    c = Case(ctx, case, tie)
    b = LOW[base]
    x2dec = b + '2dec'
    cls = R.text_class(s, base)
    ctx.count('texts:' + b)
    out = c.call(x2dec, s)
    if cls in ('legal', 'legal-lowercase'):
        n = R.decode(s, base)
        ctx.count('legal_texts')
        ctx.count('legal_texts:' + ('negative' if n < 0 else 'nonnegative'))
        if cls == 'legal-lowercase':
            ctx.count('legal_texts:lower-case')
        judge_decode(c, x2dec, (s,), out, n, lenient=(cls == 'legal-lowercase'))
        base_to_base(c, base, s, out, 'legal' if cls == 'legal' else 'lenient', n=n)
    elif cls == 'empty':
        ctx.count('empty_texts')
        if not (out[0] == 'v' and isinstance(out[1], str) and out[1] in R.NUMERR):
            judge_decode(c, x2dec, (s,), out, 0, tag='/empty-text')
        base_to_base(c, base, s, out, 'zero')
    else:
        ctx.count('illegal:' + cls)
        if len(s) <= R.WIDTH:
            ctx.count('illegal_texts_len<=10')
        judge_reject(c, x2dec, (s,), out, f'X2*/illegal-text-accepted/{cls}', f'X2*/exception/{cls}')
        base_to_base(c, base, s, out, 'reject', cls=cls)
    c.run_tie()
    return c


def check_typed_to_dec(ctx, case, tie=False):
    """a non-text value (number, logical, blank, error value) handed to X2DEC / X2Y"""
    base, v = case['base'], case['v']
    c = Case(ctx, case, tie)
    b = LOW[base]
    x2dec = b + '2dec'
    ctx.count('typed_cases')
    out = c.call(x2dec, v)
    if v is None:
        ctx.count('typed:blank')
        if not (out[0] == 'v' and isinstance(out[1], str) and out[1] in R.NUMERR):
            judge_decode(c, x2dec, (v,), out, 0, tag='/blank')
        base_to_base(c, base, v, out, 'zero')
    elif isinstance(v, bool):
        ctx.count('typed:logical')
        judge_reject(c, x2dec, (v,), out, 'X2*/logical-accepted', 'X2*/exception/logical')
        base_to_base(c, base, v, out, 'reject', cls='logical', reject_key='X2*/logical-accepted')
    elif isinstance(v, str):
        assert v in R.ALL_ERRORS
        ctx.count('typed:error-value')
        judge_reject(c, x2dec, (v,), out, 'X2*/error-value-accepted', 'X2*/exception/error-value',
                     any_error=True)
        base_to_base(c, base, v, out, 'reject', cls='error-value', reject_key='X2*/error-value-accepted')
    else:
        text = str(int(v)) if v == int(v) else None
        if text is not None and v >= 0 and R.is_legal(text, base):
            ctx.count('typed:number-with-legal-digits')
            n = R.decode(text, base)
            judge_decode(c, x2dec, (v,), out, n, lenient=True, tag='/number-input')
            base_to_base(c, base, v, out, 'lenient', n=n)
        else:
            ctx.count('typed:number-not-a-digit-string')
            cls = 'number-' + ('negative' if v < 0 else 'non-integer' if text is None else
                               'too-long' if len(text) > R.WIDTH else 'digit-outside-base')
            judge_reject(c, x2dec, (v,), out, f'X2*/illegal-number-accepted/{cls}', f'X2*/exception/{cls}')
            base_to_base(c, base, v, out, 'reject', cls=cls, reject_key=f'X2*/illegal-number-accepted/{cls}')
    c.run_tie()
    return c


def check_typed_from_dec(ctx, case, tie=False):
    """a non-integer / text / logical / blank / error value handed to DEC2X (no places and places)"""
    base, v = case['base'], case['v']
    c = Case(ctx, case, tie)
    dec2x = 'dec2' + LOW[base]
    ctx.count('typed_cases')
    must_reject, cls, readings, any_error = False, None, [], False
    if v is None:
        cls, readings = 'blank', [0]
    elif isinstance(v, bool):
        cls, readings = 'logical', [int(v)]
    elif isinstance(v, str) and v in R.ALL_ERRORS:
        cls, must_reject, any_error = 'error-value', True, True
    elif isinstance(v, str):
        kind, x = R.decimal_text(v)
        if kind == 'number':
            cls, readings = 'numeric-text', R.integer_readings(x)
        elif kind == 'not-a-number':
            cls, must_reject = 'text-' + x, True
        else:
            cls = 'unclear-text'
    else:
        cls, readings = 'non-integer', R.integer_readings(v)
    ctx.count('typed:dec2x:' + cls)
    readings = [n for n in readings if R.in_range(n, base)]
    for p in (None,) + R.PLACES:
        args = (v,) if p is None else (v, p)
        out = c.call(dec2x, *args)
        if out[0] == 'x':
            c.bad(f'DEC2X/exception/{cls}', f'{show(dec2x, args)} raised {out[1]}')
            continue
        r = out[1]
        if cls == 'unclear-text':
            continue
        if isinstance(r, str) and r in (R.ALL_ERRORS if any_error else R.NUMERR):
            ctx.count('typed:dec2x->error')
            continue
        if must_reject or not readings:
            key = f'DEC2X/illegal-text-accepted/{cls[5:]}' if cls.startswith('text-') else \
                f'DEC2X/{cls}-accepted' if must_reject else f'DEC2X/out-of-range-{cls}-accepted'
            c.bad(key, f'{show(dec2x, args)} = {r!r}, expected #NUM! or #VALUE!')
            continue
        ok = False
        for n in readings:
            exp = R.expected(n, base, p)
            if exp['value_ok'] and isinstance(r, str) and (
                    r.upper() == exp['text'] or (exp['any_padding'] and len(r) <= R.WIDTH and
                                                 r.upper().lstrip('0') == exp['text'].lstrip('0'))):
                ok = True
        if ok:
            ctx.count('typed:dec2x->value')
        else:
            c.bad(f'DEC2X/wrong-result/{cls}',
                  f'{show(dec2x, args)} = {r!r}, expected the rendering of one of {readings} or an error')
    c.run_tie()
    return c


UNJUDGED_PLACES = [0, -1, 11, 12, 2.5, 10.5, '3', 'abc', '', True, False, None, '#N/A']


def observe_places(ctx):
    """places outside 1..10: outside the quantifier of the statement, only observed"""
    for name, arg in (('dec2bin', 5), ('dec2oct', -5), ('dec2hex', 255), ('bin2oct', '101'),
                      ('hex2bin', 'F'), ('oct2hex', '7777777777')):
        for p in UNJUDGED_PLACES:
            out = call(name, arg, p)
            kind = 'exception' if out[0] == 'x' else \
                'error' if isinstance(out[1], str) and out[1] in R.ALL_ERRORS else 'value'
            ctx.count(f'unjudged:places={p!r}:{kind}')
            if kind == 'exception':
                ctx.note(f'not judged (places outside 1..10): {show(name, (arg, p))} raised {out[1]}')


CHECKS = {'number': check_number, 'text': check_text, 'to_dec': check_typed_to_dec,
          'from_dec': check_typed_from_dec}


SEEN = set()


def do(ctx, case, exhaustive=False, nontrivial=True, counter=None):
    """run one case if it belongs to this shard (partition by the hash of its signature, so that a case
    reached by two generators is executed once over all shards); returns the Case or None"""
    sig = (case['kind'], case['base'], repr(case.get('n', case.get('s', case.get('v')))))
    h = h64(sig)
    if not ctx.mine(h) or h in SEEN:
        return None
    SEEN.add(h)
    tie = want_tie(sig)
    c = CHECKS[case['kind']](ctx, case, tie)
    ctx.case(None if exhaustive else sig, nontrivial=nontrivial)
    if counter:
        ctx.count(counter)
    if tie:
        ctx.count('tied_cases')
    if (ctx.evaluations % 997 == 1 and not c.keys) or (tie and len(ctx.samples) < 2):
        ctx.sample({'case': case, 'calls': [[show(nm, a), o[1]] for nm, a, o in c.calls[:12]]}
                   if c.calls else {'case': case})
    return c


# --------------------------------------------------------------------------- generators

def boundary_numbers(base):
    lo, hi, m = R.lo(base), R.hi(base), R.modulus(base)
    out = set()
    for centre in (lo, hi, 0, -m, m, m - 1, 2 * lo, 2 * hi + 1, -512, 511, -2 ** 29, 2 ** 29 - 1):
        out.update(range(centre - 3, centre + 4))
    k = base
    while k <= m * base:
        for d in (-1, 0, 1):
            out.update((k + d, -k + d))
        k *= base
    out.update((10 ** 12, -10 ** 12, 10 ** 15, -10 ** 15, 2 ** 41, -2 ** 41, 2 ** 53 - 1))
    return sorted(out)


def boundary_texts(base):
    a = R.alphabet(base)
    top, z, one = a[-1], '0', '1'
    half = R.digits(R.modulus(base) // 2, base)           # first negative: 1000000000 / 4000000000 / 8000000000
    below = R.digits(R.modulus(base) // 2 - 1, base)      # largest positive
    out = {top * k for k in range(1, 12)} | {z * k for k in range(1, 12)} | {one * k for k in range(1, 12)}
    out |= {half, below, below.rjust(10, '0'), half + z, z + half, z * 9 + one, one + z * 9, one + z * 10,
            top * 9 + z, z + top * 9, top + z * 9}
    if base == 16:
        out |= {x.lower() for x in set(out)} | {'fFfFfFfFfF', 'AbCdEf', 'abcdef', 'ABCDEF', 'DeadBeef', 'e', 'E',
                                               '1e2', '1E2', '0b1', '0B1', '0d1'}
    return sorted(out)


def all_texts(base, max_len, min_len=0):
    a = R.alphabet(base)
    for k in range(min_len, max_len + 1):
        for i in range(base ** k):
            s, m = [], i
            for _ in range(k):
                m, r = divmod(m, base)
                s.append(a[r])
            yield ''.join(reversed(s))


def insertions(base, s):
    for ch in OUTSIDE[base] + COMMON:
        for pos in range(len(s) + 1):
            yield s[:pos] + ch + s[pos:]
    if s:
        for pre in PREFIXES:
            yield pre + s
        yield '+' + PREFIXES[0] + s
        yield ' ' + s + ' '


LISTED_STEMS = {2: ['', '1', '0', '11', '101', '111111111', '1111111111', '1000000000', '0000000001'],
                8: ['', '1', '7', '17', '777', '1234567', '377777777', '7777777777', '4000000000'],
                16: ['', '1', 'F', '1F', 'ff', 'ABCDEF', 'FFFFFFFFF', '7FFFFFFFFF', '8000000000', 'B1']}

TYPED_TO_DEC = [True, False, None] + list(R.ALL_ERRORS) + [
    0, 1, 10, 11, 101, 777, 1234567, 99, 1111111111, 7777777777, 9999999999, 11111111111, 2, 8, 12, 19,
    -1, -11, -101, 100000000000, 10 ** 15,
    0.0, 1.0, 101.0, 777.0, 1111111111.0, 1e10, 1.5, 101.5, 0.1, -1.0, 1e15, 1e16, 1e300, 1e-5, 7777777777.0]
DEC_TEXTS = ['1' * 5000, '-' + '9' * 4400,      # (python's int() refuses more than 4300 digits with a ValueError)
             '5', '-5', ' 5', '5 ', ' -5 ', '+5', '5.5', '-5.5', '5.', '.5', '1e2', '1E2', '1e-1', '1_0',
             '1__0', '_1', '1_', '-1_0', '１０', '٥', '0x1F', '0b1', '0o17', '0X1f', 'abc', 'A',
             'FF', '1,000', '', ' ', '5 5', '--5', '1.5.2', '$5', '5%', 'TRUE', '1e', 'e1', 'nan', 'inf']


def typed_from_dec_values(base):
    lo, hi = R.lo(base), R.hi(base)
    vals = [True, False, None] + list(R.ALL_ERRORS) + list(DEC_TEXTS)
    vals += [0.5, -0.5, 5.5, -5.5, 0.999, -0.999, hi + 0.5, hi + 0.999, hi - 0.5, lo - 0.5, lo - 0.001,
             lo + 0.5, lo - 1.5, hi + 1.5, 1e12 + 0.5, -1e12 - 0.5, 1e300, -1e300, 1e-300]
    vals += [str(hi), str(hi + 1), str(lo), str(lo - 1), f'{hi}.5', f'{lo}.5', f'{lo - 1}.5', f' {hi} ',
             f'{hi}_', f'{hi + 1}.0']
    return vals


def sample_number(rng, base):
    lo, hi, m = R.lo(base), R.hi(base), R.modulus(base)
    r = rng.random()
    if r < 0.40:
        return rng.randint(lo, hi)
    if r < 0.70:
        bits = rng.randint(0, hi.bit_length())
        v = rng.getrandbits(bits) if bits else 0
        return -v - 1 if rng.random() < 0.5 else v
    if r < 0.85:
        centre = rng.choice((lo, hi, 0, base ** rng.randint(1, 9), -(base ** rng.randint(1, 9))))
        return centre + rng.randint(-40, 40)
    if r < 0.95:
        v = hi + 1 + rng.getrandbits(rng.randint(0, hi.bit_length() + 2))
        return v if rng.random() < 0.5 else -v - 1
    return rng.choice((1, -1)) * rng.randint(m, m * 16)


def sample_text(rng, base):
    a = R.alphabet(base)
    k = rng.choice((1, 2, 3, 4, 5, 6, 7, 8, 9, 9, 10, 10, 10, 10, 11))
    s = ''.join(rng.choice(a) for _ in range(k))
    if k >= 10 and rng.random() < 0.5:
        s = rng.choice(a[base // 2:]) + s[1:]          # top digit with the sign bit
    if base == 16:
        r = rng.random()
        if r < 0.2:
            s = s.lower()
        elif r < 0.3:
            s = ''.join(ch.lower() if rng.random() < 0.5 else ch for ch in s)
    return s


def sample_illegal(rng, base):
    a = R.alphabet(base)
    k = rng.choice((0, 1, 1, 2, 2, 3, 4, 5, 6, 7, 8, 9, 9, 10))
    s = ''.join(rng.choice(a) for _ in range(k))
    r = rng.random()
    if r < 0.2 and s:
        return rng.choice(PREFIXES) + s[:8]
    if r < 0.25 and s:
        ch = rng.choice((' ', '\t', '\n', '\xa0'))
        return ch * rng.randint(0, 1) + s[:8] + ch
    ch = rng.choice(OUTSIDE[base] + COMMON + COMMON)
    pos = rng.choice((0, len(s), rng.randint(0, len(s))))
    return s[:pos] + ch + s[pos:]


def sample_float(rng, base):
    lo, hi = R.lo(base), R.hi(base)
    r = rng.random()
    if r < 0.5:
        n = rng.randint(lo - 2, hi + 1)
    elif r < 0.8:
        n = rng.choice((1, -1)) * rng.getrandbits(rng.randint(0, hi.bit_length()))
    else:
        n = rng.choice((lo, hi, 0)) + rng.randint(-2, 2)
    return n + rng.choice((0.5, 0.25, 0.75, 0.001, 0.999, rng.random()))


# --------------------------------------------------------------------------- run / replay

def lookalike_history(ctx):
    """values that Python's == and hash() conflate (TRUE / 1 / 1.0 / '1', FALSE / 0 / 0.0 / '0') handed to the same
    function one after the other, first thing in the process: even shards start with the logicals, odd shards
    end with them.  The result for one must not depend on the other having been converted before (a memo keyed
    by the bare value does that).  Each call is judged by the ordinary per-case oracle."""
    seq = []
    for base in R.BASES:
        for one, kinds in (((True, 1, 1.0, '1'), None), ((False, 0, 0.0, '0'), None)):
            for v in one:
                if isinstance(v, bool) or isinstance(v, float):
                    seq.append({'kind': 'from_dec', 'base': base, 'v': v})
                    seq.append({'kind': 'to_dec', 'base': base, 'v': v})
                elif isinstance(v, int):
                    seq.append({'kind': 'number', 'base': base, 'n': v})
                    seq.append({'kind': 'to_dec', 'base': base, 'v': v})
                else:
                    seq.append({'kind': 'text', 'base': base, 's': v})
                    seq.append({'kind': 'from_dec', 'base': base, 'v': v})
    if ctx.shard % 2:
        seq.reverse()
    for case in seq:
        CHECKS[case['kind']](ctx, dict(case), False)
        ctx.case(('lookalike', ctx.shard % 2, repr(case)))
        ctx.count('lookalike_history_calls')


def later_workbooks(ctx):
    """the conversions in formulas whose argument is a reference made at run time (INDIRECT, OFFSET), in several
    workbooks of one process that hold other digits at the same address: each workbook converts its own cell"""
    books = [('101', '17', '1F', 5), ('111', '7', 'A', 9), ('1', '777', 'FF', 100), ('1111111111', '12', '7FFFFFFFFF', -3)]
    texts = {'BIN2DEC': ('A2', 2), 'BIN2OCT': ('A2', 2), 'BIN2HEX': ('A2', 2), 'OCT2DEC': ('A3', 8), 'OCT2BIN': ('A3', 8),
             'OCT2HEX': ('A3', 8), 'HEX2DEC': ('A4', 16), 'HEX2OCT': ('A4', 16), 'HEX2BIN': ('A4', 16),
             'DEC2BIN': ('A5', 10), 'DEC2OCT': ('A5', 10), 'DEC2HEX': ('A5', 10)}
    for k, (b, o, h, d) in enumerate(books):
        cells = {'A1': 0, 'A2': b, 'A3': o, 'A4': h, 'A5': d}
        row = 1
        want = {}
        for f, (src, base) in texts.items():
            for ref in (f'INDIRECT("{src}")', f'OFFSET(A1,{int(src[1:]) - 1},0)', src):
                row += 1
                cells[f'C{row}'] = f'={f}({ref})'
                want[f'Sheet1!C{row}'] = (f, src, ref)
        spec = {'sheets': [['Sheet1', cells]], 'names': {}, 'arrays': [], 'calc': None}
        comp = wb.compile_mem(spec)
        for a, (f, src, ref) in want.items():
            got = wb.outcome(comp.evaluate, a)
            direct = call(f.lower(), cells[src])
            ctx.count('later_workbook_formulas')
            ctx.case(('later-workbooks', k, a))
            if got[0] != 'v' or direct[0] != 'v' or str(got[1]) != str(direct[1]):
                ctx.violation('formula-with-computed-reference-differs-from-the-direct-call',
                              f'workbook {k + 1} of the process: ={f}({ref}) with {src} = {cells[src]!r} evaluates to {got!r}, '
                              f'{f}({cells[src]!r}) is {direct!r}', {'kind': 'later-workbooks'})
                return


def run(ctx):
    size = SIZES[ctx.tier]
    lookalike_history(ctx)
    if ctx.shard % 4 == 0:
        later_workbooks(ctx)
    # A. the whole binary range (both tiers)
    for n in range(R.lo(2), R.hi(2) + 1):
        do(ctx, {'kind': 'number', 'base': 2, 'n': n}, exhaustive=True, counter='exh:bin-range-numbers')
    # B. every binary text of length 0..11 (both tiers)
    for s in all_texts(2, 11):
        do(ctx, {'kind': 'text', 'base': 2, 's': s}, exhaustive=True, nontrivial=bool(s),
           counter='exh:bin-texts')
    # C. short octal / hex texts exhaustively
    for base in (8, 16):
        for s in all_texts(base, size['small'][base], 1):
            do(ctx, {'kind': 'text', 'base': base, 's': s}, exhaustive=True, counter='exh:small-texts')
    # D. boundary numbers (in range and out of range) and boundary texts of every base
    for base in R.BASES:
        for n in boundary_numbers(base):
            do(ctx, {'kind': 'number', 'base': base, 'n': n}, counter='boundary_numbers')
        for s in boundary_texts(base):
            do(ctx, {'kind': 'text', 'base': base, 's': s}, counter='boundary_texts')
    # E. one illegal character at every position / radix prefixes: all short binary stems, listed stems
    for stem in all_texts(2, size['bin_illegal_len']):
        for s in insertions(2, stem):
            do(ctx, {'kind': 'text', 'base': 2, 's': s}, counter='exh:bin-illegal')
    for base in R.BASES:
        for stem in LISTED_STEMS[base]:
            for s in insertions(base, stem):
                do(ctx, {'kind': 'text', 'base': base, 's': s}, counter='listed-illegal')
    # F. typed inputs
    for base in R.BASES:
        for v in TYPED_TO_DEC:
            do(ctx, {'kind': 'to_dec', 'base': base, 'v': v}, nontrivial=v is not None)
        for v in typed_from_dec_values(base):
            do(ctx, {'kind': 'from_dec', 'base': base, 'v': v}, nontrivial=v not in (None, ''))
    if ctx.shard == 0:
        observe_places(ctx)

    # G. seeded samples (every shard its own stream, a sampled case is kept by the shard that owns its
    #    signature); ended early only by the budget
    rng = ctx.rng
    per = {k: max(1, size[k] // ctx.nshards) for k in ('numbers', 'texts', 'illegal', 'floats')}
    plan = ([('number', 8), ('number', 16)] * (per['numbers'] // 2) +
            [('text', 8), ('text', 16)] * (per['texts'] // 2) +
            [('illegal', 2), ('illegal', 8), ('illegal', 16)] * (per['illegal'] // 3) +
            [('float', 2), ('float', 8), ('float', 16)] * (per['floats'] // 3))
    rng.shuffle(plan)
    for kind, base in plan:
        if ctx.out_of_time():
            ctx.count('sampling_cut_by_budget')
            break
        for _attempt in range(400):
            if kind == 'number':
                case = {'kind': 'number', 'base': base, 'n': sample_number(rng, base)}
            elif kind == 'text':
                case = {'kind': 'text', 'base': base, 's': sample_text(rng, base)}
            elif kind == 'illegal':
                case = {'kind': 'text', 'base': base, 's': sample_illegal(rng, base)}
            else:
                case = {'kind': 'from_dec', 'base': base, 'v': sample_float(rng, base)}
            if do(ctx, case, counter='sampled:' + kind) is not None:
                break


def replay(ctx, case):
    case = dict(case)
    if case.get('kind') == 'later-workbooks':
        later_workbooks(ctx)
        return
    tie = bool(case.pop('tie', False))
    CHECKS[case['kind']](ctx, case, tie)
    ctx.case(None)
