"""C19 - rounding family: decimal-exact, half away from zero, correct brackets.

ROUND ROUNDUP ROUNDDOWN TRUNC INT MOD CEILING FLOOR CEILING.MATH FLOOR.MATH CEILING.PRECISE
FLOOR.PRECISE EVEN ODD are called through the wrappers a compiled formula uses (vp.lib.fn) and every
result is judged against vp.refmodel.rounding (exact rational arithmetic on the shortest decimal
rendering ``Decimal(repr(x))`` of each argument).  About 1 % of the cases are also evaluated as a
formula in a workbook through ExcelCompiler and must give the very same outcome as the wrapper.

What is required of a result
* ROUND/ROUNDUP/ROUNDDOWN/TRUNC(x, d): the double nearest to the exact multiple of 10^-d the
  statement names (ties of ROUND away from zero; DOWN/TRUNC toward zero; UP away from zero);
  on the returned value also |ROUNDDOWN| <= |x| <= |ROUNDUP| and exact multiples are fixed.
  int or float are both fine, only the numeric value counts.
* INT = floor, EVEN/ODD = next even/odd integer away from zero (ODD(0)=1, EVEN(0)=0).
* MOD(n, 0) = #DIV/0!; otherwise n = d*q + MOD within 8 ulp of max(|n|, |d*q|) for q = INT(n/d) as the
  formula INT(n/d) computes it, the floor of the double quotient n/d (until round 5 of the seeded changes the floor
  of the exact quotient of the decimal renderings passed as well; a MOD built on that one breaks the identity with
  the workbook's own INT by a whole divisor, see DESIGN.md 10.5); MOD has the sign of d, a MOD within
  that tolerance of 0 counts as either sign (rule fixed in DESIGN.md).
* CEILING/FLOOR/.MATH/.PRECISE: the adjacent multiple of the significance named by Excel's
  documented sign conventions, within 8 ulp of max(|x|, |multiple|) and on the same side of x as that
  multiple ("bracketing": FLOOR(0.3, 0.1) = 0.30000000000000004 > x does not pass, a multiple equal to x
  comes back as x; a result one whole significance away does not pass either).

Deliberately permissive (statement silent / Excel versions differ)
* CEILING/FLOOR with number and significance of different sign: #NUM! or the mathematical
  ceiling/floor on |significance| (Excel <= 2007 vs >= 2010; Excel gives #NUM! for s < 0 < x).
* significance 0: 0 or #DIV/0! for every member of the family.
* x within 8 ulp of a multiple M of the significance without being M in decimal (only binary
  samples such as 0.1*3 can be): M or the strict neighbour are both accepted.
* several error arguments: any of them may come out; an error together with non-numeric text:
  that error or #VALUE!.
* the sign of a zero result and the int/float type of results are not looked at.
* a non-integral digit count (reached only through the numeric text "2.5", "0.29", "-0.5") passes
  with either neighbouring integer; text such as "TRUE" or "1e2" is not generated (the statement
  says nothing about coercion beyond numbers).
* MOD: the exact remainder of the *binary* values (Python's %, C fmod), e.g. MOD(1, 0.1) =
  0.0999999999999999, is NOT accepted: with q = INT(1/0.1) = 10 the identity n = d*q + MOD fails by a
  whole divisor.  (Real Excel is reported to show 0.1 for this formula as well; the statement's
  identity and DESIGN.md section 5/6 decide here.)

Mechanism keys (a predicate over function and input class, see judge_*):
  ROUND/negative-digits-half-even   digits < 0, x an exact tie, result = the even neighbour toward zero
  TRUNC/float-scaling               x*10^d within 2^-44 of an integer and the result one step off, or
                                    digits < 0 and the result within 8 ulp of the right multiple
  <F>/non-dyadic-significance       F in the CEILING/FLOOR family, significance not exactly representable
                                    in binary, x an (almost) exact multiple, result one significance off
  MOD/identity-broken-non-dyadic-divisor   divisor not exactly representable, n an (almost) exact
                                    multiple of it, identity off by one divisor
  <F>/exception-<Class>, <F>/error-argument-not-propagated, <F>/text-argument-not-#VALUE!,
  <F>/unexpected-error-<code>, <F>/wrong-type, MOD/zero-divisor-not-#DIV/0!, MOD/sign,
  MOD/identity-unclassified, <F>/formula-differs-from-wrapper, <F>/unclassified
The set of ties is enumerated completely in the thorough tier; the whole domain (14e6 values of x
times 13 digit counts times 4 functions) is not, hence EXHAUSTIVE is False for both tiers.
"""
import math
from fractions import Fraction

from vp import lib, wb
from vp.refmodel import rounding as R

PROP = 'C19'
LEVEL = 'exploration'
RULE = ('x = k/10^j (|k| <= 10^6, j 0..6; ints passed both as int and float) x digits -6..6 for '
        'ROUND/ROUNDUP/ROUNDDOWN/TRUNC: every exact tie of every digit position (thorough: all of them, '
        'quick: a seed-offset stride) with its near-ties tie +- 10^-(j+1) and tie +- 10^-6, exact multiples '
        '(x=k/10^d, digits d), both signs; CEILING/FLOOR/.MATH(mode 0,1)/.PRECISE on exact multiples m*s '
        'and m*s +- 10^-6 for a signed pool of significances (1 2 5 10 3 100 0.5 0.25 0.1 0.01 0.3 0.2 '
        '0.05 0.7 0.001, negatives, 0); MOD on multiples and near-multiples of pool and decimal divisors; '
        'INT/EVEN/ODD on integers, near-integers and k/10^j; seeded samples of (k, j, d) and of binary '
        'floats (uniform, decimal +- 1..3 ulp, products like 0.1*3, ties +- 1 ulp); numeric text / '
        'logical / blank / error / text arguments in every position. Oracle: exact rationals on '
        'Decimal(repr(x)). A case = one call (function, arguments); non-trivial = the expected outcome is '
        'a number fixed by the rounding rule (not an error or coercion shortcut); distinct = by '
        '(function, arguments).')
BUDGET = {'quick': 18, 'thorough': 200}
EXHAUSTIVE = {'quick': False, 'thorough': False}
ASSUMPTIONS = [
    'magnitudes |x| <= 1e6 (+1e-6), digits within -6..6, significances and divisors from finite pools',
    'Excel itself is not available: its conventions are taken from the statement and the function documentation; '
    'where they differ between versions both are accepted (see module docstring)',
    'the operator "/" inside INT(n/d) is IEEE double division (operators are the business of C10)',
]

# Excel name -> (python name in pycel, min args, max args)
FUNCS = {
    'ROUND': ('round_', 2, 2), 'ROUNDUP': ('roundup', 2, 2), 'ROUNDDOWN': ('rounddown', 2, 2),
    'TRUNC': ('trunc', 1, 2), 'INT': ('int_', 1, 1), 'MOD': ('mod', 2, 2),
    'CEILING': ('ceiling', 2, 2), 'FLOOR': ('floor', 2, 2),
    'CEILING.MATH': ('ceiling_math', 1, 3), 'FLOOR.MATH': ('floor_math', 1, 3),
    'CEILING.PRECISE': ('ceiling_precise', 1, 2), 'FLOOR.PRECISE': ('floor_precise', 1, 2),
    'EVEN': ('even', 1, 1), 'ODD': ('odd', 1, 1),
}
DEFAULTS = {'TRUNC': (None, 0), 'CEILING.MATH': (None, 1, 0), 'FLOOR.MATH': (None, 1, 0),
            'CEILING.PRECISE': (None, 1), 'FLOOR.PRECISE': (None, 1)}
ROUNDERS = {'ROUND': 'half', 'ROUNDUP': 'up', 'ROUNDDOWN': 'down', 'TRUNC': 'down'}
SAMPLED = ('FLOOR', 'MOD', 'ODD', 'ROUND', 'TRUNC')      # one case of each goes into the evidence samples
DIRECTION = {'half': 'nearest to', 'down': 'toward zero from', 'up': 'away from zero from'}
FAMILY = ('CEILING', 'FLOOR', 'CEILING.MATH', 'FLOOR.MATH', 'CEILING.PRECISE', 'FLOOR.PRECISE')

SIG_POS = (1, 2, 5, 10, 3, 100, 0.5, 0.25, 0.1, 0.01, 0.3, 0.2, 0.05, 0.7, 0.001)
SIGS = SIG_POS + tuple(-s for s in SIG_POS) + (0,)
DIVISORS = SIG_POS + (7, 0.125, 1.5, 0.03, 1.1, 0.9, 2.4, 12, 360, 0.15)
ARG_POOL = (None, True, False, '2.5', '-3', '12', '0.29', '25', '-0.5', '1', 'abc', '', '1 2', 'x1') + R.ERRORS

FLOORS = {
    'quick': {'evaluations': 400000, 'f:ROUND': 30000, 'f:ROUNDUP': 30000, 'f:ROUNDDOWN': 30000,
              'f:TRUNC': 30000, 'f:INT': 5000, 'f:MOD': 20000, 'f:CEILING': 10000, 'f:FLOOR': 10000,
              'f:CEILING.MATH': 10000, 'f:FLOOR.MATH': 10000, 'f:CEILING.PRECISE': 5000,
              'f:FLOOR.PRECISE': 5000, 'f:EVEN': 5000, 'f:ODD': 5000,
              'round:far-digits': 70, 'round:tie': 20000, 'round:tie:digits<0': 1500, 'round:tie:digits=0': 1500,
              'round:tie:digits>0': 10000, 'round:near-tie': 30000, 'round:multiple': 20000,
              'round:bracket-checked': 40000, 'round:fixpoint-checked': 10000,
              'family:exact-multiple': 10000, 'family:non-dyadic-significance': 10000,
              'family:mixed-signs': 5000, 'family:both-negative': 3000, 'family:significance-0': 100,
              'mod:exact-multiple': 4000, 'mod:non-dyadic-divisor': 5000, 'mod:negative-divisor': 3000,
              'mod:div0': 50, 'mod:identity-checked': 15000, 'mod:sign-checked': 15000,
              'binary-float-args': 15000, 'numpy-float-args': 300, 'arg:error': 800, 'arg:numeric-text': 300, 'arg:logical': 200,
              'arg:blank': 100, 'arg:text': 300, 'formula:compared': 1500},
    'thorough': {'evaluations': 20000000, 'round:tie': 4000000, 'round:tie:digits<0': 400000,
                 'round:near-tie': 5000000, 'round:multiple': 1000000, 'family:exact-multiple': 500000,
                 'family:non-dyadic-significance': 500000, 'mod:exact-multiple': 200000,
                 'mod:non-dyadic-divisor': 200000, 'binary-float-args': 500000, 'arg:error': 800,
                 'formula:compared': 20000, 'f:INT': 100000, 'f:EVEN': 100000, 'f:ODD': 100000},
}

# size of the deterministic parts (totals over all shards): stride through the enumerations
SIZES = {
    'quick': {'tie_stride': 67, 'mult_stride': 997, 'fam_m_dense': 60, 'fam_m_sparse': 60,
              'mod_m_dense': 60, 'mod_m_sparse': 40, 'int_dense': 300, 'int_sparse': 2000,
              'random': 160000, 'formula_every': 100},
    'thorough': {'tie_stride': 1, 'mult_stride': 29, 'fam_m_dense': 1500, 'fam_m_sparse': 1500,
                 'mod_m_dense': 1500, 'mod_m_sparse': 1000, 'int_dense': 20000, 'int_sparse': 30000,
                 'random': 3000000, 'formula_every': 100},
}


# =========================================================================== the oracle

def fmt(v):
    return repr(float(v)) if isinstance(v, Fraction) else str(v)


def numbers_for(F, args):
    """coerced arguments with defaults filled in: (numbers or None, acceptable error outcomes or None)"""
    coerced = [R.coerce(a) for a in args]
    errs = [c for c in coerced if isinstance(c, str)]
    if errs:
        return None, sorted(set(errs))
    full = list(coerced)
    dflt = DEFAULTS.get(F, ())
    for i in range(len(full), len(dflt)):
        full.append(dflt[i])
    return full, None


def judge(F, args, out):
    """None when the outcome satisfies the property, else (mechanism key, message)"""
    shown = f'{F}({", ".join(map(repr, args))})'
    if out[0] == 'x':
        return f'{F}/exception-{out[1].split(":")[0]}', f'{shown} raised {out[1]}'
    got = out[1]
    nums, errs = numbers_for(F, args)
    if errs is not None:
        if isinstance(got, str) and got in errs:
            return None
        given = [a for a in args if isinstance(a, str) and a in R.ERRORS]
        kind = 'error-argument-not-propagated' if given else 'text-argument-not-#VALUE!'
        return f'{F}/{kind}', f'{shown} = {got!r}, expected one of {errs}'
    if F == 'MOD':
        return judge_mod(shown, nums, got)
    if F in FAMILY:
        return judge_family(F, shown, nums, got)
    if not R.is_num(got):
        kind = f'unexpected-error-{got}' if got in R.ERRORS else 'wrong-type'
        return f'{F}/{kind}', f'{shown} = {got!r}, expected a number'
    x = nums[0]
    if F in ROUNDERS:
        # a non-integral digit count (only reachable through numeric text here): either neighbour
        verdicts = [judge_round(F, shown, x, d, got)
                    for d in sorted({math.floor(nums[1]), math.ceil(nums[1])})]
        return None if None in verdicts else verdicts[0]
    want = {'INT': R.int_floor, 'EVEN': R.even, 'ODD': R.odd}[F](x)
    if float(got) == float(want):
        return None
    return f'{F}/unclassified', f'{shown} = {got!r}, expected {want}'


def judge_round(F, shown, x, d, got):
    mode = ROUNDERS[F]
    want = R.to_grid(x, d, mode)
    failed = []
    if float(got) != R.nearest_float(want):
        failed.append('value')
    # the clauses on the returned value itself
    g, q = R.frac(got), R.frac(x)
    if mode == 'down' and abs(g) > abs(q):
        failed.append('bracket |ROUNDDOWN| <= |x|')
    if mode == 'up' and abs(g) < abs(q):
        failed.append('bracket |x| <= |ROUNDUP|')
    pos = R.grid_position(x, d)
    if pos == 'multiple' and g != q:
        failed.append('exact multiples are fixed')
    if not failed:
        return None
    unit = R.pow10(-d)
    key = f'{F}/unclassified'
    if (F == 'ROUND' and d < 0 and pos == 'tie' and g == R.to_grid(x, d, 'down')
            and (g / unit) % 2 == 0):
        key = 'ROUND/negative-digits-half-even'
    elif F == 'TRUNC' and (
            (abs(abs(g - want) - unit) <= R.ulp_tol(x, want) and R.almost_multiple(x, unit)) or
            (d < 0 and abs(g - want) <= R.ulp_tol(x, want))):
        # one whole step off where x*10^d is (almost) an integer, or an ulp off after dividing by
        # the inexact double 10^d (negative digits)
        key = 'TRUNC/float-scaling'
    return key, (f'{shown} = {got!r}, expected {fmt(want)} (the multiple of 10^{-d} '
                 f'{DIRECTION[mode]} '
                 f'{q}; x is {pos}); failed: {", ".join(failed)}')


def judge_family(F, shown, nums, got):
    x, s = nums[0], nums[1]
    mode = nums[2] if len(nums) > 2 else 0
    accept = R.family_accept(F, x, s, mode)
    if isinstance(got, str):
        if got in accept:
            return None
        return f'{F}/unexpected-error-{got}', f'{shown} = {got!r}, expected one of {[fmt(a) for a in accept]}'
    if not R.is_num(got):
        return f'{F}/wrong-type', f'{shown} = {got!r}, expected a number'
    g = R.binary(got)
    for a in accept:
        if isinstance(a, Fraction) and abs(g - a) <= R.ulp_tol(x, a):
            # "bracketing x": the returned double lies on the side of x on which the multiple lies, and a
            # multiple that is x itself comes back as x (0.30000000000000004 is not FLOOR(0.3, 0.1): it is
            # larger than x).  Correctly rounded results satisfy this, rounding is monotone.
            X, gx = R.frac(x), R.binary(x)
            if (a == X and g != gx) or (a < X and g > gx) or (a > X and g < gx):
                return (f'{F}/result-on-the-wrong-side-of-x',
                        f'{shown} = {got!r}: the multiple is {fmt(a)}, x is {fmt(X)}, but the returned double '
                        f'{"differs from x" if a == X else "lies on the other side of x"}')
            return None
    key = f'{F}/unclassified'
    sq = R.frac(s)
    if sq != 0 and not R.dyadic(s):
        m = abs(sq)
        k = round(g / m)
        if R.almost_multiple(x, s) and abs(g - k * m) <= R.ulp_tol(x, g) and any(
                isinstance(a, Fraction) and abs(k * m - a) == m for a in accept):
            key = f'{F}/non-dyadic-significance'
    lo, hi = R.bracket(x, s) if sq != 0 else (None, None)
    return key, (f'{shown} = {got!r}, expected one of {[fmt(a) for a in accept]} '
                 f'(adjacent multiples of the significance around x: {fmt(lo)} .. {fmt(hi)})')


def judge_mod(shown, nums, got):
    n, d = nums
    if R.frac(d) == 0:
        if got == R.DIV0:
            return None
        return 'MOD/zero-divisor-not-#DIV/0!', f'{shown} = {got!r}, expected #DIV/0!'
    if not R.is_num(got):
        kind = f'unexpected-error-{got}' if got in R.ERRORS else 'wrong-type'
        return f'MOD/{kind}', f'{shown} = {got!r}, expected a number'
    failed = R.mod_clauses(n, d, got)
    if not failed:
        return None
    clauses = dict(failed)
    if 'identity' in clauses:
        off = clauses['identity']['residual_in_divisors']
        if not R.dyadic(d) and 0.5 < off < 1.5 and R.almost_multiple(n, d):
            key = 'MOD/identity-broken-non-dyadic-divisor'
        else:
            key = 'MOD/identity-unclassified'
        q = clauses['identity']['q']
        msg = (f'{shown} = {got!r} but INT(n/d) = {q} and d*{q} + MOD = {float(d) * q + got!r} != n '
               f'(off by {off:.6g} divisors, tolerance {clauses["identity"]["tolerance"]:.3g})')
    else:
        key = 'MOD/sign'
        msg = f'{shown} = {got!r} does not have the sign of the divisor'
    return key, msg


# =========================================================================== observation

class Monitor:
    def __init__(self, ctx):
        self.ctx = ctx
        self.n = 0
        self.every = SIZES[ctx.tier]['formula_every']
        self.pending = []
        self.sampled = set()

    def observe(self, F, args, sig=False):
        ctx = self.ctx
        args = list(args)
        out = lib.call(FUNCS[F][0], *args)
        if any(isinstance(a, float) and type(a) is not float for a in args):
            # a float of a subclass is judged as the float it holds (argument and result)
            args = [float(a) if isinstance(a, float) and type(a) is not float else a for a in args]
            if out[0] == 'v' and isinstance(out[1], float) and type(out[1]) is not float:
                out = ('v', float(out[1]))
        verdict = judge(F, args, out)
        self.account(F, args, out, sig)
        if verdict is not None:
            ctx.violation(verdict[0], verdict[1], {'f': F, 'args': args, 'via': 'lib'})
        self.n += 1
        if self.n % self.every == 0:
            self.pending.append((F, args, out))
            if len(self.pending) >= 40:
                self.flush()
        if F in SAMPLED and F not in self.sampled and self.n % 97 == 1:
            self.sampled.add(F)
            ctx.sample({'f': F, 'args': args, 'outcome': out, 'verdict': verdict and verdict[0]}, limit=6)
        return out

    def account(self, F, args, out, sig):
        ctx = self.ctx
        ctx.count('f:' + F)
        plain = True
        for a in args:
            if isinstance(a, float):
                if not R.dyadic(a) and len(repr(a)) > 15:
                    ctx.count('binary-float-args')
            elif isinstance(a, bool):
                ctx.count('arg:logical')
                plain = False
            elif a is None:
                ctx.count('arg:blank')
                plain = False
            elif isinstance(a, str):
                plain = False
                ctx.count('arg:error' if a in R.ERRORS else
                          'arg:numeric-text' if a in R.TEXT_NUMBERS else 'arg:text')
        if plain and len(args) == FUNCS[F][2]:
            if F in ROUNDERS:
                self.account_round(F, args)
            elif F in FAMILY:
                self.account_family(F, args)
            elif F == 'MOD':
                self.account_mod(args)
        if len(args) < FUNCS[F][2]:
            ctx.count('arg:omitted-optional')
        ctx.case(sig=(F, repr(args)) if sig else None, nontrivial=plain)
        if out[0] == 'v':
            ctx.count('result:' + ('error' if isinstance(out[1], str) else type(out[1]).__name__))

    def account_round(self, F, args):
        ctx = self.ctx
        x, d = args
        pos = R.grid_position(x, d)
        cls = {'multiple': 'multiple', 'tie': 'tie'}.get(pos, 'other')
        if cls == 'other':
            if abs(2 * R.grid_fraction(x, d) - 1) <= Fraction(1, 5):
                cls = 'near-tie'
        ctx.count('round:' + cls)
        if cls == 'tie':
            ctx.count('round:tie:digits' + ('<0' if d < 0 else '=0' if d == 0 else '>0'))
        ctx.count('round:digits' + ('<0' if d < 0 else '=0' if d == 0 else '>0'))
        if F != 'ROUND':
            ctx.count('round:bracket-checked')
        if pos == 'multiple':
            ctx.count('round:fixpoint-checked')

    def account_family(self, F, args):
        ctx = self.ctx
        x, s = args[0], args[1]
        qs, qx = R.frac(s), R.frac(x)
        if qs == 0:
            ctx.count('family:significance-0')
            return
        if (qx / qs).denominator == 1:
            ctx.count('family:exact-multiple')
        if not R.dyadic(s):
            ctx.count('family:non-dyadic-significance')
        if qx * qs < 0:
            ctx.count('family:mixed-signs')
        elif qx < 0:
            ctx.count('family:both-negative')
        if len(args) > 2 and args[2]:
            ctx.count('family:mode-nonzero')
        if R.near_multiple(x, s) is not None:
            ctx.count('family:near-multiple-either-accepted')

    def account_mod(self, args):
        ctx = self.ctx
        n, d = args
        if R.frac(d) == 0:
            ctx.count('mod:div0')
            return
        ctx.count('mod:identity-checked')
        ctx.count('mod:sign-checked')
        if (R.frac(n) / R.frac(d)).denominator == 1:
            ctx.count('mod:exact-multiple')
        if not R.dyadic(d):
            ctx.count('mod:non-dyadic-divisor')
        if d < 0:
            ctx.count('mod:negative-divisor')
        if len(R.mod_quotients(n, d)) > 1:
            ctx.count('mod:INT-readings-differ')

    # ---- the same calls as formulas in a workbook
    def flush(self):
        batch, self.pending = self.pending, []
        if batch:
            formula_batch(self.ctx, batch)


def formula_text(F, args, row, by_ref):
    """(formula, {coord: value}) for one call; numbers go through cells when by_ref, a blank
    argument is always a reference to an empty cell"""
    cells, parts = {}, []
    for i, a in enumerate(args):
        if a is None or (by_ref and R.is_num(a)):
            c = f'{"ABC"[i]}{row}'
            if a is not None:
                cells[c] = a
            parts.append(c)
        else:
            parts.append(lib.excel_literal(a))
    # (Excel stores the newer functions with a prefix in the file: =_xlfn.CEILING.MATH(...))
    name = f'_xlfn.{F}' if row % 3 == 0 and '.' in F else F
    return f'={name}({",".join(parts)})', cells


def formula_batch(ctx, batch, by_ref=None):
    """evaluate the calls as formulas D<row> of one in-memory workbook; the outcome must be the one
    the wrapper gave"""
    cells, rows = {}, []
    for i, (F, args, out) in enumerate(batch):
        row = i + 1
        ref = (row % 2 == 0) if by_ref is None else by_ref
        text, inputs = formula_text(F, args, row, ref)
        cells.update(inputs)
        cells[f'D{row}'] = text
        rows.append((row, F, args, out, text, ref))
    spec = {'sheets': [['Sheet1', cells]], 'names': {}, 'arrays': [], 'calc': None}
    comp = wb.compile_mem(spec)
    for row, F, args, out, text, ref in rows:
        try:
            got = ('v', comp.evaluate(f'Sheet1!D{row}'))
        except Exception as exc:  # noqa  (an exception out of evaluate is an observation)
            got = ('x', f'{type(exc).__name__}: {str(exc).strip()[:160]}')
        ctx.count('formula:compared')
        ctx.count('formula:by-ref' if ref else 'formula:literal')
        ctx.case(nontrivial=False)
        same = (got[0] == out[0] == 'x') or (
            got[0] == out[0] == 'v' and wb.norm(got[1]) == wb.norm(out[1]))
        if not same:
            ctx.violation(f'{F}/formula-differs-from-wrapper',
                          f'{text} with {args!r} evaluates to {got!r}, the library wrapper gave {out!r}',
                          {'f': F, 'args': args, 'via': 'formula', 'by_ref': ref})


# =========================================================================== workloads

def dec(k, j):
    """the double (or int) for the decimal k/10^j"""
    return k if j == 0 else k / 10 ** j


def num(q):
    """the int or the nearest double for an exact rational"""
    return q.numerator if q.denominator == 1 else q.numerator / q.denominator


class Shard:
    """partition of the deterministic enumerations: item i belongs to shard i % nshards"""
    def __init__(self, ctx):
        self.ctx, self.i = ctx, 0

    def take(self):
        self.i += 1
        return self.ctx.mine(self.i)


def ties(mon, part, size, offset):
    """every exact tie of every digit position (k/10^j in the domain), with near-ties"""
    stride = size['tie_stride']
    for d in range(-6, 6):
        j = max(d + 1, 0)
        mult = 5 * 10 ** (j - d - 1)
        mmax = (10 ** 6 // mult - 1) // 2
        step = stride if mmax >= 5000 else 1      # the few ties of digits <= -3: always all of them
        for m in range(offset % step, mmax + 1, step):
            if not part.take():
                continue
            k = (2 * m + 1) * mult
            variants = [(k, j)]
            if j + 1 <= 6:
                variants += [(10 * k - 1, j + 1), (10 * k + 1, j + 1)]
            if j + 1 < 6:
                variants += [(k * 10 ** (6 - j) - 1, 6), (k * 10 ** (6 - j) + 1, 6)]
            for kk, jj in variants:
                for sgn in (1, -1):
                    x = dec(sgn * kk, jj)
                    if jj == 0 and m % 2:
                        x = float(x)
                    for F in ROUNDERS:
                        mon.observe(F, (x, d))


def multiples(mon, part, size, offset):
    """exact multiples: x = k/10^d with digits d (d >= 0), x = m*10^-d (d < 0)"""
    stride = size['mult_stride']
    for d in range(-6, 7):
        j = max(d, 0)
        step = 10 ** max(-d, 0)
        for m in range(offset % stride, 10 ** 6 // step + 1, stride):
            if not part.take():
                continue
            for sgn in (1, -1):
                x = dec(sgn * m * step, j)
                for F in ROUNDERS:
                    mon.observe(F, (x, d))
                # one digit position further out / further in as well
                mon.observe('ROUND', (x, d - 1) if d > -6 else (x, d))
                mon.observe('TRUNC', (x, d + 1) if d < 6 else (x, d))


def m_values(dense, sparse, offset, limit):
    """multipliers 0..dense completely, then ``sparse`` more spread up to ``limit``"""
    out = list(range(0, min(dense, limit) + 1))
    if limit > dense and sparse:
        step = max(1, (limit - dense) // sparse)
        out += list(range(dense + 1 + offset % step, limit + 1, step))
    return out


def family_calls(mon, x, s):
    mon.observe('CEILING', (x, s))
    mon.observe('FLOOR', (x, s))
    for mode in (0, 1):
        mon.observe('CEILING.MATH', (x, s, mode))
        mon.observe('FLOOR.MATH', (x, s, mode))
    mon.observe('CEILING.PRECISE', (x, s))
    mon.observe('FLOOR.PRECISE', (x, s))


def family(mon, part, size, offset):
    """exact multiples m*s of every significance of the pool and their neighbours +-10^-6"""
    eps = Fraction(1, 10 ** 6)
    for s in SIGS:
        qs = R.frac(s)
        if qs == 0:
            for k in range(-30, 31):
                if part.take():
                    family_calls(mon, dec(k * 25, 1), 0)
            continue
        limit = int(10 ** 6 / abs(qs)) if abs(qs) >= 1 else int(min(10 ** 6, 10 ** 6 / abs(qs) / 100))
        for m in m_values(size['fam_m_dense'], size['fam_m_sparse'], offset, limit):
            if not part.take():
                continue
            base = m * abs(qs)
            for q in (base, base - eps, base + eps):
                for sgn in (1, -1):
                    if q == 0 and sgn < 0:
                        continue
                    family_calls(mon, num(sgn * q), s)


def mods(mon, part, size, offset):
    eps = Fraction(1, 10 ** 6)
    for dv in DIVISORS:
        qd = R.frac(dv)
        limit = int(10 ** 6 / qd) if qd >= 1 else int(min(10 ** 6, 10 ** 6 / qd / 100))
        for m in m_values(size['mod_m_dense'], size['mod_m_sparse'], offset, limit):
            if not part.take():
                continue
            base = m * qd
            for q in (base, base - eps, base + eps, base + qd / 2):
                for sn in (1, -1):
                    for sd in (1, -1):
                        mon.observe('MOD', (num(sn * q), sd * dv))
    for k in range(-40, 41):
        if part.take():
            mon.observe('MOD', (dec(k * 25, 1), 0))
            mon.observe('MOD', (k, 0.0))


def ints(mon, part, size, offset):
    """INT / EVEN / ODD on integers, their neighbours at every decimal place, and k/10^j"""
    ms = m_values(size['int_dense'], size['int_sparse'], offset, 10 ** 6)
    for m in ms:
        if not part.take():
            continue
        xs = [m, float(m)]
        for j in range(1, 7):
            if m * 10 ** j + 1 <= 10 ** 12:
                xs += [dec(m * 10 ** j + 1, j), dec(m * 10 ** j - 1, j)]
        xs.append(dec(m * 10 + 5, 1))
        for x in xs:
            for v in (x, -x):
                for F in ('INT', 'EVEN', 'ODD'):
                    mon.observe(F, (v,))


def in_bounds(F, args):
    """digit counts stay within -6..6 also when they arrive as numeric text"""
    if F in ROUNDERS and len(args) > 1:
        d = R.coerce(args[1])
        return isinstance(d, str) or -6 <= d <= 6
    return True


def coercions(mon, part):
    """numeric text, logicals, blanks, text and error values in every argument position"""
    numbers = (2.5, -2.5, 25, 0.29, 0, 1234.5678)
    seconds = {'MOD': (0.1, 3, -2), 'CEILING': (0.1, 2, -2), 'FLOOR': (0.1, 2, -2)}
    for F, (_, lo, hi) in FUNCS.items():
        for arity in range(lo, hi + 1):
            base2 = seconds.get(F, (2, -1, 0) if F in ROUNDERS else (0.1, 2, -1))
            for pos in range(arity):
                for special in ARG_POOL:
                    for x in numbers[:3]:
                        for y in base2[:2]:
                            if not part.take():
                                continue
                            args = [x, y, 1][:arity]
                            args[pos] = special
                            if in_bounds(F, args):
                                mon.observe(F, args)
            # two special arguments at once
            if arity >= 2:
                for a in ARG_POOL:
                    for b in ARG_POOL:
                        if not part.take():
                            continue
                        args = [a, b, 0][:arity]
                        if in_bounds(F, args):
                            mon.observe(F, args)
            # omitted optional arguments with plain numbers
            for x in numbers:
                for y in base2:
                    if part.take():
                        mon.observe(F, [x, y, 1][:arity])


def numpy_numbers(mon, part):
    """the same numbers as numpy.float64 (what SLOPE, FORECAST ... hand to ROUND / FLOOR in a workbook): a float of
    a subclass is the float it holds"""
    import numpy as np
    numbers = (2.55, -2.5, 0.3, 1234.5678, 0.125, 25.0, -0.29, 7.5)
    for F, (_, lo, hi) in FUNCS.items():
        for arity in range(lo, hi + 1):
            second = (0.1, 2, -2) if F in ('MOD', 'CEILING', 'FLOOR') else (2, -1, 0) if F in ROUNDERS else (0.1, 2, -1)
            for x in numbers:
                for y in second:
                    if not part.take():
                        continue
                    args = [np.float64(x), y, 1][:arity]
                    if in_bounds(F, args):
                        mon.ctx.count('numpy-float-args')
                        mon.observe(F, args)
                    if arity >= 2 and isinstance(y, float):
                        args = [x, np.float64(y), 1][:arity]
                        if in_bounds(F, args):
                            mon.ctx.count('numpy-float-args')
                            mon.observe(F, args)


FAR_DIGITS = [(1.26e-25, 26), (1.5e-30, 31), (1.26e25, -24), (1.25e-24, 25), (3.5e23, -23), (2.5e-23, 23), (7.77e24, -23),
              (-1.26e-25, 26), (-3.5e23, -23), (4.4e-27, 27), (9.99e-26, 27),
              # more digits asked for than the number has: it is a multiple already
              (123.456, 25), (1e20, 10), (1.5e10, 20), (1e15 + 0.5, 12), (-1e20, 10), (2.5, 30), (1e22, 7), (12345678.5, 23)]


def far_digits(mon, part):
    """digits beyond the powers of ten a double holds exactly (|d| > 22) on numbers of that magnitude, and more digits
    than the number has (the quantum is finer than its last digit)"""
    for F in sorted(ROUNDERS):
        for x, d in FAR_DIGITS:
            if part.take():
                mon.ctx.count('round:far-digits')
                mon.observe(F, [x, d])


# ---- seeded samples

def sample_decimal(rng):
    j = rng.randrange(0, 7)
    r = rng.random()
    if r < 0.3:
        k = rng.randint(-10 ** 6, 10 ** 6)
    elif r < 0.6:
        k = rng.randint(-10 ** 4, 10 ** 4)
    else:
        k = rng.randint(-300, 300)
    x = dec(k, j)
    if j == 0 and rng.random() < 0.5:
        x = float(x)
    return x


def sample_binary(rng):
    r = rng.random()
    if r < 0.2:
        return rng.uniform(-10 ** 6, 10 ** 6)
    if r < 0.35:
        return rng.uniform(-10, 10)
    if r < 0.6:
        x = float(sample_decimal(rng)) or 0.5
        for _ in range(rng.randint(1, 3)):
            x = math.nextafter(x, rng.choice((-math.inf, math.inf)))
        return x
    if r < 0.8:
        return rng.choice((0.1, 0.01, 0.3, 0.7, 1.1, 0.2, 0.05, 0.001)) * rng.randint(-3000, 3000)
    if r < 0.9:
        a = rng.randint(-5000, 5000) / 10 ** rng.randint(1, 3)
        b = rng.randint(-5000, 5000) / 10 ** rng.randint(1, 3)
        return a + b
    # a tie of some digit position moved by one ulp
    d = rng.randint(0, 5)
    x = (2 * rng.randint(0, 2000) + 1) * 5 / 10 ** (d + 1)
    return rng.choice((-1, 1)) * math.nextafter(x, rng.choice((-math.inf, math.inf)))


def sample_number(rng):
    return sample_binary(rng) if rng.random() < 0.35 else sample_decimal(rng)


def sample_significance(rng):
    r = rng.random()
    if r < 0.75:
        return rng.choice(SIGS)
    if r < 0.9:
        return rng.choice((-1, 1)) * rng.choice(DIVISORS)
    return dec(rng.randint(1, 999), rng.randint(0, 3)) * rng.choice((-1, 1))


def one_sample(mon, rng):
    r = rng.random()
    if r < 0.40:
        x, d = sample_number(rng), rng.randint(-6, 6)
        F = rng.choice(('ROUND', 'ROUNDUP', 'ROUNDDOWN', 'TRUNC'))
        mon.observe(F, (x, d), sig=True)
    elif r < 0.45:
        mon.observe('TRUNC', (sample_number(rng),), sig=True)
    elif r < 0.65:
        F = rng.choice(FAMILY)
        x, s = sample_number(rng), sample_significance(rng)
        if rng.random() < 0.15:
            x = num(rng.randint(-5000, 5000) * abs(R.frac(s))) if s else x
        args = [x, s]
        if F.endswith('.MATH'):
            if rng.random() < 0.6:
                args.append(rng.choice((0, 1, -1, 2)))
            elif rng.random() < 0.2:
                args = [x]
        elif F.endswith('.PRECISE') and rng.random() < 0.1:
            args = [x]
        mon.observe(F, args, sig=True)
    elif r < 0.85:
        n = sample_number(rng)
        d = sample_significance(rng) if rng.random() < 0.7 else sample_number(rng)
        if d and rng.random() < 0.2:
            n = num(rng.randint(-5000, 5000) * abs(R.frac(d)))
        mon.observe('MOD', (n, d), sig=True)
    else:
        x = sample_number(rng)
        if rng.random() < 0.3:
            x = float(rng.randint(-1000, 1000)) or 1.0
            for _ in range(rng.randint(0, 2)):
                x = math.nextafter(x, rng.choice((-math.inf, math.inf)))
        mon.observe(rng.choice(('INT', 'EVEN', 'ODD')), (x,), sig=True)


def run(ctx):
    size = SIZES[ctx.tier]
    mon = Monitor(ctx)
    part = Shard(ctx)
    rng = ctx.rng
    offset = ctx.seed * 7919 + 3
    # every part below has a fixed size (floors do not depend on the clock) ...
    family(mon, part, size, offset)
    mods(mon, part, size, offset)
    ints(mon, part, size, offset)
    multiples(mon, part, size, offset)
    ties(mon, part, size, offset)
    for _ in range(size['random'] // ctx.nshards):
        one_sample(mon, rng)
    coercions(mon, part)
    numpy_numbers(mon, part)
    far_digits(mon, part)
    mon.flush()
    # ... and what is left of the budget goes into more samples
    n = 0
    while not ctx.out_of_time():
        one_sample(mon, rng)
        n += 1
    ctx.count('samples-in-remaining-budget', n)
    mon.flush()


def replay(ctx, case):
    F, args = case['f'], list(case['args'])
    mon = Monitor(ctx)
    out = mon.observe(F, args)
    if case.get('via') == 'formula':
        formula_batch(ctx, [(F, args, out)], by_ref=bool(case.get('by_ref')))
