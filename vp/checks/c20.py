"""C20 - text functions: slicing partitions, search is first-match, TEXT is decimal-exact.

Library-level sweep through the real ``apply_meta`` wrappers (``vp.lib.fn``: exactly what a formula's
namespace holds) and the real ``&`` operator (``vp.lib.operator_fixup``), every result compared with
the small reference model ``vp.refmodel.text`` (python slicing on the Excel rendering of the argument,
explicit scans for FIND / SUBSTITUTE, ``decimal`` ROUND_HALF_UP for TEXT).  About 1 % of all library
calls (chosen by a hash of the call, not by the RNG) are repeated as a formula in a one-cell workbook
through ``ExcelCompiler.evaluate`` and must give the same outcome as the direct call.

Clauses and how they are decided ("laws"; one recorded case = one law instance):

slice   LEFT(s,n), RIGHT(s,n), LEN(s), MID(s,n+1,LEN(s)) against the model, and the identity
        LEFT(s,n) & MID(s,n+1,LEN(s)) = s computed by pycel alone (its LEFT, MID, LEN and &).
mid     MID(s,n,k) and REPLACE(s,n,k,t) against the model, and the identity
        REPLACE(s,n,k,t) = LEFT(s,n-1) & t & MID(s,n+k,LEN(s)) computed by pycel alone.
find    FIND(f,s[,start]) = first p >= start with MID(s,p,LEN(f)) = f, else #VALUE!.
sub     SUBSTITUTE(s,old,new[,i]): all / exactly the i-th occurrence.
case    TRIM against the model; UPPER / LOWER / TRIM idempotent.
exact   EXACT(a,b) <=> the two texts are identical (case-sensitive).
concat  CONCATENATE(a,b,...) and a & b & ... agree (same value, same error); for text operands both are
        the plain concatenation.
text    TEXT(x,f) for f from the narrow grammar [#,]*0+(.0+#*)?%? = half-away-from-zero decimal rounding
        of Decimal(repr(x)) (times 100 for %) with forced/optional digits and thousands grouping.
error   an error value in any argument position comes back as the result; nothing raises.

Mechanism keys are predicates over the failing case: ``<FUNC>/raises-<Exception>``; for a wrong value
first "is it what the model gives when numbers are written the way python's str() writes them" (->
NUMBER-RENDERING/float-below-1e-4-in-exponent-notation | integral-float-keeps-.0 | python-str, one key for
all functions: they share the coercion), else a per-function predicate over the arguments (negative count,
start below 1, zero count, at-or-beyond-the-end, interior; FIND: start-below-1, start-beyond-length,
empty-needle, no-match-not-VALUE, match-missed, not-the-first-match; SUBSTITUTE: all-occurrences,
ith-occurrence, instance-...; TRIM: keeps-leading-trailing, keeps-inner-runs; TEXT: grouping, sign,
optional-digits, forced-integer-digits, half-even-or-binary-rounding, percent-scaling; ...).

Deliberately permissive (the statement is silent or can be read two ways):
* FIND with an empty needle and start > LEN(s): `start` and #VALUE! are both accepted.
* FIND where an exact and a case-insensitive reading of "MID(s,p,LEN(f)) = f" give different first
  positions (only possible in the sampled part, whose alphabet has a/A, b/B, e-acute pairs): both
  accepted.  The exhaustive alphabet has no case pairs.
* FIND with start < 1 must be #VALUE! (DESIGN section 5; Excel documents it; MID does the same).
* SUBSTITUTE is only run with non-empty needles that cannot overlap themselves; instance < 1 may give
  #VALUE! or the unchanged text.
* UPPER / LOWER are only required to be idempotent (that is all the statement says); that the runs
  exercise inputs UPPER / LOWER actually change is a coverage floor, not a verdict.
* CONCATENATE / & with number operands only have to agree with each other (the rendering clause of the
  statement names the slicing functions); EXACT on non-text operands is only required to be reflexive.
* TEXT of a negative number that rounds to zero may or may not show the minus sign.
* Several error arguments: any of them may be the result (for CONCATENATE vs & the two must still agree).
* positions / counts are integers (as int and as integer-valued float); fractional positions, numeric
  text or logicals as positions are outside the statement and not generated.
* numbers are k/10^j with 0 or 1e-6 <= |x| <= 1e6 and <= 15 significant digits: the range in which the
  Excel rendering is plain positional notation.
* LEN of a text / logical / blank is exact.  LEN of a *number* only has to be at least the length of its
  Excel rendering (that is what MID(s,n+1,LEN(s)) in the identities needs): "the slicing functions ...
  give #VALUE! for negative counts" are the functions with counts, LEN is not one of them, so a LEN
  that counts "3.0" for 6/2 is counted under ``observed:LEN-of-number-longer-than-its-rendering`` and
  reported, not alarmed on (the repository's own suite pins LEN(3.0) = 3).  STRICT_LEN_OF_NUMBERS = True
  switches to the strict reading.
"""
import itertools
import re

from vp import core, lib, wb
from vp.refmodel import text as R

PROP = 'C20'
LEVEL = 'exploration'
RULE = ('exhaustive: every string of length <= 3 (quick) / <= 4 (thorough) over the alphabet {a, b, space, '
        'e-acute, CJK} x every n, k in -1..10 for LEFT/RIGHT/MID/REPLACE (3 replacement texts), x every needle '
        'of length <= 2 x start in {default, -1..10} for FIND, x every non-self-overlapping needle of length '
        '<= 2 x 3 new texts x instance in {none, -1..5} for SUBSTITUTE, TRIM/UPPER/LOWER (also every string '
        'of length 4..5 over {a, space, E-acute}), EXACT partners, CONCATENATE vs &; ~180 numbers k/10^j '
        '(int, integral float, fraction, below 1e-4), TRUE/FALSE and blank as the sliced argument; TEXT over 160 formats of the grammar [#,]*0+(.0+#*)?%? x k/10^j '
        '(k <= 330 quick / 1300 thorough + boundary mantissas, j <= 4 / 5, both signs, every exact tie '
        'included); every error code in every argument position; then seeded random strings of length '
        '1..8 over an 11-symbol alphabet with case pairs and digits. One case = one law instance checked '
        'against the reference model; non-trivial = the subject renders to a non-empty text (TEXT: always); '
        'distinct = enumeration index (exhaustive) or (law, arguments) (sampled).')
BUDGET = {'quick': 12, 'thorough': 150}
EXHAUSTIVE = {'quick': False, 'thorough': False}
ASSUMPTIONS = [
    'Excel is not available: "Excel rendering" of a number k/10^j in [1e-6, 1e6] is its positional decimal '
    'notation without trailing zeros or ".0" (General format), TRUE/FALSE for logicals, "" for blank',
    'positions and counts are integers; the LC_NUMERIC locale of the check process is C',
    'SUBSTITUTE needles are non-empty and cannot overlap themselves; occurrences are exact (case-sensitive)',
]

ALPHA = ['a', 'b', ' ', 'é', '日']
XALPHA = ['a', 'b', 'A', 'B', ' ', ' ', 'é', 'É', '日', '1', '0', '.']
TRIM_ALPHA = ['a', ' ', 'É']             # TRIM / UPPER / LOWER additionally over every string of length 4..5
OTHER_WS_ALPHA = ['a', ' ', '\t', '\n', '\xa0', '\u3000', '\u2003']
POS = list(range(-1, 11))
TS = ['', 'X', 'é日']                 # replacement texts
TS_MIXED = ['X', 3.0, True, 0.5]
NEWS = ['', 'Z', 'ab']
INSTANCES = [None, -1, 0, 1, 2, 3, 4, 5]
XL = {'left': 'LEFT', 'mid': 'MID', 'right': 'RIGHT', 'len_': 'LEN', 'replace': 'REPLACE', 'find': 'FIND',
      'substitute': 'SUBSTITUTE', 'concatenate': 'CONCATENATE', 'trim': 'TRIM', 'upper': 'UPPER',
      'lower': 'LOWER', 'exact': 'EXACT', 'text': 'TEXT', '&': '&'}
TIE_MOD = 101
STRICT_LEN_OF_NUMBERS = False     # True: LEN(number) must be exactly the length of its Excel rendering

# every floor is reached by the exhaustive part alone (which always runs to completion, whatever the seed,
# the shard count or the load); the values are ~85 % of what that part produces on the unchanged tree
FLOORS = {
    'quick': {
        'law:slice': 5400, 'law:mid': 42000, 'law:find': 68000, 'law:sub': 83000, 'law:case': 2500,
        'law:exact': 1380, 'law:concat': 3600, 'law:text': 470000, 'law:error': 290,
        'identity:left&mid': 5000, 'identity:replace': 32000,
        'FIND:found': 6800, 'FIND:not-found': 62000, 'FIND:start<1': 10000, 'FIND:start>len': 34000,
        'FIND:match-after-start': 3400, 'FIND:several-matches': 760,
        'SUB:all': 11500, 'SUB:all-several-occurrences': 260, 'SUB:ith-replaced': 2400, 'SUB:ith-of-several': 540,
        'SUB:ith-beyond-count': 49000,
        'TRIM:input-with-outer-space': 200, 'TRIM:input-with-inner-run': 27, 'TRIM:other-white-space': 2000, 'UPPER:changed': 360,
        'LOWER:changed': 250, 'EXACT:true': 290, 'EXACT:case-only-difference': 240,
        'TEXT:tie': 6300, 'TEXT:grouped-with-separator': 43000, 'TEXT:percent': 235000, 'TEXT:negative': 230000,
        'TEXT:optional-digits': 176000,
        'subject:integral-float': 26000, 'subject:float': 380000, 'subject:float-below-1e-4': 3700,
        'subject:logical': 680, 'subject:blank': 360, 'negative-count': 3900, 'start<1': 7000,
        'eval_ties': 9000,
    },
    'thorough': {
        'law:slice': 11800, 'law:mid': 118000, 'law:find': 282000, 'law:sub': 400000, 'law:case': 3000,
        'law:exact': 6600, 'law:concat': 10500, 'law:text': 2160000, 'law:error': 290,
        'identity:left&mid': 10800, 'identity:replace': 90000,
        'FIND:found': 23000, 'FIND:not-found': 259000, 'FIND:start<1': 43000, 'FIND:start>len': 133000,
        'FIND:match-after-start': 9100, 'FIND:several-matches': 2900,
        'SUB:all': 51000, 'SUB:all-several-occurrences': 1750, 'SUB:ith-replaced': 12500, 'SUB:ith-of-several': 3700,
        'SUB:ith-beyond-count': 238000,
        'TRIM:input-with-outer-space': 390, 'TRIM:input-with-inner-run': 40, 'TRIM:other-white-space': 2000, 'UPPER:changed': 880,
        'LOWER:changed': 250, 'EXACT:true': 820, 'EXACT:case-only-difference': 1350,
        'TEXT:tie': 30000, 'TEXT:grouped-with-separator': 223000, 'TEXT:percent': 1080000,
        'TEXT:negative': 1069000, 'TEXT:optional-digits': 811000,
        'subject:integral-float': 74000, 'subject:float': 1760000, 'subject:float-below-1e-4': 6100,
        'subject:logical': 680, 'subject:blank': 360, 'negative-count': 10800, 'start<1': 19700,
        'eval_ties': 38000,
    },
}


# --------------------------------------------------------------------------- monitor

def _same(got, want):
    """type-strict: a text is a text, a position is a (non-logical) number, a logical is a logical"""
    if isinstance(want, bool):
        return type(got).__name__ in ('bool', 'bool_') and bool(got) == want
    if isinstance(want, str):
        return isinstance(got, str) and got == want
    return (not isinstance(got, (bool, str)) and isinstance(got, (int, float)) and got == want)


RENDERING_MODES = (
    ('exp', 'NUMBER-RENDERING/float-below-1e-4-in-exponent-notation'),
    ('dot0', 'NUMBER-RENDERING/integral-float-keeps-.0'),
    ('both', 'NUMBER-RENDERING/python-str'),
)


def py_str(mode):
    """-> converter: what python's str() makes of a number (1e-05 / 3.0), the renderings the statement rules
    out.  Only used to *name* a mechanism after a comparison has failed (got == the model fed with it)"""
    def conv(v):
        k = R.kind(v)
        if (k == 'float-below-1e-4' and mode in ('exp', 'both')) or \
                (k == 'integral-float' and mode in ('dot0', 'both')) or (k == 'float' and mode == 'both'):
            return str(v)
        return v
    return conv


def _exc_class(out):
    return out[1].split(':', 1)[0]


class Mon:
    """one law instance: calls into pycel, comparisons, violations with the recorded case"""

    def __init__(self, ctx, law, params, force=False):
        self.ctx, self.law, self.params, self.force = ctx, law, params, force
        self.case = {'law': law, 'p': params}
        self.compares = 0
        self.last = None
        ctx.count('law:' + law)

    # -- calling pycel
    def call(self, name, *args):
        out = lib.call(name, *args)
        self.ctx.count('calls:' + XL[name])
        self.tie(name, args, out)
        return out

    def amp(self, a, b):
        try:
            out = ('v', lib.operator_fixup()(a, 'BitAnd', b))
        except Exception as exc:  # noqa
            out = ('x', f'{type(exc).__name__}: {str(exc)[:120]}')
        self.ctx.count('calls:&')
        self.tie('&', (a, b), out)
        return out

    def tie(self, name, args, direct):
        """~1 %: the same call as a formula of a one-cell workbook through ExcelCompiler.evaluate"""
        h = core.h64(repr((name, args)))
        if not (self.force or h % TIE_MOD == 0):
            return
        literal = (h // TIE_MOD) % 2 == 0 and all(a is not None for a in args)
        cells = {}
        if literal:
            refs = [lib.excel_literal(a) for a in args]
        else:
            refs = []
            for i, a in enumerate(args):
                c = f'{chr(65 + i)}1'
                refs.append(c)
                if a is not None:
                    cells[c] = a
        formula = ('=' + '&'.join(refs)) if name == '&' else f'={XL[name]}({",".join(refs)})'
        got = lib.eval_formula(formula, cells=cells)
        self.ctx.count('eval_ties')
        self.ctx.count('eval_ties:' + ('literal' if literal else 'cells'))
        ok = (got[0] == direct[0] == 'x') or (got[0] == direct[0] == 'v' and wb.same(got[1], direct[1]))
        if not ok:
            self.ctx.violation(
                f'evaluate/differs-from-library-call/{XL[name]}',
                f'{formula} with {cells} evaluates to {got!r} but the wrapped library function called with '
                f'{args!r} gives {direct!r}', self.case)

    # -- deciding
    def expect(self, func, args, out, accept, clause, specific, alt=None):
        """out must be a value from ``accept``; ``specific`` -> mechanism key for a wrong value;
        ``alt`` -> what the model gives when numbers are rendered by python's str() (names that mechanism)"""
        self.compares += 1
        if not isinstance(accept, tuple):
            accept = (accept,)
        self.last = {'call': f'{func}{tuple(args)!r}', 'pycel': out[1], 'model accepts': list(accept)}
        if out[0] == 'v' and any(_same(out[1], w) for w in accept):
            return True
        if out[0] == 'x':
            key = f'{func}/raises-{_exc_class(out)}'
        else:
            key = None
            if alt is not None and any(R.kind(x) in ('float-below-1e-4', 'integral-float') for x in args):
                for mode, mode_key in RENDERING_MODES:
                    a = alt(py_str(mode))
                    a = a if isinstance(a, tuple) else (a,)
                    if any(_same(out[1], w) for w in a):
                        key = mode_key
                        break
            if key is None:
                key = specific(out[1])
        want = ' or '.join(repr(w) for w in accept)
        self.ctx.violation(key, f'{func}({", ".join(repr(a) for a in args)}) = {out[1]!r}, expected {want} '
                                f'[{clause}]', self.case)
        return False

    def done(self, subject, sig=None, nontrivial=None):
        seen = self.ctx.__dict__.setdefault('_c20_sampled_laws', set())
        if self.law not in seen and self.last and core.h64(repr(self.params)) % 7 == 0 and nontrivial is None and (
                R.is_error(subject) or len(R.render(subject)) >= 3):
            seen.add(self.law)
            self.ctx.sample({'law': self.law, 'arguments': self.params, 'last comparison': self.last})
        if nontrivial is None:
            nontrivial = subject is not None and R.render(subject) != ''
        self.ctx.count('subject:' + R.kind(subject))
        self.ctx.case(sig, nontrivial=nontrivial, n=max(1, self.compares))
        self.ctx.count('compares', self.compares)


def _slice_key(func, subject, count_args, start=None):
    """mechanism key for a wrong LEFT / RIGHT / MID / REPLACE value (a predicate over the inputs)"""
    def key(got):
        if any(c < 0 for c in count_args):
            return f'{func}/negative-count-not-VALUE'
        if start is not None and start < 1:
            return f'{func}/start-below-1-not-VALUE'
        n = R.length(subject)
        if any(c == 0 for c in count_args):
            return f'{func}/zero-count'
        if (start is not None and start > n) or (start is None and count_args and count_args[0] >= n):
            return f'{func}/at-or-beyond-the-end'
        return f'{func}/interior'
    return key


def _is_int_value(v):
    return not isinstance(v, (bool, str)) and isinstance(v, (int, float)) and float(v).is_integer()


# --------------------------------------------------------------------------- laws

def law_slice(ctx, s, n, force=False, sig=None):
    m = Mon(ctx, 'slice', {'s': s, 'n': n}, force)
    ni = int(n)
    if ni < 0:
        ctx.count('negative-count')
    cl = 'the slicing functions treat numbers as their Excel rendering and give #VALUE! for negative counts'
    lf = m.call('left', s, n)
    ok_l = m.expect('LEFT', (s, n), lf, R.left(s, ni), 'LEFT(s,n) is the first n characters; ' + cl,
                    _slice_key('LEFT', s, [ni]), alt=lambda P: R.left(P(s), ni))
    rt = m.call('right', s, n)
    m.expect('RIGHT', (s, n), rt, R.right(s, ni), 'RIGHT(s,k) is the last k characters; ' + cl,
             _slice_key('RIGHT', s, [ni]), alt=lambda P: R.right(P(s), ni))
    ln = m.call('len_', s)
    numeric = R.kind(s) in ('int', 'integral-float', 'float', 'float-below-1e-4')
    if (numeric and not STRICT_LEN_OF_NUMBERS and ln[0] == 'v' and _is_int_value(ln[1])
            and ln[1] >= R.length(s)):
        # the statement only uses LEN(s) as "at least the rest of s" and names LEFT/RIGHT/MID/REPLACE (the
        # functions with counts) for the rendering of numbers: a longer LEN of a number is only observed
        m.compares += 1
        ctx.count('LEN:number-exact' if ln[1] == R.length(s) else 'observed:LEN-of-number-longer-than-its-rendering')
    else:
        m.expect('LEN', (s,), ln, R.length(s), 'LEN(s) is the number of characters of s (at least the rest of s in '
                 'MID(s,n+1,LEN(s)))',
                 lambda got: 'LEN/' + R.kind(s), alt=lambda P: R.length(P(s)))
    cnt = ln[1] if ln[0] == 'v' and _is_int_value(ln[1]) and ln[1] >= 0 else R.length(s)
    md = m.call('mid', s, n + 1, cnt)
    ok_m = m.expect('MID', (s, n + 1, cnt), md, R.mid(s, ni + 1, int(cnt)), 'MID(s,n+1,LEN(s)) is the rest after n '
                    'characters; ' + cl, _slice_key('MID', s, [int(cnt)], start=ni + 1),
                    alt=lambda P: R.mid(P(s), ni + 1, int(cnt)))
    if ni >= 0 and lf[0] == md[0] == 'v' and not R.is_error(lf[1]) and not R.is_error(md[1]):
        ctx.count('identity:left&mid')
        j = m.amp(lf[1], md[1])
        if ok_l and ok_m:
            m.expect('LEFT&MID', (s, n), j, R.render(s), 'LEFT(s,n) & MID(s,n+1,LEN(s)) = s',
                     lambda got: '&/not-the-concatenation-of-two-texts')
    if ni == 1:
        ctx.count('default-count')
        m.expect('LEFT', (s,), m.call('left', s), R.left(s, 1), 'LEFT(s) = LEFT(s,1)',
                 lambda got: 'LEFT/default-count', alt=lambda P: R.left(P(s), 1))
        m.expect('RIGHT', (s,), m.call('right', s), R.right(s, 1), 'RIGHT(s) = RIGHT(s,1)',
                 lambda got: 'RIGHT/default-count', alt=lambda P: R.right(P(s), 1))
    m.done(s, sig)


def law_mid(ctx, s, n, k, ts, force=False, sig=None):
    m = Mon(ctx, 'mid', {'s': s, 'n': n, 'k': k, 'ts': ts}, force)
    ni, ki = int(n), int(k)
    if ki < 0:
        ctx.count('negative-count')
    if ni < 1:
        ctx.count('start<1')
    cl = 'negative counts give #VALUE!; numbers are sliced as their Excel rendering'
    m.expect('MID', (s, n, k), m.call('mid', s, n, k), R.mid(s, ni, ki), 'MID(s,n,k) is k characters from '
             'position n; ' + cl, _slice_key('MID', s, [ki], start=ni), alt=lambda P: R.mid(P(s), ni, ki))
    for i, t in enumerate(ts):
        rp = m.call('replace', s, n, k, t)
        ok = m.expect('REPLACE', (s, n, k, t), rp, R.replace(s, ni, ki, t),
                      'REPLACE(s,n,k,t) = LEFT(s,n-1) & t & MID(s,n+k,LEN(s)); ' + cl,
                      _slice_key('REPLACE', s, [ki], start=ni),
                      alt=lambda P, t=t: R.replace(P(s), ni, ki, P(t)))
        if i == 0 and ni >= 1 and ki >= 0 and rp[0] == 'v':
            # the identity computed by pycel alone
            ctx.count('identity:replace')
            ln = m.call('len_', s)
            cnt = ln[1] if ln[0] == 'v' and _is_int_value(ln[1]) and ln[1] >= 0 else R.length(s)
            a = m.call('left', s, n - 1)
            b = m.call('mid', s, n + k, cnt)
            if a[0] == b[0] == 'v' and not R.is_error(a[1]) and not R.is_error(b[1]):
                j = m.amp(a[1], t)
                j = m.amp(j[1], b[1]) if j[0] == 'v' else j
                if ok:
                    m.expect('LEFT&t&MID', (s, n, k, t), j, R.replace(s, ni, ki, t),
                             'REPLACE(s,n,k,t) = LEFT(s,n-1) & t & MID(s,n+k,LEN(s)) (right hand side by pycel)',
                             lambda got: 'REPLACE/identity-right-hand-side-differs')
    m.done(s, sig)


def law_find(ctx, f, s, start, force=False, sig=None):
    m = Mon(ctx, 'find', {'f': f, 's': s, 'start': start}, force)
    st = 1 if start is None else int(start)
    accept = R.find(f, s, st)
    hay, needle = R.render(s), R.render(f)
    if st < 1:
        ctx.count('FIND:start<1')
    elif st > len(hay):
        ctx.count('FIND:start>len')
    if needle == '':
        ctx.count('FIND:empty-needle')
    if len(accept) > 1:
        ctx.count('FIND:two-readings-accepted')
    ctx.count('FIND:not-found' if accept[0] == R.VALUE else 'FIND:found')
    if accept[0] != R.VALUE and accept[0] > st:
        ctx.count('FIND:match-after-start')
    if accept[0] != R.VALUE and hay.count(needle) > 1 and needle:
        ctx.count('FIND:several-matches')
    args = (f, s) if start is None else (f, s, start)
    out = m.call('find', *args)

    def key(got):
        if st < 1:
            return 'FIND/start-below-1'
        if st > len(hay):
            return 'FIND/start-beyond-length'
        if needle == '':
            return 'FIND/empty-needle'
        if accept[0] == R.VALUE:
            return 'FIND/no-match-not-VALUE'
        if got == R.VALUE:
            return 'FIND/match-missed'
        if _is_int_value(got) and got > accept[0]:
            return 'FIND/not-the-first-match'
        if _is_int_value(got) and got < st:
            return 'FIND/match-before-start'
        return 'FIND/unclassified'
    m.expect('FIND', args, out, accept, 'FIND returns the first position p (>= start) with MID(s,p,LEN(f)) = f '
             'or #VALUE!; start < 1 -> #VALUE!', key, alt=lambda P: R.find(P(f), P(s), st))
    m.done(s, sig)


def law_sub(ctx, s, old, new, inst, force=False, sig=None):
    m = Mon(ctx, 'sub', {'s': s, 'old': old, 'new': new, 'inst': inst}, force)
    ii = None if inst is None else int(inst)
    accept = R.substitute(s, old, new, ii)
    nocc = len(R.occurrences(R.render(old), R.render(s)))
    if ii is None:
        ctx.count('SUB:all')
        if nocc > 1:
            ctx.count('SUB:all-several-occurrences')
    elif ii < 1:
        ctx.count('SUB:instance<1')
    elif ii <= nocc:
        ctx.count('SUB:ith-replaced')
        if nocc > 1:
            ctx.count('SUB:ith-of-several')
    else:
        ctx.count('SUB:ith-beyond-count')
    args = (s, old, new) if inst is None else (s, old, new, inst)
    out = m.call('substitute', *args)

    def key(got):
        if ii is None:
            return 'SUBSTITUTE/all-occurrences'
        if ii < 1:
            return 'SUBSTITUTE/instance-below-1'
        if ii > nocc:
            return 'SUBSTITUTE/instance-beyond-count-changes-text'
        return 'SUBSTITUTE/ith-occurrence'
    m.expect('SUBSTITUTE', args, out, accept, 'SUBSTITUTE replaces all or exactly the i-th occurrence', key,
             alt=lambda P: R.substitute(P(s), P(old), P(new), ii)
             if R.render(P(old)) and not R.self_overlapping(R.render(P(old))) else ())
    m.done(s, sig)


_RUNS = re.compile(' +')


def law_case(ctx, s, force=False, sig=None):
    m = Mon(ctx, 'case', {'s': s}, force)
    r = R.render(s)
    want = R.trim(s)
    if r.startswith(' ') or r.endswith(' '):
        ctx.count('TRIM:input-with-outer-space')
    if '  ' in r.strip(' '):
        ctx.count('TRIM:input-with-inner-run')
    if want != r:
        ctx.count('TRIM:changed')
    t1 = m.call('trim', s)

    def trim_key(got):
        if isinstance(got, str) and got.strip(' ') == want:
            return 'TRIM/keeps-leading-trailing'
        if isinstance(got, str) and _RUNS.sub(' ', got).strip(' ') == want:
            return 'TRIM/keeps-inner-runs'
        return 'TRIM/unclassified'
    m.expect('TRIM', (s,), t1, want, 'TRIM leaves single inner spaces and none at the ends', trim_key,
             alt=lambda P: R.trim(P(s)))
    for name in ('trim', 'upper', 'lower'):
        once = t1 if name == 'trim' else m.call(name, s)
        if once[0] != 'v':
            m.expect(XL[name], (s,), once, r, 'nothing raises', lambda got: 'unreachable')
            continue
        if name != 'trim' and once[1] != r:
            ctx.count(XL[name] + ':changed')
        twice = m.call(name, once[1])
        m.expect(f'{XL[name]}o{XL[name]}', (s,), twice, once[1], f'{XL[name]} is idempotent: '
                 f'{XL[name]}({XL[name]}(s)) = {XL[name]}(s) = {once[1]!r}',
                 lambda got, name=name: f'{XL[name]}/not-idempotent')
    m.done(s, sig)


def law_exact(ctx, a, b, force=False, sig=None):
    m = Mon(ctx, 'exact', {'a': a, 'b': b}, force)
    ra, rb = R.render(a), R.render(b)
    want = ra == rb
    ctx.count('EXACT:true' if want else 'EXACT:false')
    if not want and ra.lower() == rb.lower():
        ctx.count('EXACT:case-only-difference')

    def key(got):
        if not want and ra.lower() == rb.lower():
            return 'EXACT/ignores-case'
        if want:
            return 'EXACT/identical-texts-not-equal'
        if ra.strip(' ') == rb.strip(' '):
            return 'EXACT/ignores-outer-spaces'
        return 'EXACT/different-texts-equal'
    m.expect('EXACT', (a, b), m.call('exact', a, b), want, 'EXACT is case-sensitive equality', key)
    m.done(a, sig)


def _concat_culprit(args):
    """kind of the first operand that CONCATENATE and & render differently on its own (mechanism key part)"""
    for a in args:
        c = lib.call('concatenate', a)
        try:
            j = ('v', lib.operator_fixup()(a, 'BitAnd', ''))
        except Exception as exc:  # noqa
            j = ('x', type(exc).__name__)
        if c != j:
            return R.kind(a) + '-operand'
    return 'only-when-joined'


def law_concat(ctx, args, force=False, sig=None):
    m = Mon(ctx, 'concat', {'args': args}, force)
    c = m.call('concatenate', *args)
    j = ('v', args[0])
    if len(args) == 1:
        j = m.amp(args[0], '')
    for a in args[1:]:
        if j[0] != 'v':
            break
        j = m.amp(j[1], a)
    kinds = sorted({R.kind(a) for a in args})
    ctx.count('CONCAT:operands:' + '+'.join(kinds))
    m.compares += 1
    for name, out in (('CONCATENATE', c), ('&', j)):
        if out[0] == 'x':
            ctx.violation(f'{name}/raises-{_exc_class(out)}', f'{name} over {args!r} raised {out[1]}', m.case)
    if c[0] == j[0] == 'v':
        if not (type(c[1]) is type(j[1]) and c[1] == j[1]):
            ctx.violation('CONCATENATE/differs-from-&/' + _concat_culprit(args),
                          f'CONCATENATE{tuple(args)!r} = {c[1]!r} but joining the same operands with & gives '
                          f'{j[1]!r} [CONCATENATE and & agree]', m.case)
        elif kinds == ['text']:
            m.expect('CONCATENATE', tuple(args), c, ''.join(args), 'CONCATENATE and & of texts are the '
                     'concatenation (used by every identity of the statement)',
                     lambda got: 'CONCATENATE/not-the-concatenation-of-texts')
    m.done(args[0], sig, nontrivial=any(R.render(a) != '' for a in args if not R.is_error(a)))


def law_text(ctx, x, fmt, force=False, sig=None):
    m = Mon(ctx, 'text', {'x': x, 'fmt': fmt}, force)
    accept = R.text_number(x, fmt)
    p = R.parse_format(fmt)
    tie = R.is_tie(x, fmt)
    if tie:
        ctx.count('TEXT:tie')
    if p['grouping']:
        ctx.count('TEXT:grouped')
        if abs(x) * (100 if p['percent'] else 1) >= 1000:
            ctx.count('TEXT:grouped-with-separator')
    if p['percent']:
        ctx.count('TEXT:percent')
    if p['optional']:
        ctx.count('TEXT:optional-digits')
    if x < 0:
        ctx.count('TEXT:negative')
    if len(accept) > 1:
        ctx.count('TEXT:negative-rounding-to-zero')
    ctx.count('TEXT:' + ('int' if isinstance(x, int) else 'float'))

    def key(got):
        want = accept[0]
        if isinstance(got, str) and got.replace(',', '') == want.replace(',', ''):
            return 'TEXT/grouping'
        if isinstance(got, str) and got.lstrip('-') == want.lstrip('-'):
            return 'TEXT/sign'
        if isinstance(got, str) and p['optional'] and got.rstrip('%').rstrip('0') == want.rstrip('%').rstrip('0'):
            return 'TEXT/optional-digits'
        if isinstance(got, str) and got.replace(',', '').lstrip('-').lstrip('0') == \
                want.replace(',', '').lstrip('-').lstrip('0'):
            return 'TEXT/forced-integer-digits'
        if got in R.text_number(x, fmt, binary_half_even=True):
            # what rounding the binary double (after a binary multiplication by 100 for %) half-even gives
            return 'TEXT/half-even-or-binary-rounding'
        if tie:
            return 'TEXT/tie-rounded-otherwise'
        if p['percent']:
            return 'TEXT/percent-scaling'
        return 'TEXT/unclassified'
    m.expect('TEXT', (x, fmt), m.call('text', x, fmt), accept, 'TEXT(x,f) renders the half-away-from-zero decimal '
             'rounding of x with the requested digits, grouping and percent scaling', key)
    m.done(x, sig, nontrivial=True)


def law_error(ctx, name, args, force=False, sig=None):
    m = Mon(ctx, 'error', {'name': name, 'args': args}, force)
    errs = tuple(a for a in args if R.is_error(a))
    assert errs
    if name == '&':
        out = m.amp(*args)
    else:
        out = m.call(name, *args)
    ctx.count('error-args:' + str(len(errs)))
    m.expect(XL[name], tuple(args), out, tuple(dict.fromkeys(errs)), 'an error argument propagates, nothing raises',
             lambda got: f'{XL[name]}/error-argument-not-propagated')
    m.done(args[0], sig, nontrivial=True)


def law_sub_consistent(ctx, s, old, force=False):
    """'SUBSTITUTE replaces all or exactly the i-th occurrence': both forms must mean the same occurrences.
    The occurrences are read off pycel's OWN all-occurrence answer (with a marker as new text), so the law
    does not depend on how overlapping matches of a self-overlapping needle ('aa' in 'aaa') are counted."""
    mark = '\x01'
    case = {'law': 'subc', 'p': {'s': s, 'old': old}}
    allf = lib.call('substitute', s, old, mark)
    ctx.count('SUBC:cases')
    ctx.case(('subc', s, old), nontrivial=True)
    if allf[0] != 'v' or not isinstance(allf[1], str):
        return
    starts, pos = [], 0
    for ch in allf[1]:
        if ch == mark:
            starts.append(pos)
            pos += len(old)
        else:
            pos += 1
    if pos != len(s) or any(s[p:p + len(old)] != old for p in starts):
        ctx.violation('SUBSTITUTE/all-occurrences', f'SUBSTITUTE({s!r},{old!r},MARK) = {allf[1]!r} is not {s!r} with '
                      f'occurrences of {old!r} replaced', case)
        return
    if len(starts) > 1:
        ctx.count('SUBC:several-occurrences')
    if R.self_overlapping(old):
        ctx.count('SUBC:self-overlapping-needle')
    for i in range(1, len(starts) + 2):
        got = lib.call('substitute', s, old, mark, i)
        ctx.count('SUBC:instance-calls')
        want = s if i > len(starts) else s[:starts[i - 1]] + mark + s[starts[i - 1] + len(old):]
        if got != ('v', want):
            ctx.violation('SUBSTITUTE/instance-form-disagrees-with-all-form',
                          f'SUBSTITUTE({s!r},{old!r},MARK) marks occurrences at {starts}, so instance {i} must give '
                          f'{want!r}; SUBSTITUTE({s!r},{old!r},MARK,{i}) = {got!r}', case)
            return


LAWS = {'subc': law_sub_consistent, 'slice': law_slice, 'mid': law_mid, 'find': law_find, 'sub': law_sub, 'case': law_case,
        'exact': law_exact, 'concat': law_concat, 'text': law_text, 'error': law_error}


# --------------------------------------------------------------------------- enumerations

def strings(alpha, maxlen, minlen=0):
    for n in range(minlen, maxlen + 1):
        for t in itertools.product(alpha, repeat=n):
            yield ''.join(t)


NEEDLES = list(strings(ALPHA, 2))
SUB_NEEDLES = [x for x in strings(ALPHA, 2, 1) if not R.self_overlapping(x)]


def numbers():
    """k/10^j, |x| in [1e-6, 1e6]: ints, integer-valued floats, fractions, numbers below 1e-4"""
    out, seen = [0, 0.0], set()
    for k in (1, 3, 5, 12, 25, 105, 999, 1234, 12345, 123456, 1000000):
        for j in range(0, 7):
            for sign in (1, -1):
                x = sign * k / 10 ** j
                if not R.number_domain_ok(x):
                    continue
                for v in ([int(x), float(x)] if float(x).is_integer() else [x]):
                    if (type(v), v) not in seen:
                        seen.add((type(v), v))
                        out.append(v)
    return out


def exact_partners(s):
    out = [s, s.upper(), s.lower(), s.swapcase(), s + ' ', ' ' + s, s[:-1], s[1:], s[::-1], s + s[-1:]]
    if s:
        out.append(s[:-1] + ('b' if s[-1] != 'b' else 'a'))
        out.append(s[:-1] + s[-1].upper())
        out.append(s[0].upper() + s[1:])
    return list(dict.fromkeys(out))


def text_formats():
    ints = ['0', '00', '0000', '#0', '##0', '#,##0', '#,#00', '#,000', '##,##0', '#,###,##0']
    decs = ['', '.0', '.00', '.000', '.0000', '.0#', '.00#', '.0##']
    out = [i + d + p for i in ints for d in decs for p in ('', '%')]
    assert all(R.parse_format(f) for f in out)
    return out


FORMATS = text_formats()
BOUNDARY_MANTISSAS = [995, 1005, 9995, 12345, 99995, 123456, 999995, 999999, 1000000, 1234567, 99999995]


def text_numbers(quick):
    """(k, j) grids -> numbers k/10^j, both signs, every tie at up to 4 decimals included"""
    ks = list(range(0, 331 if quick else 1301)) + BOUNDARY_MANTISSAS
    for k in ks:
        for j in range(0, 5 if quick else 6):
            if k / 10 ** j > 1e6:
                continue
            for sign in (1, -1):
                if k == 0 and sign < 0:
                    continue
                yield (sign * k) if j == 0 else sign * k / 10 ** j
            if j == 0 and k % 7 == 0:
                yield float(k)


ERROR_BASES = [
    ('left', ('ab é', 2)), ('right', ('ab é', 2)), ('mid', ('ab é', 2, 2)),
    ('replace', ('ab é', 2, 1, 'X')), ('find', ('b', 'ab é', 1)),
    ('substitute', ('ab éb', 'b', 'X', 1)), ('substitute', ('ab éb', 'b', 'X')),
    ('concatenate', ('a', 'b', 'c')), ('trim', (' a ',)), ('upper', ('a',)), ('lower', ('A',)),
    ('exact', ('a', 'a')), ('len_', ('ab',)), ('text', (2.5, '0.0')), ('&', ('a', 'b')),
]


def error_cases():
    for name, base in ERROR_BASES:
        for pos in range(len(base)):
            for e in R.ERRORS:
                args = list(base)
                args[pos] = e
                yield name, args
        if len(base) >= 2:
            for p1, p2 in itertools.combinations(range(len(base)), 2):
                for e1, e2 in (('#N/A', '#DIV/0!'), ('#REF!', '#VALUE!')):
                    args = list(base)
                    args[p1], args[p2] = e1, e2
                    yield name, args


# --------------------------------------------------------------------------- run

def exhaustive_text_subject(ctx, s):
    for n in POS:
        law_slice(ctx, s, n)
    for n in POS:
        for k in POS:
            law_mid(ctx, s, n, k, TS)
    for f in NEEDLES:
        law_find(ctx, f, s, None)
        for st in POS:
            law_find(ctx, f, s, st)
    for old in SUB_NEEDLES:
        for new in NEWS:
            for inst in INSTANCES:
                law_sub(ctx, s, old, new, inst)
    law_case(ctx, s)
    for t in exact_partners(s):
        law_exact(ctx, s, t)
    for t in NEEDLES[:6]:
        law_concat(ctx, [s, t])
        law_concat(ctx, [t, s, s])
    law_concat(ctx, [s])


def exhaustive_other_subject(ctx, v):
    """numbers, logicals, blank as the text argument"""
    for n in POS:
        law_slice(ctx, v, n)
        law_slice(ctx, v, float(n))
    for n in POS:
        for k in POS:
            law_mid(ctx, v, n, k, TS_MIXED)
    r = R.render(v)
    needles = list(dict.fromkeys(list(r) + ['e', '.', '0', 'U']))
    for f in needles:
        law_find(ctx, f, v, None)
        for st in POS:
            law_find(ctx, f, v, st)
        for inst in (None, 1, 2):
            law_sub(ctx, v, f, 'X', inst)
    for f in (1, 0.5, True, 3.0):
        law_find(ctx, f, v, 1)
        law_find(ctx, f, 'a1b0.5TRUE3', 1)
        law_sub(ctx, 'a1b0.5TRUE3', f, v, None)
    law_case(ctx, v)
    law_exact(ctx, v, v)
    for other in ('x', v, 7, 2.5, False, None):
        law_concat(ctx, [v, other])
        law_concat(ctx, [other, v, 'y'])


def rand_string(rng, lo=1, hi=8):
    return ''.join(rng.choice(XALPHA) for _ in range(rng.randint(lo, hi)))


def rand_pos(rng):
    n = rng.choice(POS)
    return float(n) if rng.random() < 0.1 else n


def rand_needle(rng, s):
    if s and rng.random() < 0.7:
        i = rng.randrange(len(s))
        return s[i:i + rng.randint(1, 3)]
    return rand_string(rng, 0, 2)


def rand_format(rng):
    lead = rng.choice(['', '#', '##', '#,#', '#,##', '#,###,##', '##,##'])
    f = lead + '0' * rng.randint(1, 3 if ',' in lead else 4)
    if rng.random() < 0.7:
        f += '.' + '0' * rng.randint(1, 3) + '#' * rng.randint(0, 2)
    if rng.random() < 0.3:
        f += '%'
    assert R.parse_format(f), f
    return f


def sampled(ctx):
    rng = ctx.rng
    while not ctx.out_of_time():
        ctx.count('sampled')
        r = rng.random()
        s = rand_string(rng, 1, 8) if rng.random() < 0.8 else rand_string(rng, 5, 8)
        if r < 0.12:
            n = rand_pos(rng)
            law_slice(ctx, s, n, sig=('slice', s, n))
        elif r < 0.30:
            n, k, ts = rand_pos(rng), rand_pos(rng), [rand_string(rng, 0, 3)]
            law_mid(ctx, s, n, k, ts, sig=('mid', s, n, k, ts[0]))
        elif r < 0.48:
            f = rand_needle(rng, s)
            st = None if rng.random() < 0.1 else rand_pos(rng)
            law_find(ctx, f, s, st, sig=('find', f, s, st))
        elif r < 0.66:
            old = rand_needle(rng, s)
            if not old or R.self_overlapping(old):
                ctx.count('SUB:needle-outside-the-statement-skipped')
                continue
            new = rand_string(rng, 0, 3)
            inst = rng.choice(INSTANCES + [2.0])
            law_sub(ctx, s, old, new, inst, sig=('sub', s, old, new, inst))
        elif r < 0.72:
            law_case(ctx, s, sig=('case', s))
        elif r < 0.80:
            t = rng.choice(exact_partners(s) + [rand_string(rng, 1, 8)])
            law_exact(ctx, s, t, sig=('exact', s, t))
        elif r < 0.86:
            args = [s] + [rng.choice([rand_string(rng, 0, 4), rng.choice([1, 2.5, 3.0, True, False, None, -0.25])])
                          for _ in range(rng.randint(1, 3))]
            law_concat(ctx, args, sig=('concat', repr(args)))
        else:
            j = rng.randint(0, 6)
            k = rng.randint(-10 ** rng.randint(1, 7), 10 ** rng.randint(1, 7))
            if rng.random() < 0.4:
                k = k // 10 * 10 + 5      # a candidate tie
            x = k if j == 0 else k / 10 ** j
            if abs(x) > 1e6 or (x != 0 and abs(x) < 1e-6) or (x == 0 and j):
                continue
            fmt = rand_format(rng) if rng.random() < 0.5 else rng.choice(FORMATS)
            law_text(ctx, x, fmt, sig=('text', repr(x), fmt))


def run(ctx):
    maxlen = 3 if ctx.quick else 4
    i = 0
    for s in strings(ALPHA, maxlen):
        i += 1
        if ctx.mine(i):
            exhaustive_text_subject(ctx, s)
    for s in strings(TRIM_ALPHA, 5, 4):
        i += 1
        if ctx.mine(i):
            law_case(ctx, s)
    # white space other than U+0020 is an ordinary character for TRIM (tab, line feed, no-break space, ideographic
    # space, em space): every string up to length 4 that holds one of them
    for s in strings(OTHER_WS_ALPHA, 4, 1):
        i += 1
        if ctx.mine(i) and any(c in s for c in OTHER_WS_ALPHA[2:]):
            ctx.count('TRIM:other-white-space')
            law_case(ctx, s)
    # numbers with 16 or 17 significant digits (results of arithmetic: 0.35-0.1, 0.1+0.2) next to a tie or a multiple,
    # integers beyond 2**53: TEXT rounds the number that is there, not its 15 digit rendering
    for x in (0.35 - 0.1, 0.1 + 0.2, 2.4999999999999996, 1.0000000000000002, 0.15 + 0.15 + 0.15, 1.15 - 0.2, 9007199254740993,
              123456789012345678, -(0.35 - 0.1), 4.35 * 100, 0.045 + 1e-17):
        for fmt in ('0.0', '0', '0.00', '0%', '#,##0.0', '0.0000000000000000', '0.00000000000000000'):
            i += 1
            if len(fmt) > 10 and abs(x) >= 10:
                continue      # (more than 28 digits in all: beyond the reference model's decimal context)
            if ctx.mine(i):
                ctx.count('TEXT:number-of-16-or-17-digits')
                law_text(ctx, x, fmt)
    for v in numbers() + [True, False, None]:
        i += 1
        if ctx.mine(i):
            exhaustive_other_subject(ctx, v)
    for name, args in error_cases():
        i += 1
        if ctx.mine(i):
            law_error(ctx, name, args)
    for x in text_numbers(ctx.quick):
        i += 1
        if ctx.mine(i):
            for fmt in FORMATS:
                law_text(ctx, x, fmt)
    # SUBSTITUTE: instance form consistent with the all-occurrence form, also for self-overlapping needles
    for s in strings('ab ', 5, 1):
        for old in ('a', 'aa', 'ab', 'aba', 'b', ' ', 'aaa'):
            i += 1
            if ctx.mine(i) and len(old) <= len(s):
                law_sub_consistent(ctx, s, old)
    # characters outside of the BMP count as one character everywhere (FIND, MID, LEFT, LEN, REPLACE)
    for s in strings(['a', 'b', '\U0001F600', '\U00010400'], 3, 1):
        i += 1
        if not ctx.mine(i) or s.isascii():
            continue
        ctx.count('non-bmp-subjects')
        for f in ('a', 'b', '\U0001F600', 'ab', 'b\U0001F600', '\U00010400a'):
            law_find(ctx, f, s, None)
            for st in (1, 2, 3):
                law_find(ctx, f, s, st)
        for n in (0, 1, 2, 3):
            law_slice(ctx, s, n)
            for k in (1, 2):
                law_mid(ctx, s, n or 1, k, TS)
    # two different error values among the operands: CONCATENATE and & pick the same one
    errs = ['#NULL!', '#DIV/0!', '#VALUE!', '#REF!', '#NAME?', '#NUM!', '#N/A']
    for e1 in errs:
        for e2 in errs:
            i += 1
            if ctx.mine(i) and e1 != e2:
                ctx.count('concat-two-different-errors')
                law_concat(ctx, [e1, e2])
                law_concat(ctx, ['x', e1, 3, e2])
    ctx.note('exhaustive part done after %.1fs' % (ctx.budget - ctx.time_left()))
    sampled(ctx)


def replay(ctx, case):
    LAWS[case['law']](ctx, force=True, **case['p'])
