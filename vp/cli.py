"""python -m vp.cli C01 --tier quick|thorough [--replay file] [--seed n] [--shards n]

exit 0 held on everything observed / 1 violation (VIOLATION line) / 2 harness error /
3 inconclusive (a deciding monitor was not reached or a watchdog fired)"""
import argparse
import os
import sys

from vp.core import run_check


def main():
    ap = argparse.ArgumentParser()
    ap.add_argument('prop')
    ap.add_argument('--tier', default=os.environ.get('VERIF_TIER', 'quick'),
                    choices=('quick', 'thorough'))
    ap.add_argument('--replay')
    ap.add_argument('--seed', type=int)
    ap.add_argument('--shards', type=int)
    a = ap.parse_args()
    sys.exit(run_check(a.prop.upper(), a.tier, seed=a.seed, replay=a.replay, nshards=a.shards))


if __name__ == '__main__':
    main()
