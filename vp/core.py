"""Core of the runtime-monitoring harness: shard context, fan-out runner, verdict, evidence.

A *check* is a module ``vp.checks.cXX`` exposing

    PROP      = 'C01'
    RULE      = '...'        how cases are generated, what makes one non-trivial / distinct
    LEVEL     = 'exploration' | 'fault_enumeration'
    FLOORS    = {'quick': {counter: minimum, ...}, 'thorough': {...}}   (deciding counters)
    BUDGET    = {'quick': seconds, 'thorough': seconds}   per-shard soft budget for sampled parts
    def run(ctx)             generate cases for this shard and call ctx.* on what was observed
    def replay(ctx, case)    re-run exactly one recorded case (no randomness)

Every shard is its own process (``subprocess.run(timeout=)``; never multiprocessing.Pool) that
leaves through ``os._exit`` after writing its JSON result.
"""
import hashlib
import importlib
import json
import os
import random
import shutil
import subprocess
import sys
import tempfile
import time
import traceback

VERIF = os.path.dirname(os.path.dirname(os.path.abspath(__file__)))
REPO = os.environ.get('VP_REPO', '/repo')
PY = os.environ.get('VP_PYTHON', '/venv/bin/python')
NPROC = int(os.environ.get('VP_NPROC', '16'))

EXIT_HELD, EXIT_VIOLATED, EXIT_HARNESS, EXIT_INCONCLUSIVE = 0, 1, 2, 3


def h64(obj):
    """stable 64 bit hash of a canonical (repr-able) signature"""
    if not isinstance(obj, (bytes, str)):
        obj = repr(obj)
    if isinstance(obj, str):
        obj = obj.encode('utf-8', 'surrogatepass')
    return int.from_bytes(hashlib.blake2b(obj, digest_size=8).digest(), 'big')


def jsonable(obj, depth=0):
    """best effort conversion of observed values to something json can store"""
    if obj is None or isinstance(obj, (bool, int, str)):
        return obj
    if isinstance(obj, float):
        if obj != obj or obj in (float('inf'), float('-inf')):
            return repr(obj)
        return obj
    if depth > 8:
        return repr(obj)
    if isinstance(obj, dict):
        return {str(k): jsonable(v, depth + 1) for k, v in obj.items()}
    if isinstance(obj, (list, tuple, set, frozenset)):
        return [jsonable(v, depth + 1) for v in obj]
    return repr(obj)


class HarnessError(Exception):
    """the harness' own code failed (never a verdict about pycel)"""


class Ctx:
    """What a check sees: the shard's slice of the work, and the sinks for what was observed."""

    MAX_SIGS = 400000
    MAX_CASES_PER_KEY = 3

    def __init__(self, prop, tier, shard, nshards, seed, budget):
        self.prop, self.tier, self.shard, self.nshards, self.seed = prop, tier, shard, nshards, seed
        self.rng = random.Random(h64(('rng', prop, seed, shard)))
        self.t0 = time.monotonic()
        self.budget = budget
        self.evaluations = 0
        self.distinct_unsigned = 0
        self.sigs = set()
        self.sig_overflow = 0
        self.counters = {}
        self.violations = {}      # key -> {'count': n, 'cases': [...], 'msg': str}
        self.samples = []
        self.notes = []
        self._tmp = None

    # ---- work partitioning / budget
    def mine(self, i):
        return i % self.nshards == self.shard

    def time_left(self):
        return self.budget - (time.monotonic() - self.t0)

    def out_of_time(self):
        return self.time_left() <= 0

    @property
    def quick(self):
        return self.tier == 'quick'

    @property
    def tmpdir(self):
        if self._tmp is None:
            self._tmp = tempfile.mkdtemp(prefix=f'vp-{self.prop}-')
        return self._tmp

    def cleanup(self):
        if self._tmp is not None:
            shutil.rmtree(self._tmp, ignore_errors=True)
            self._tmp = None

    # ---- observation sinks
    def case(self, sig=None, nontrivial=True, n=1):
        """one case was executed and observed.  ``sig`` = canonical signature (for distinct counting);
        sig None means the caller guarantees distinctness (exhaustive enumeration)."""
        self.evaluations += n
        if not nontrivial:
            return
        if sig is None:
            self.distinct_unsigned += n
        elif len(self.sigs) < self.MAX_SIGS:
            self.sigs.add(h64(sig))
        else:
            self.sig_overflow += 1

    def count(self, name, n=1):
        self.counters[name] = self.counters.get(name, 0) + n

    def sample(self, obj, limit=4):
        if len(self.samples) < limit:
            self.samples.append(jsonable(obj))

    def note(self, text):
        if len(self.notes) < 20:
            self.notes.append(text)

    def violation(self, key, msg, case):
        """``key`` is the *mechanism key* (a predicate over the case decided by the check)."""
        v = self.violations.setdefault(key, {'count': 0, 'cases': [], 'msg': msg})
        v['count'] += 1
        if len(v['cases']) < self.MAX_CASES_PER_KEY:
            v['cases'].append({'msg': msg, 'case': jsonable(case)})

    def result(self):
        return {
            'shard': self.shard, 'evaluations': self.evaluations,
            'distinct_unsigned': self.distinct_unsigned, 'sigs': sorted(self.sigs),
            'sig_overflow': self.sig_overflow, 'counters': self.counters,
            'violations': self.violations, 'samples': self.samples, 'notes': self.notes,
            'wall_s': time.monotonic() - self.t0,
        }


def repo_state():
    def git(*a):
        try:
            return subprocess.run(('git', '-C', REPO) + a, capture_output=True, text=True,
                                  timeout=30).stdout.strip()
        except Exception:
            return '?'
    return {'head': git('rev-parse', 'HEAD'), 'dirty': bool(git('status', '--porcelain', '--', 'src'))}


def check_env():
    env = dict(os.environ)
    env.update({
        'PYTHONPATH': os.pathsep.join((os.path.join(REPO, 'src'), VERIF)),
        'PYTHONDONTWRITEBYTECODE': '1',
        'PYCEL_VERIF': '1',
        'PYTHONHASHSEED': '0',
        'PYTHONWARNINGS': 'ignore',
    })
    return env


def assert_pycel_from_repo():
    import pycel
    want = os.path.realpath(os.path.join(REPO, 'src'))
    got = os.path.realpath(os.path.dirname(os.path.dirname(pycel.__file__)))
    if got != want:
        raise HarnessError(f'pycel imported from {got}, expected {want}')


# --------------------------------------------------------------------------- shard entry point

def _import_all_of_pycel():
    import pkgutil
    import pycel
    import pycel.lib
    for pkg in (pycel, pycel.lib):
        for m in pkgutil.iter_modules(pkg.__path__):
            if m.name != 'addin' and (not m.name.startswith('_') or m.name == '_verif'):      # addin: win32 only
                importlib.import_module(f'{pkg.__name__}.{m.name}')


def _on_worker_thread(fn):
    import threading
    box = {}

    def body():
        try:
            fn()
        except BaseException as exc:       # noqa
            box['exc'] = exc
    old = threading.stack_size(128 * 1024 * 1024)
    try:
        t = threading.Thread(target=body, name='vp-worker')
        t.start()
        t.join()
    finally:
        threading.stack_size(old)
    if 'exc' in box:
        raise box['exc']



LOGGING = {'mode': 'quiet'}


def silence():
    """what harness code calls before it makes pycel do something noisy: logging is turned off - unless this shard
    is one of those that run with another logging configuration on purpose"""
    import logging
    if LOGGING['mode'] == 'quiet':
        logging.disable(logging.CRITICAL)


def _debug_logging():
    """the process a model lives in may have its logging turned up: the 'pycel' logger at DEBUG with a handler that
    formats every record (and throws it away).  Nothing a property promises may depend on the logging level."""
    import logging

    class _Sink(logging.Handler):
        def emit(self, record):
            record.getMessage()
    logging.disable(logging.NOTSET)
    LOGGING['mode'] = 'debug'
    lg = logging.getLogger('pycel')
    lg.setLevel(logging.DEBUG)
    lg.addHandler(_Sink())
    lg.propagate = False


def shard_main(argv):
    prop, tier, shard, nshards, seed, out = argv[:6]
    shard, nshards, seed = int(shard), int(nshards), int(seed)
    replay = argv[7] if len(argv) > 7 and argv[6] == '--replay' else None
    import faulthandler
    faulthandler.enable()
    code = EXIT_HARNESS
    res = {'shard': shard, 'harness_error': None}
    try:
        assert_pycel_from_repo()
        import logging
        if replay or shard % 8 != 5:
            logging.disable(logging.CRITICAL)
        else:
            LOGGING['mode'] = 'default'
        # (one shard in eight runs with the logging configuration python starts with: warnings go to the shard's log)
        mod = importlib.import_module(f'vp.checks.{prop.lower()}')
        budget = float(os.environ.get('VP_BUDGET', mod.BUDGET[tier]))
        faulthandler.dump_traceback_later(budget * 4 + 600, exit=False)
        ctx = Ctx(prop, tier, shard, nshards, seed, budget)
        try:
            if replay:
                with open(replay) as f:
                    rec = json.load(f)
                mod.replay(ctx, rec['case'])
                if not ctx.violations:
                    # the witness may come from a shard that works on a worker thread (see below)
                    _on_worker_thread(lambda: mod.replay(ctx, rec['case']))
                if not ctx.violations:
                    # ... or from a shard with the logging configuration python starts with, or with debug logging on
                    logging.disable(logging.NOTSET)
                    LOGGING['mode'] = 'default'
                    mod.replay(ctx, rec['case'])
                if not ctx.violations:
                    _debug_logging()
                    mod.replay(ctx, rec['case'])
                if not ctx.violations:
                    # ... or from the shard where pycel's own warnings are errors
                    import warnings
                    warnings.filterwarnings('error', module=r'pycel(\.|$)')
                    mod.replay(ctx, rec['case'])
            if not replay and shard % 8 == 4:
                # one shard in eight turns the warnings that pycel's own modules issue (or cause: a deprecated name of
                # the standard library is reported for the module that uses it) into errors, as "python -W error" does:
                # a property that promises a value does not promise it only while warnings are not errors
                import warnings
                warnings.filterwarnings('error', module=r'pycel(\.|$)')
                ctx.count('shards_with_warnings_of_pycel_as_errors')
            if not replay and shard % 8 in (3, 6):
                # two shards in eight (one on the main thread, one on a worker thread) log at DEBUG level
                _debug_logging()
                ctx.count('shards_with_debug_logging')
            if replay:
                pass
            elif shard % 2:
                # odd shards do all their work on a thread other than the one that imported pycel: nothing a
                # property promises may depend on being on the importing (main) thread - a decimal context, a
                # thread-local that was only initialised at import time
                _import_all_of_pycel()
                ctx.count('shards_on_a_worker_thread')
                _on_worker_thread(lambda: mod.run(ctx))
            else:
                mod.run(ctx)
        finally:
            ctx.cleanup()
        res = ctx.result()
        res['harness_error'] = None
        code = EXIT_HELD
    except BaseException:
        res['harness_error'] = traceback.format_exc()
    try:
        tmp = out + '.tmp'
        with open(tmp, 'w') as f:
            json.dump(res, f)
        os.replace(tmp, out)
    finally:
        sys.stdout.flush()
        sys.stderr.flush()
        os._exit(code)


# --------------------------------------------------------------------------- runner

def load_findings():
    path = os.path.join(VERIF, 'known_findings.json')
    if not os.path.exists(path):
        return []
    with open(path) as f:
        return json.load(f)['findings']


def run_check(prop, tier, seed=None, replay=None, nshards=None):
    """fan the check out over shards, aggregate, decide, write evidence; returns the exit code"""
    t0 = time.monotonic()
    seed = int(os.environ.get('VERIF_SEED', '0')) if seed is None else seed
    mod = importlib.import_module(f'vp.checks.{prop.lower()}')
    nshards = 1 if replay else (nshards or getattr(mod, 'SHARDS', {}).get(tier, NPROC))
    budget = float(os.environ.get('VP_BUDGET', mod.BUDGET[tier]))
    hard_timeout = budget * 5 + 900
    work = tempfile.mkdtemp(prefix=f'vp-run-{prop}-')
    env = check_env()
    procs = []
    try:
        for s in range(nshards):
            out = os.path.join(work, f'shard{s}.json')
            cmd = [PY, '-X', 'faulthandler', '-m', 'vp.shard', prop, tier, str(s), str(nshards),
                   str(seed), out]
            if replay:
                cmd += ['--replay', os.path.abspath(replay)]
            log = open(os.path.join(work, f'shard{s}.log'), 'wb')
            procs.append((s, out, log, subprocess.Popen(
                cmd, cwd=VERIF, env=env, stdout=log, stderr=subprocess.STDOUT)))
        results, problems = [], []
        for s, out, log, p in procs:
            try:
                p.wait(timeout=max(1.0, hard_timeout - (time.monotonic() - t0)))
            except subprocess.TimeoutExpired:
                p.kill()
                p.wait()
                problems.append(('timeout', s, f'shard {s} exceeded the wall-clock watchdog'))
                continue
            finally:
                log.close()
            if os.path.exists(out):
                with open(out) as f:
                    r = json.load(f)
                if r.get('harness_error'):
                    problems.append(('harness', s, r['harness_error']))
                else:
                    results.append(r)
            else:
                with open(os.path.join(work, f'shard{s}.log'), 'rb') as f:
                    tail = f.read()[-3000:].decode('utf-8', 'replace')
                problems.append(('crash', s, f'shard {s} died (exit {p.returncode}) without a result\n{tail}'))
        return _decide(prop, tier, seed, mod, results, problems, nshards, t0, replay)
    finally:
        shutil.rmtree(work, ignore_errors=True)


def _decide(prop, tier, seed, mod, results, problems, nshards, t0, replay):
    evaluations = sum(r['evaluations'] for r in results)
    sigs = set()
    for r in results:
        sigs.update(r['sigs'])
    distinct = len(sigs) + sum(r['distinct_unsigned'] for r in results)
    counters = {}
    for r in results:
        for k, v in r['counters'].items():
            counters[k] = counters.get(k, 0) + v
    samples = []
    for r in results:
        for smp in r['samples']:
            if len(samples) < 5:
                samples.append(smp)
    violations = {}
    for r in results:
        for key, v in r['violations'].items():
            agg = violations.setdefault(key, {'count': 0, 'cases': [], 'msg': v['msg']})
            agg['count'] += v['count']
            agg['cases'].extend(v['cases'][:max(0, 3 - len(agg['cases']))])

    findings = [f for f in load_findings() if f['property'] == prop]
    known = {f['key']: f for f in findings if f['status'] == 'known'}

    lines, new_violation_keys, known_hit = [], [], []
    replay_dir = os.path.join(VERIF, 'replay')
    os.makedirs(replay_dir, exist_ok=True)
    for key in sorted(violations):
        v = violations[key]
        if key in known:
            known_hit.append(key)
            lines.append(f"KNOWN-FINDING: property={prop} {key}: {known[key]['what']} "
                         f"(observed {v['count']}x this run)")
            continue
        new_violation_keys.append(key)
        safe = ''.join(c if c.isalnum() or c in '-_.' else '_' for c in key)[:80]
        path = os.path.join(replay_dir, f'{prop}-{safe}.json')
        if os.environ.get('VP_NO_EVIDENCE'):
            path = os.path.join(tempfile.gettempdir(), os.path.basename(path))
        if not replay:
            with open(path, 'w') as f:
                json.dump({'property': prop, 'key': key, 'count': v['count'], 'tier': tier,
                           'seed': seed, 'repo': repo_state(), 'msg': v['cases'][0]['msg'],
                           'case': v['cases'][0]['case'], 'more_cases': v['cases'][1:]},
                          f, indent=1, ensure_ascii=True)
        else:
            path = os.path.abspath(replay)
        lines.append(f"VIOLATION property={prop} replay={path}")
        lines.append(f"  key={key} count={v['count']}: {v['cases'][0]['msg'][:600]}")

    inconclusive = []
    for kind, s, text in problems:
        if kind == 'harness':
            lines.append(f'HARNESS-ERROR property={prop} shard={s}\n{text}')
        else:
            inconclusive.append(text.splitlines()[0] if kind == 'timeout' else text)
    floors = {} if replay else mod.FLOORS.get(tier, {})
    for name, minimum in floors.items():
        got = evaluations if name == 'evaluations' else (
            distinct if name == 'distinct' else counters.get(name, 0))
        if got < minimum:
            inconclusive.append(f'deciding counter {name}={got} below floor {minimum}')

    skipped = counters.get('skipped_workbooks_with_failing_cells', 0)
    if not replay and skipped > 20 and skipped > 0.1 * (skipped + counters.get('workbooks', 0) +
                                                       counters.get('histories', 0) + counters.get('trims', 0) +
                                                       counters.get('round_trips', 0)):
        # the generators only use implemented functions: on a healthy tree no generated cell fails.  If many
        # do, the workload no longer reaches the property and the run must not count as "held"
        inconclusive.append(f'{skipped} generated workbooks had cells that fail to evaluate and were skipped')
    harness = any(k == 'harness' for k, _, _ in problems)
    if new_violation_keys:
        code = EXIT_VIOLATED
    elif harness:
        code = EXIT_HARNESS
    elif inconclusive:
        code = EXIT_INCONCLUSIVE
    else:
        code = EXIT_HELD
    for text in inconclusive:
        lines.append(f'INCONCLUSIVE property={prop} reason={text}')

    wall = time.monotonic() - t0
    if not replay and not os.environ.get('VP_NO_EVIDENCE'):
        evidence = {
            'property_id': prop, 'tier': tier, 'seed': seed, 'level': mod.LEVEL,
            'coverage': {
                'evaluations': evaluations, 'distinct_nontrivial': distinct, 'rule': mod.RULE,
                'samples': samples or ['(no sample recorded)'],
                'exhaustive': bool(getattr(mod, 'EXHAUSTIVE', {}).get(tier, False)),
                'counters': dict(sorted(counters.items())),
                'shards': nshards, 'shards_reporting': len(results),
                'floors': floors,
                'known_findings_observed': known_hit,
                'violation_keys': new_violation_keys,
                'verdict': {0: 'held on what was observed', 1: 'violated', 2: 'harness error',
                            3: 'inconclusive'}[code],
                'inconclusive_reasons': inconclusive,
                'repo': repo_state(),
            },
            'assumptions': list(getattr(mod, 'ASSUMPTIONS', [])),
            'wall_s': round(wall, 2),
            'violations': sum(violations[k]['count'] for k in new_violation_keys),
        }
        os.makedirs(os.path.join(VERIF, 'evidence'), exist_ok=True)
        path = os.path.join(VERIF, 'evidence', f'{prop}.json')
        with open(path + '.tmp', 'w') as f:
            json.dump(evidence, f, indent=1, ensure_ascii=True)
        os.replace(path + '.tmp', path)

    for line in lines:
        print(line)
    brief = ', '.join(f'{k}={v}' for k, v in sorted(counters.items())[:40])
    print(f'{prop} {tier} seed={seed}: evaluations={evaluations} distinct_nontrivial={distinct} '
          f'shards={len(results)}/{nshards} wall={wall:.1f}s verdict='
          f"{ {0: 'HELD', 1: 'VIOLATED', 2: 'HARNESS-ERROR', 3: 'INCONCLUSIVE'}[code]}")
    print(f'  counters: {brief}')
    sys.stdout.flush()
    return code
