"""Histories of public calls on a compiled model, with call/return recording at the boundary."""
import os

from vp import wb, wbgen

TWINS = {
    ('n', 0.0): [False, None, '0', ''],
    ('n', 1.0): [True, '1'],
    ('b', False): [0, None, 'FALSE'],
    ('b', True): [1, 'TRUE'],
    ('blank',): [0, '', False, 7, 2.5],
    ('s', ''): [None, 0],
    ('s', '3'): [3, 3.0],
    ('n', 3.0): ['3', ' 3 ', None],
}


def propose_write(rng, current, errors=False):
    """a new value for a cell currently holding ``current`` — biased towards the look-alike of
    another type (0/FALSE, 1/TRUE, blank/0/'' ...) because == in Python conflates them"""
    key = wb.norm(current)
    r = rng.random()
    if r < 0.3 and key in TWINS:
        return rng.choice(TWINS[key])
    if r < 0.45:
        return None
    if r < 0.55 and current is None:
        return rng.choice([5, 0, 1, 2.5])
    return wbgen.pick_value(rng, errors=errors, numeric_bias=0.55)


class Recorder:
    """records call and return events of the public API of one model (client boundary)"""

    def __init__(self, comp, label=''):
        self.comp = comp
        self.label = label
        self.events = []

    def evaluate(self, address, **kw):
        self.events.append(('call', 'evaluate', address))
        out = wb.outcome(self.comp.evaluate, address, **kw)
        self.events.append(('ret', 'evaluate', address, _short(out)))
        return out

    def set_value(self, address, value):
        self.events.append(('call', 'set_value', address, value))
        out = wb.outcome(self.comp.set_value, address, value)
        self.events.append(('ret', 'set_value', address, _short(out)))
        return out

    def has(self, address):
        return address in self.comp.cell_map


def _short(out):
    return (out[0], out[1] if out[0] == 'x' else wb.norm(out[1]))


def obtain(config, spec, tmpdir, tag, stored_outcomes=None, plugins=None, pre_eval=None):
    """the ways a model is obtained.  config in mem | xlsx | yml | json | pkl"""
    from pycel import ExcelCompiler
    if config == 'mem':
        return wb.compile_mem(spec, plugins=plugins)
    if config == 'xlsx':
        stored = {a: o[1] for a, o in (stored_outcomes or {}).items()
                  if o[0] == 'v' and o[1] is not None}
        return wb.compile_xlsx(spec, os.path.join(tmpdir, f'{tag}.xlsx'), stored, plugins=plugins)
    comp = wb.compile_mem(spec, plugins=plugins)
    for a in (pre_eval if pre_eval is not None else wb.all_addresses(spec)):
        wb.outcome(comp.evaluate, a)
    path = os.path.join(tmpdir, tag)
    comp.to_file(path, file_types=(config,))
    loaded = ExcelCompiler.from_file(f'{path}.{config}', plugins=plugins)
    for ext in ('yml', 'json', 'pkl'):
        try:
            os.unlink(f'{path}.{ext}')
        except OSError:
            pass
    return loaded


def reload(comp, fmt, tmpdir, tag, plugins=None):
    from pycel import ExcelCompiler
    path = os.path.join(tmpdir, tag)
    comp.to_file(path, file_types=(fmt,))
    loaded = ExcelCompiler.from_file(f'{path}.{fmt}', plugins=plugins)
    for ext in ('yml', 'json', 'pkl'):
        try:
            os.unlink(f'{path}.{ext}')
        except OSError:
            pass
    return loaded
