"""Access to pycel's library functions the way a compiled formula reaches them."""
import importlib

_CACHE = {}


def _no_cell(address):   # pragma: no cover
    raise AssertionError(f'library-level call tried to read {address}')


def fn(name):
    """the function ``name`` (python name, e.g. 'sum_', 'vlookup', 'round_') wrapped exactly as
    ExcelFormula.build_eval_context/load_functions wraps it for a formula's namespace"""
    if name not in _CACHE:
        from pycel.excelformula import ExcelFormula
        from pycel.lib.function_helpers import load_functions
        modules = tuple(importlib.import_module(m) for m in ExcelFormula.default_modules)
        ns = {'_C_': _no_cell, '_R_': _no_cell}
        missing = load_functions({name}, ns, modules)
        if missing:
            raise KeyError(name)
        _CACHE[name] = ns[name]
    return _CACHE[name]


def operator_fixup():
    """pycel's operator implementation as a formula calls it: f(left, 'Add'|'Sub'|..., right)"""
    if 'fixup' not in _CACHE:
        from pycel.excelutil import build_operator_operand_fixup
        _CACHE['fixup'] = build_operator_operand_fixup(lambda *a: None)
    return _CACHE['fixup']


def call(name, *args):
    """('v', result) | ('x', 'ExceptionClass: message')"""
    try:
        return ('v', fn(name)(*args))
    except Exception as exc:  # noqa
        return ('x', f'{type(exc).__name__}: {str(exc)[:120]}')


def eval_formula(formula, cells=None, target='Z99', sheet='Sheet1', arrays=None, names=None):
    """evaluate ``formula`` ('=...') in a one-sheet in-memory workbook whose other cells are
    ``cells`` {coord: value-or-formula}; returns ('v', value) | ('x', 'Class: msg')"""
    from vp import wb
    spec = {'sheets': [[sheet, dict(cells or {})]], 'names': names or {}, 'arrays': arrays or [],
            'calc': None}
    spec['sheets'][0][1][target] = formula
    try:
        comp = wb.compile_mem(spec)
        return ('v', comp.evaluate(f'{sheet}!{target}'))
    except RecursionError:
        return ('x', 'RecursionError')
    except Exception as exc:  # noqa
        return ('x', f'{type(exc).__name__}: {str(exc).strip().splitlines()[-1][:120] if str(exc).strip() else ""}')


def excel_literal(v):
    """render a python scalar as an Excel formula literal"""
    if v is None:
        return ''
    if isinstance(v, bool):
        return 'TRUE' if v else 'FALSE'
    if isinstance(v, str):
        if v.startswith('#') and v in ('#NULL!', '#DIV/0!', '#VALUE!', '#REF!', '#NAME?', '#NUM!', '#N/A'):
            return v
        return '"' + v.replace('"', '""') + '"'
    if isinstance(v, float):
        r = repr(v)
        return r.upper() if 'e' in r else r
    return str(v)
