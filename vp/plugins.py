"""plugin functions loaded through pycel's own ``plugins=`` parameter (module path 'vp.plugins')"""
import threading

_state = threading.local()


def _counts():
    if not hasattr(_state, 'counts'):
        _state.counts = {}
    return _state.counts


def reset():
    _counts().clear()


def count(tag):
    return _counts().get(tag, 0)


def countpass(tag, value):
    """=COUNTPASS(tag, x): returns x and counts the call under ``tag`` (per thread)"""
    c = _counts()
    c[tag] = c.get(tag, 0) + 1
    return value


def ident(value):
    """=IDENT(x): returns x"""
    return value


class PluginFailure(Exception):
    """raised on purpose by FAILK"""


def failk(tag, k, value):
    """=FAILK(tag, k, x): raises on its k-th call (k <= 0: every call), otherwise returns x"""
    c = _counts()
    key = ('failk', tag)
    c[key] = c.get(key, 0) + 1
    if k <= 0 or c[key] == k:
        raise PluginFailure(f'FAILK({tag}) call {c[key]}')
    return value


def failname(value):
    """=FAILNAME(x): fails the way a buggy plugin does - with a NameError (an UnboundLocalError) of its own"""
    if value is failname:          # never true: ``result`` stays unbound
        result = 0
    return result + value          # noqa: F821

