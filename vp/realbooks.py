"""the workbooks shipped with the repository (tests/fixtures/*.xlsx, example/example.xlsx) as workloads.

The generated workbooks of vp.wbgen reach every written reference form but only ~30 functions; the shipped
workbooks use the date, text, lookup, information, logical, statistics and finance functions in a few
thousand hand-written formulas over several sheets.  They come with stored results *computed by Excel*;
pycel serves those until the first value changes.  To compare like with like, every model of this module
is *primed*: a numeric input is written to another value and back before the first formula cell is built,
so each value below is computed by pycel itself (the stored-result path is exercised by the generated
.xlsx workbooks, whose stored results are pycel's own).

A case is a pure function of (book, case_seed): replay re-runs it.
"""
import functools
import glob
import os
import random
import re
import shutil
import warnings

from vp import core, wb

VOLATILE = re.compile(r'\b(NOW|TODAY|RAND|RANDBETWEEN)\s*\(', re.I)
COMPUTED_REF = re.compile(r'\b(OFFSET|INDIRECT)\s*\(', re.I)
NEW_NUMBERS = (0, 1, -1, 2, 3, 7, 10, 0.5, -2.5, 12.75, 100, 1900, 36526, 45000.25, 1e6)


def paths():
    fx = sorted(glob.glob(os.path.join(core.REPO, 'tests', 'fixtures', '*.xlsx')))
    ex = os.path.join(core.REPO, 'example', 'example.xlsx')
    return fx + ([ex] if os.path.exists(ex) else [])


def names():
    return [os.path.basename(p)[:-5] for p in paths()]


def _path(book):
    for p in paths():
        if os.path.basename(p)[:-5] == book:
            return p
    raise KeyError(book)


@functools.lru_cache(maxsize=None)
def scan(book):
    """{'formulas': [address], 'text': {address: formula text}, 'numbers': {address: value}, 'iterative': bool,
    'cells_by_sheet': {sheet: {(col, row): address}}} read with openpyxl (the harness's own reading)"""
    import openpyxl
    with warnings.catch_warnings():
        warnings.simplefilter('ignore')
        book_ = openpyxl.load_workbook(_path(book))
    formulas, text, numbers, by_sheet = [], {}, {}, {}
    for ws in book_:
        cells = by_sheet.setdefault(ws.title, {})
        for row in ws.iter_rows():
            for c in row:
                v = c.value
                if v is None:
                    continue
                a = wb.addr(ws.title, c.coordinate)
                cells[(c.column, c.row)] = a
                if isinstance(v, str) and v.startswith('='):
                    if a in text or v == '=':
                        continue            # a member of an array formula (openpyxl shows "=")
                    formulas.append(a)
                    text[a] = v
                elif hasattr(v, 'ref') and hasattr(v, 'text'):          # openpyxl ArrayFormula
                    for m in (c_ for row_ in wb.range_cells(v.ref) for c_ in row_):
                        ma = wb.addr(ws.title, m)
                        if ma not in text:
                            formulas.append(ma)
                        text[ma] = '{' + str(v.text) + '}'
                elif isinstance(v, (int, float)) and not isinstance(v, bool):
                    numbers[a] = v
    # openpyxl shows the members of an array formula (all but the first cell) with their stored results
    numbers = {a: v for a, v in numbers.items() if a not in text}
    return {'formulas': formulas, 'text': text, 'numbers': numbers,
            'iterative': bool(book_.calculation is not None and book_.calculation.iterate),
            'cells_by_sheet': by_sheet}


def stage(ctx, book):
    """a private copy of the workbook (pycel writes its serialisations next to the file)"""
    d = os.path.join(ctx.tmpdir, 'books')
    os.makedirs(d, exist_ok=True)
    q = os.path.join(d, book + '.xlsx')
    if not os.path.exists(q):
        shutil.copy(_path(book), q)
    return q


def compile_primed(ctx, book, **kw):
    from pycel import ExcelCompiler
    core.silence()
    with warnings.catch_warnings():
        warnings.simplefilter('ignore')
        comp = ExcelCompiler(filename=stage(ctx, book), **kw)
    prime(comp, book)
    return comp


def prime(comp, book):
    info = scan(book)
    if not info['numbers']:
        return
    a, v = next(iter(sorted(info['numbers'].items())))
    comp.evaluate(a)
    comp.set_value(a, v + 1)
    comp.set_value(a, v)


def apply_writes(comp, writes):
    for a, v in writes:
        comp.evaluate(a)          # set_value needs the cell in the cell map
        comp.set_value(a, v)


def truth(ctx, book, writes, addresses):
    """outcomes on a brand new primed model that has seen only the writes"""
    comp = compile_primed(ctx, book)
    apply_writes(comp, writes)
    return {a: wb.outcome(comp.evaluate, a) for a in addresses}


@functools.lru_cache(maxsize=None)
def _unstable(book):
    """formula cells whose value may differ between two models for reasons outside of the properties: volatile
    functions (NOW, TODAY, RAND) and everything computed from them"""
    import networkx as nx

    class _Ctx:      # stage() only needs tmpdir
        pass
    info = scan(book)
    vol = [a for a, t in info['text'].items() if VOLATILE.search(t)]
    if not vol:
        return frozenset()
    import tempfile
    c = _Ctx()
    c.tmpdir = tempfile.mkdtemp(prefix='vp-unstable-')
    try:
        comp = compile_primed(c, book)
        for a in info['formulas']:
            wb.outcome(comp.evaluate, a)
        out = set(vol)
        for a in vol:
            node = comp.cell_map.get(a)
            if node is not None and node in comp.dep_graph:
                out |= {n.address.address for n in nx.descendants(comp.dep_graph, node)}
        return frozenset(out)
    finally:
        shutil.rmtree(c.tmpdir, ignore_errors=True)


def stable_formulas(book):
    u = _unstable(book)
    return [a for a in scan(book)['formulas'] if a not in u]


def acyclic_books():
    """(yearfrac.xlsx is left out: 2737 formulas in chains several hundred cells deep, where a direct evaluate of
    a late cell on a fresh model ends in RecursionError - a resource limit, not a value)"""
    return [b for b in names() if 0 < len(scan(b)['formulas']) < 1500 and not scan(b)['iterative']]


def pick_writes(rng, book, k):
    nums = sorted(scan(book)['numbers'].items())
    out = []
    for a, v in rng.sample(nums, min(k, len(nums))):
        new = rng.choice([n for n in NEW_NUMBERS if n != v] + [v + 1, v * 2 + 1, -v if v else 4])
        out.append((a, new))
    return out


def case_rng(book, case_seed):
    return random.Random(f'{book}/{case_seed}')


def neighbourhood(book, address, how):
    """a range address containing ``address`` ('row': same row, 'col': same column, 'block': 2x2) and the index
    of the cell inside the evaluated result"""
    sheet, ref = address.rsplit('!', 1)
    col, row = wb.split_coord(ref)
    if how == 'row':
        c1 = max(1, col - 1)
        return f'{sheet}!{wb.coord(c1, row)}:{wb.coord(col + 1, row)}', (0, col - c1)
    if how == 'col':
        r1 = max(1, row - 1)
        return f'{sheet}!{wb.coord(col, r1)}:{wb.coord(col, row + 1)}', (row - r1, 0)
    c1, r1 = max(1, col - 1), max(1, row - 1)
    return f'{sheet}!{wb.coord(c1, r1)}:{wb.coord(col, row)}', (row - r1, col - c1)


def element(range_address, value, i, j):
    """pycel returns one-row and one-column ranges as flat tuples, a single cell as a scalar"""
    rows = wb.range_cells(range_address.rsplit('!', 1)[1])
    if len(rows) == 1 and len(rows[0]) == 1:
        return value
    if len(rows) == 1:
        return value[j]
    if len(rows[0]) == 1:
        return value[i]
    return value[i][j]


def cells_of(range_address):
    sheet, ref = range_address.rsplit('!', 1)
    return [f'{sheet}!{c}' for row in wb.range_cells(ref) for c in row]


# ---------------------------------------------------------------------------------------------- C05

def c05_case(ctx, book, case_seed):
    """one value per cell whatever the order and the access path, on a shipped workbook"""
    rng = case_rng(book, case_seed)
    formulas = stable_formulas(book)
    targets = rng.sample(formulas, min(len(formulas), 60))
    writes = pick_writes(rng, book, rng.choice([0, 1, 2]))
    case = {'kind': 'real-book', 'book': book, 'case_seed': case_seed, 'writes': writes}
    want = truth(ctx, book, writes, sorted(targets))
    comp = compile_primed(ctx, book)
    apply_writes(comp, writes)
    order = list(targets)
    rng.shuffle(order)
    ctx.count('real_book_cases')
    ctx.count('real_book:' + book)
    ctx.case(('real', book, case_seed))
    for a in order:
        how = rng.choice(['cell', 'cell', 'row', 'col', 'block'])
        ctx.count('real_access:' + how)
        if how == 'cell':
            got = wb.outcome(comp.evaluate, a)
        else:
            rng_addr, (i, j) = neighbourhood(book, a, how)
            got = wb.outcome(comp.evaluate, rng_addr)
            if got[0] == 'v':
                try:
                    got = ('v', element(rng_addr, got[1], i, j))
                except Exception:
                    ctx.violation('real-workbook/range-result-has-wrong-shape',
                                  f'{book}: evaluate({rng_addr}) returned {got[1]!r:.200}', case)
                    return
            else:
                # a range fails as a whole when one of its cells fails: legitimate only then
                others = truth(ctx, book, writes, cells_of(rng_addr))
                if not any(o[0] == 'x' for o in others.values()):
                    ctx.violation('real-workbook/range-raises-but-its-cells-evaluate',
                                  f'{book}: evaluate({rng_addr}) raised {got[1]} although each of its cells '
                                  f'evaluates on a fresh model (writes {writes})', case)
                    return
                continue
        ctx.count('real_value_compares')
        if not wb.same_outcome(got, want[a]):
            ctx.violation(f'real-workbook/value-depends-on-order-or-access-path/{how}',
                          f'{book}: {a} {scan(book)["text"].get(a)!r:.120} read through {how} after '
                          f'{order.index(a)} other cells gives {got!r:.120}; a fresh model evaluating it directly '
                          f'gives {want[a]!r:.120} (writes {writes})', case)
            return


# ---------------------------------------------------------------------------------------------- C01

def c01_case(ctx, book, case_seed):
    """history of reads and writes on a shipped workbook; every read is compared with a fresh model that has
    seen only the writes"""
    rng = case_rng(book, case_seed)
    formulas = stable_formulas(book)
    info = scan(book)
    case = {'kind': 'real-book', 'book': book, 'case_seed': case_seed}
    comp = compile_primed(ctx, book)
    writes = {}
    observed = []          # (snapshot of writes, address, outcome, step)
    ctx.count('real_book_histories')
    ctx.count('real_book:' + book)
    ctx.case(('real', book, case_seed))
    # a first round builds part of the graph, then writes and reads alternate
    hot = rng.sample(formulas, min(len(formulas), 25))
    steps = []
    for step in range(rng.randint(12, 30)):
        if step < 4 or rng.random() < 0.65:
            a = rng.choice(hot) if rng.random() < 0.8 else rng.choice(formulas)
            steps.append(('evaluate', a))
            observed.append((tuple(sorted(writes.items())), a, wb.outcome(comp.evaluate, a), step))
        else:
            (a, v), = pick_writes(rng, book, 1)
            if a in writes and rng.random() < 0.3:
                v = info['numbers'][a]          # back to the value of the file
            steps.append(('set_value', a, v))
            o = wb.outcome(apply_writes, comp, [(a, v)])
            if o[0] == 'x':
                ctx.violation('real-workbook/set_value-raises', f'{book}: set_value({a}, {v!r}) raised {o[1]}',
                              dict(case, steps=steps))
                return
            writes[a] = v
            ctx.count('real_writes')
    by_snapshot = {}
    for snap, a, out, step in observed:
        by_snapshot.setdefault(snap, []).append((a, out, step))
    for snap, obs in by_snapshot.items():
        want = truth(ctx, book, list(snap), sorted({a for a, _, _ in obs}))
        for a, out, step in obs:
            ctx.count('real_value_compares')
            if not wb.same_outcome(out, want[a]):
                ctx.violation('real-workbook/stale-value',
                              f'{book}: step {step} evaluate({a}) {info["text"].get(a)!r:.120} returned {out!r:.120} '
                              f'but a fresh model with the same inputs gives {want[a]!r:.120}; writes so far '
                              f'{list(snap)}; history {steps[:step + 1]!r:.600}', dict(case, steps=steps))
                return


# ---------------------------------------------------------------------------------------------- C03

def c03_case(ctx, book, case_seed):
    """save / load of a shipped workbook in each format: same values, same reaction to a later write"""
    from pycel import ExcelCompiler
    rng = case_rng(book, case_seed)
    formulas = stable_formulas(book)
    fmt = ('yml', 'json', 'pkl')[case_seed % 3]
    case = {'kind': 'real-book', 'book': book, 'case_seed': case_seed, 'fmt': fmt}
    comp = compile_primed(ctx, book)
    writes = pick_writes(rng, book, rng.choice([0, 1]))
    apply_writes(comp, writes)
    targets = rng.sample(formulas, min(len(formulas), 80))
    before = {a: wb.outcome(comp.evaluate, a) for a in targets}
    ctx.count('real_book_cases')
    ctx.count('real_book:' + book)
    ctx.count('real_fmt:' + fmt)
    ctx.case(('real', book, case_seed))
    base = stage(ctx, book)
    try:
        comp.to_file(base, file_types=(fmt,))
        loaded = ExcelCompiler.from_file(f'{base}.{fmt}')
    except Exception as exc:
        if not wb.raised_outside_harness(exc):
            raise
        if any(o[0] == 'x' for o in before.values()) or \
                any(wb.outcome(comp.evaluate, a)[0] == 'x' for a in scan(book)['formulas']):
            # (the writes left a cell which cannot be evaluated: a save evaluates it and fails the same way)
            ctx.count('real_models_with_failing_cells_not_saved')
            return
        ctx.violation(f'real-workbook/save-or-load-raises/{fmt}', f'{book}: {wb.describe(exc)}', case)
        return
    finally:
        for f in glob.glob(base + '.*'):
            if not f.endswith('.xlsx'):
                os.remove(f)
    for a in targets:
        got = wb.outcome(loaded.evaluate, a)
        ctx.count('real_value_compares')
        if not wb.same_outcome(got, before[a]):
            ctx.violation(f'real-workbook/value-differs-after-load/{fmt}',
                          f'{book}: {a} {scan(book)["text"].get(a)!r:.120} was {before[a]!r:.120} and is '
                          f'{got!r:.120} in the model loaded from {fmt} (writes {writes})', case)
            return
    later = pick_writes(rng, book, 2)
    for model in (comp, loaded):
        o = wb.outcome(apply_writes, model, later)
        if o[0] == 'x':
            ctx.violation(f'real-workbook/write-after-load-raises/{fmt}',
                          f'{book}: writes {later} raised {o[1]} on the '
                          f'{"loaded" if model is loaded else "original"} model', case)
            return
    # (OFFSET / INDIRECT may now point at cells that were never part of the saved model: the original reads them
    #  from the workbook, a loaded model has no workbook - the documented limit of a saved model)
    dynamic = _computed_reference_cells(book)
    for a in targets:
        if a in dynamic:
            continue
        x, y = wb.outcome(comp.evaluate, a), wb.outcome(loaded.evaluate, a)
        ctx.count('real_value_compares')
        if not wb.same_outcome(x, y):
            ctx.violation(f'real-workbook/differs-after-write-on-loaded-model/{fmt}',
                          f'{book}: after writes {later} {a} {scan(book)["text"].get(a)!r:.120} is {x!r:.120} on the '
                          f'original and {y!r:.120} on the model loaded from {fmt}', case)
            return


# ---------------------------------------------------------------------------------------------- C08

def c08_case(ctx, book, case_seed):
    """trim_graph on a shipped workbook: outputs as a function of the inputs, twin run with the untrimmed model"""
    import networkx as nx
    from pycel import ExcelCompiler
    rng = case_rng(book, case_seed)
    formulas = stable_formulas(book)
    info = scan(book)
    case = {'kind': 'real-book', 'book': book, 'case_seed': case_seed}
    # inputs: numeric cells that something depends on (found on a scout model); outputs: their dependants and others
    scout = compile_primed(ctx, book)
    # (cells computed through OFFSET / INDIRECT can reach cells outside of the trimmed or saved model)
    dynamic = _computed_reference_cells(book)
    formulas = [a for a in formulas if a not in dynamic]
    if not formulas:
        return
    some = rng.sample(formulas, min(len(formulas), 80))
    for a in some:
        wb.outcome(scout.evaluate, a)
    g = scout.dep_graph
    feeding = [a for a in sorted(info['numbers']) if a in scout.cell_map and scout.cell_map[a] in g and
               g.out_degree(scout.cell_map[a]) > 0]
    if not feeding:
        ctx.count('real_book_no_inputs')
        return
    inputs = rng.sample(feeding, min(len(feeding), rng.randint(1, 3)))
    deps = set()
    for a in inputs:
        deps |= {n.address.address for n in nx.descendants(g, scout.cell_map[a])}
    dep_formulas = [a for a in some if a in deps]
    if not dep_formulas:
        ctx.count('real_book_no_outputs')
        return
    outputs = rng.sample(dep_formulas, min(len(dep_formulas), rng.randint(1, 4)))
    others = [a for a in some if a not in deps]
    if others and rng.random() < 0.5:
        outputs.append(rng.choice(others))
    reload_fmt = rng.choice([None, None, 'yml', 'json', 'pkl'])
    pre = rng.choice([None, 'outputs'])
    U = compile_primed(ctx, book)
    T = compile_primed(ctx, book)
    if pre:
        for m in (U, T):
            for a in outputs:
                wb.outcome(m.evaluate, a)
    try:
        T.trim_graph(inputs, outputs)
        if reload_fmt:
            base = stage(ctx, book)
            T.to_file(base, file_types=(reload_fmt,))
            T = ExcelCompiler.from_file(f'{base}.{reload_fmt}')
            for f in glob.glob(base + '.*'):
                if not f.endswith('.xlsx'):
                    os.remove(f)
    except ValueError as exc:
        if 'no outputs are dependant on it' not in str(exc):
            raise
        ctx.count('real_book_trim_refused')        # an input that none of the chosen outputs depends on
        return
    except Exception as exc:
        if not wb.raised_outside_harness(exc):
            raise
        ctx.violation('real-workbook/trim-or-reload-raises',
                      f'{book}: trim_graph({inputs}, {outputs}) [reload={reload_fmt}] {wb.describe(exc)}', case)
        return
    ctx.count('real_book_trims')
    ctx.count('trims')
    ctx.count('real_book:' + book)
    ctx.case(('real', book, case_seed))
    for round_ in range(4):
        if round_:
            assignment = []
            for a in inputs:
                v = info['numbers'][a]
                assignment.append((a, rng.choice([n for n in NEW_NUMBERS if n != v] + [v + 1, v * 2 + 1, v])))
            for m in (U, T):
                o = wb.outcome(apply_writes, m, assignment)
                if o[0] == 'x':
                    ctx.violation('real-workbook/assignment-raises',
                                  f'{book}: writing {assignment} raised {o[1]} on the '
                                  f'{"trimmed" if m is T else "untrimmed"} model', case)
                    return
        else:
            assignment = 'as in the file'
        for a in outputs:
            x, y = wb.outcome(U.evaluate, a), wb.outcome(T.evaluate, a)
            ctx.count('real_value_compares')
            ctx.count('output_compares')
            if not wb.same_outcome(x, y):
                ctx.violation('real-workbook/output-differs-after-trim',
                              f'{book}: inputs {inputs}, outputs {outputs}, reload={reload_fmt}, evaluated before '
                              f'trim: {pre}; with inputs {assignment} output {a} {info["text"].get(a)!r:.120} is '
                              f'{x!r:.120} untrimmed and {y!r:.120} trimmed', case)
                return


# ---------------------------------------------------------------------------------------------- C04

@functools.lru_cache(maxsize=None)
def _computed_reference_cells(book):
    """formula cells which use OFFSET / INDIRECT (computed references are outside of the C04 statement) and
    everything computed from them"""
    import networkx as nx
    import tempfile

    class _Ctx:
        pass
    info = scan(book)
    dyn = [a for a, t in info['text'].items() if COMPUTED_REF.search(t)]
    if not dyn:
        return frozenset()
    c = _Ctx()
    c.tmpdir = tempfile.mkdtemp(prefix='vp-dynamic-')
    try:
        comp = compile_primed(c, book)
        for a in info['formulas']:
            wb.outcome(comp.evaluate, a)
        out = set(dyn)
        for a in dyn:
            node = comp.cell_map.get(a)
            if node is not None and node in comp.dep_graph:
                out |= {n.address.address for n in nx.descendants(comp.dep_graph, node)}
        return frozenset(out)
    finally:
        shutil.rmtree(c.tmpdir, ignore_errors=True)


def c04_case(ctx, book, case_seed):
    """read trace of a shipped workbook: every read is covered by the declared precedents and by graph edges; a
    changed input only changes cells that have it among their graph ancestors"""
    import networkx as nx
    from vp.checks import c04
    rng = case_rng(book, case_seed)
    info = scan(book)
    dynamic = _computed_reference_cells(book)
    formulas = [a for a in stable_formulas(book)]
    targets = rng.sample(formulas, min(len(formulas), 120))
    case = {'kind': 'real-book', 'book': book, 'case_seed': case_seed}
    meta = {'formulas': {a: {'form': 'real'} for a in info['formulas']}}
    c04.install()
    c04.STATE.update(ctx=ctx, meta=meta, spec={}, found=[], reads=set(), skip_computed=True)
    comp = compile_primed(ctx, book)
    c04.STATE['comp'] = comp
    before = ctx.counters.get('read_events', 0)
    try:
        base = {a: wb.outcome(comp.evaluate, a) for a in targets}
    finally:
        c04.STATE['comp'] = None
        c04.STATE['skip_computed'] = False
    ctx.count('real_book_cases')
    ctx.count('real_book:' + book)
    ctx.count('real_read_events', ctx.counters.get('read_events', 0) - before)
    ctx.case(('real', book, case_seed), nontrivial=ctx.counters.get('read_events', 0) > before)
    found = list(c04.STATE['found']) + c04.check_read_edges(ctx, comp)
    g = comp.dep_graph
    for x, node in list(comp.cell_map.items()):
        formula = getattr(node, 'formula', None)
        if not formula or not getattr(formula, 'needed_addresses', None):
            continue
        preds = {p.address.address for p in g.predecessors(node)} if node in g else set()
        for need in formula.needed_addresses:
            ctx.count('declared_edge_checks')
            if need.address not in preds:
                found.append(('declared-precedent-without-edge',
                              f'{x} declares {need.address} but the graph has no such edge', x))
    seen = set()
    for key, msg, x in found:
        if key not in seen:
            seen.add(key)
            ctx.violation(f'real-workbook/{key}', f'{book}: {msg}', case)
    if found:
        return
    # influence: perturb one numeric input on fresh models; what changes must have it among its ancestors
    static_targets = [a for a in targets if a not in dynamic]
    for a, new in pick_writes(rng, book, 2):
        other = truth(ctx, book, [(a, new)], static_targets)
        ctx.count('influence_perturbations')
        node_a = comp.cell_map.get(a)
        for x in static_targets:
            if base[x][0] == 'x' or other[x][0] == 'x':
                continue
            if not wb.same_outcome(base[x], other[x]):
                ctx.count('influence_changes_seen')
                node = comp.cell_map.get(x)
                ok = (node_a is not None and node is not None and node_a in g and node in g and
                      nx.has_path(g, node_a, node))
                if not ok:
                    ctx.violation('real-workbook/influence-outside-ancestors',
                                  f'{book}: changing {a} from {info["numbers"][a]!r} to {new!r} changes {x} '
                                  f'{info["text"].get(x)!r:.120} ({base[x]!r:.80} -> {other[x]!r:.80}) but {a} is not '
                                  f'an ancestor of {x} in the dependency graph', case)
                    return


# ---------------------------------------------------------------------------------------------- C12

def _sheet_files(z):
    """{sheet name: path of its xml inside the archive}"""
    book = z.read('xl/workbook.xml').decode('utf-8')
    rels = z.read('xl/_rels/workbook.xml.rels').decode('utf-8')
    import html
    targets = {}
    for m in re.finditer(r'<Relationship\b[^>]*>', rels):
        rid, target = re.search(r'\bId="([^"]+)"', m.group(0)), re.search(r'\bTarget="([^"]+)"', m.group(0))
        if rid and target:
            t = target.group(1)
            targets[rid.group(1)] = t.lstrip('/') if t.startswith('/') else 'xl/' + t
    out = {}
    for m in re.finditer(r'<sheet\b[^>]*>', book):
        name, rid = re.search(r'\bname="([^"]*)"', m.group(0)), re.search(r'\br:id="([^"]+)"', m.group(0))
        if name and rid and rid.group(1) in targets:
            out[html.unescape(name.group(1))] = targets[rid.group(1)]
    return out


def alter_stored_number(src, dst, sheet, coord, new):
    """copy the workbook with the stored (cached) numeric result of one formula cell replaced; False when
    the cell does not have the plain <c r=".."><f>..</f><v>number</v></c> form"""
    import zipfile
    with zipfile.ZipFile(src) as z:
        files = _sheet_files(z)
        if sheet not in files:
            return False
        xml = z.read(files[sheet]).decode('utf-8')
        pat = re.compile(r'(<c r="%s"(?![^>]*\bt=)[^>]*>\s*<f\b(?:[^>]*/>|[^>]*>.*?</f>)\s*<v>)([^<]*)(</v>)' % coord,
                         re.S)
        m = pat.search(xml)
        if not m:
            return False
        try:
            float(m.group(2))
        except ValueError:
            return False
        xml = xml[:m.start(2)] + repr(float(new)) + xml[m.end(2):]
        with zipfile.ZipFile(dst, 'w', zipfile.ZIP_DEFLATED) as out:
            for item in z.infolist():
                data = z.read(item.filename)
                out.writestr(item, xml.encode('utf-8') if item.filename == files[sheet] else data)
    return True


@functools.lru_cache(maxsize=None)
def _stored_numbers(book):
    """{address: stored numeric result} of the formula cells, read with openpyxl (data_only)"""
    import openpyxl
    with warnings.catch_warnings():
        warnings.simplefilter('ignore')
        data = openpyxl.load_workbook(_path(book), data_only=True)
    info = scan(book)
    out = {}
    for ws in data:
        for row in ws.iter_rows():
            for c in row:
                a = wb.addr(ws.title, c.coordinate)
                if a in info['text'] and isinstance(c.value, (int, float)) and not isinstance(c.value, bool):
                    out[a] = c.value
    return out


@functools.lru_cache(maxsize=None)
def _baseline_report_empty(book):
    from pycel import ExcelCompiler
    core.silence()
    with warnings.catch_warnings():
        warnings.simplefilter('ignore')
        import contextlib
        import io
        try:
            with contextlib.redirect_stdout(io.StringIO()):
                return ExcelCompiler(filename=_path(book)).validate_calcs() == {}
        except Exception:
            return False


def c12_case(ctx, book, case_seed):
    """validate_calcs on a shipped workbook whose stored result of one formula cell was altered in the file"""
    import networkx as nx
    from pycel import ExcelCompiler
    rng = case_rng(book, case_seed)
    if not _baseline_report_empty(book):
        ctx.count('real_book_baseline_not_empty')       # the unaltered workbook does not validate: nothing to learn
        return
    stored = _stored_numbers(book)
    unstable = _unstable(book)
    cells = [a for a in sorted(stored) if a not in unstable]
    if not cells:
        return
    cell = rng.choice(cells)
    sheet, coord = cell.rsplit('!', 1)
    sheet = sheet.strip("'").replace("''", "'")
    old = stored[cell]
    new = old * 2 + 1 if rng.random() < 0.5 else old + rng.choice([1, -1]) * max(1.0, abs(old) * 0.01)
    if abs(new - old) < max(1.0, abs(old) * 0.01):
        new = old + max(1.0, abs(old) * 0.01)          # (-1 * 2 + 1 is -1 again)
    case = {'kind': 'real-book', 'book': book, 'case_seed': case_seed, 'cell': cell, 'old': old, 'new': new}
    dst = os.path.join(ctx.tmpdir, 'books')
    os.makedirs(dst, exist_ok=True)
    dst = os.path.join(dst, f'{book}-altered.xlsx')
    if not alter_stored_number(_path(book), dst, sheet, coord, new):
        ctx.count('real_book_cell_not_alterable')
        return
    core.silence()
    how = rng.choice(['all', 'cell', 'dependant'])
    try:
        with warnings.catch_warnings():
            warnings.simplefilter('ignore')
            comp = ExcelCompiler(filename=dst)
            scout = compile_primed(ctx, book)
        wb.outcome(scout.evaluate, cell)
        outputs = None
        if how == 'cell':
            outputs = [cell]
        elif how == 'dependant':
            # an output that reads the altered cell (found on a scout model with every formula built)
            for a in scan(book)['formulas']:
                wb.outcome(scout.evaluate, a)
            node = scout.cell_map.get(cell)
            deps = sorted(n.address.address for n in nx.descendants(scout.dep_graph, node)
                          if ':' not in n.address.address) if node is not None and node in scout.dep_graph else []
            deps = [d for d in deps if d not in unstable]
            outputs = [rng.choice(deps)] if deps else [cell]
        import contextlib
        import io
        with contextlib.redirect_stdout(io.StringIO()):
            report = comp.validate_calcs(output_addrs=outputs) if outputs else comp.validate_calcs()
    except Exception as exc:
        if not wb.raised_outside_harness(exc):
            raise
        ctx.violation('real-workbook/validate_calcs-raises', f'{book}: {wb.describe(exc)}', case)
        return
    finally:
        if os.path.exists(dst):
            os.remove(dst)
    ctx.count('real_book_validations')
    ctx.count('real_outputs:' + how)
    ctx.count('real_book:' + book)
    ctx.case(('real', book, case_seed))
    mism = report.get('mismatch', {})
    if cell not in mism:
        ctx.violation('real-workbook/altered-cell-not-reported',
                      f'{book}: stored result of {cell} {scan(book)["text"].get(cell)!r:.100} changed from {old!r} to '
                      f'{new!r} in the file (outputs: {outputs or "all"}); the report lists {list(mism)[:6]} and the '
                      f'sections {[k for k in report if k != "mismatch"]}', case)
        return
    m = mism[cell]
    if not wb.same(m.original, new, rel=1e-12) or not wb.same(m.calced, old, rel=1e-3):
        ctx.violation('real-workbook/mismatch-entry-wrong-values',
                      f'{book}: {cell}: stored {new!r}, result in the unaltered file {old!r}; the report says '
                      f'original={m.original!r} calced={m.calced!r}', case)
        return
    # every other reported cell depends on it (dependency relation of a model with the whole workbook built)
    others = [a for a in mism if a != cell]
    if others:
        for a in scan(book)['formulas']:
            wb.outcome(scout.evaluate, a)
        node = scout.cell_map.get(cell)
        deps = {n.address.address for n in nx.descendants(scout.dep_graph, node)} \
            if node is not None and node in scout.dep_graph else set()
        for a in others:
            ctx.count('real_other_reported_cells_checked')
            if a not in deps and a not in unstable:
                ctx.violation('real-workbook/unrelated-cell-reported',
                              f'{book}: only the stored result of {cell} was altered, but the report also lists '
                              f'{a}, which does not depend on it', case)
                return


# ---------------------------------------------------------------------------------------------- C09

def _load_formulas(book):
    import openpyxl
    with warnings.catch_warnings():
        warnings.simplefilter('ignore')
        return openpyxl.load_workbook(_path(book))


def _compile_book(workbook, **kw):
    from pycel import ExcelCompiler
    core.silence()
    with warnings.catch_warnings():
        warnings.simplefilter('ignore')
        return ExcelCompiler(excel=workbook, **kw)


@functools.lru_cache(maxsize=None)
def _descendants(book):
    """{plain formula cell: sorted addresses computed from it} on a model with every formula built"""
    import networkx as nx
    info = scan(book)
    comp = _compile_book(_load_formulas(book))
    for a in info['formulas']:
        wb.outcome(comp.evaluate, a)
    out = {}
    for a, t in info['text'].items():
        if t.startswith('{'):
            continue
        node = comp.cell_map.get(a)
        if node is not None and node in comp.dep_graph:
            out[a] = sorted(n.address.address for n in nx.descendants(comp.dep_graph, node))
    return out


def c09_case(ctx, book, case_seed):
    """a formula cell of a shipped workbook is made to fail; the follow-up history is the oracle"""
    from vp import plugins
    from vp.checks import c09
    rng = case_rng(book, case_seed)
    info = scan(book)
    desc = _descendants(book)
    dynamic, unstable = _computed_reference_cells(book), _unstable(book)
    # a failing cell that something depends on, now and then one that nothing depends on
    feeding = [a for a, d in sorted(desc.items()) if any(':' not in x for x in d) and a not in unstable]
    pool = feeding if feeding and rng.random() < 0.85 else [a for a in sorted(desc) if a not in unstable]
    if not pool:
        return
    F = rng.choice(pool)
    kind = rng.choice(['nosuch', 'failk-always', 'failk-once', 'nosuch-keyword', 'failname', 'nosuch-constant'])
    case = {'kind': 'real-book', 'book': book, 'case_seed': case_seed, 'failing': F, 'fault': kind}
    related = set(desc[F]) | {F}
    dependants = [a for a in desc[F] if ':' not in a and a in info['text'] and a not in unstable]
    sheet, coord = F.rsplit('!', 1)
    sheet = sheet.strip("'").replace("''", "'")
    faulty = _load_formulas(book)
    faulty[sheet][coord] = c09.wrap(info['text'][F], kind, 'f')
    plugins.reset()
    comp = _compile_book(faulty, plugins='vp.plugins')
    fresh = _compile_book(_load_formulas(book))
    key_base = kind

    def bad(key, msg):
        ctx.violation(f'real-workbook/{key}/{key_base}', f'{book}: {msg} [failing cell {F} {info["text"][F]!r:.100}]',
                      case)

    ctx.count('real_book_cases')
    ctx.count('real_book:' + book)
    ctx.count('real_fault:' + kind)
    ctx.case(('real', book, case_seed))
    touch = rng.choice(dependants) if dependants and rng.random() < 0.5 else F
    r = c09.call(comp.evaluate, touch)
    if r[0] == 'v' and touch != F:
        r = c09.call(comp.evaluate, F)      # the dependant does not read the cell on this path (IF, CHOOSE ...)
    if r[0] == 'v':
        bad('injected-fault-returns-a-value', f'evaluate({F!r}) = {r[1]!r} although its formula must fail')
        return
    if r[0] == 'other':
        bad('first-failure-is-not-a-pycel-error', f'evaluate({touch!r}) raised {r[1]}')
        return
    ctx.count('real_faults_raised')
    # retry
    r = c09.call(comp.evaluate, F)
    ctx.count('real_retries')
    if r[0] == 'other':
        bad('retry-raises-a-bare-exception', f'retry evaluate({F!r}) raised {r[1]}')
        return
    if r[0] == 'v':
        want = c09.call(fresh.evaluate, F)
        if kind != 'failk-once':
            bad('retry-returns-a-value', f'retry evaluate({F!r}) = {r[1]!r} although it must fail again')
            return
        if want[0] != 'v' or not wb.same(r[1], want[1], rel=1e-6):
            bad('value-after-transient-failure-differs',
                f'after the one-shot fault evaluate({F!r}) = {r[1]!r}, the unmodified workbook gives {want!r}')
            return
    # unrelated cells
    others = [a for a in stable_formulas(book) if a not in related and a not in dynamic]
    for a in rng.sample(others, min(len(others), 30)):
        got, want = c09.call(comp.evaluate, a), c09.call(fresh.evaluate, a)
        ctx.count('real_unrelated_compares')
        if got[0] != want[0] or (got[0] == 'v' and not wb.same(got[1], want[1], rel=1e-6)):
            bad('unrelated-cell-differs', f'evaluate({a!r}) {info["text"].get(a)!r:.100} = {got!r:.100} after the '
                f'failure; the unmodified workbook gives {want!r:.100}')
            return
    # repair
    const = rng.choice([3, 0.5, -2, 40000, 0, 0.0])
    for m in (comp, fresh):
        if F not in m.cell_map:
            c09.call(m.evaluate, F)
        r = c09.call(m.set_value, F, const)
        if r[0] != 'v':
            bad('repair-set_value-raises', f'set_value({F!r}, {const!r}) raised {r[1]} on the '
                f'{"failing" if m is comp else "unmodified"} model')
            return
    ctx.count('real_repairs')
    sample = rng.sample(dependants, min(len(dependants), 25)) + rng.sample(others, min(len(others), 10)) + [F]
    for a in sample:
        if a in dynamic:
            continue
        got, want = c09.call(comp.evaluate, a), c09.call(fresh.evaluate, a)
        ctx.count('real_repair_compares')
        if got[0] != want[0] or (got[0] == 'v' and not wb.same(got[1], want[1], rel=1e-6)):
            which = 'overwritten' if a == F else ('dependant' if a in related else 'unrelated')
            bad(f'after-repair-differs/{which}', f'after overwriting {F} with {const!r} evaluate({a!r}) '
                f'{info["text"].get(a)!r:.100} = {got!r:.100}; the unmodified workbook with the same constant gives '
                f'{want!r:.100}')
            return


def run_cases(ctx, fn, books, per_shard, fraction=0.3):
    """(book, case_seed) pairs spread over the shards: at most ``per_shard`` cases and ``fraction`` of the budget"""
    stop_at = ctx.budget * (1 - fraction)
    done = k = 0
    while books and done < per_shard and ctx.time_left() > stop_at:
        k += 1
        if not ctx.mine(k):
            continue
        fn(ctx, books[k % len(books)], ctx.seed * 100003 + k)
        done += 1
