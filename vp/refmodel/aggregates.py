"""Reference model for the range aggregates (property C14), written from the property statement.

Linear scan over the cells of the ranges (arguments in order, each range row-major):

* an *error cell* is one of the seven error-code strings;
* a *numeric cell* is an int or float that is not a logical; text (also text that looks like a
  number), logicals and blanks (None) are ignored;
* SUM/AVERAGE/MIN/MAX: first error cell if there is one, else the aggregate of the numeric cells
  (SUM of nothing = 0, MIN/MAX of nothing = 0, AVERAGE of nothing = #DIV/0!);
* COUNT: number of numeric cells (the statement's "first error value" clause read literally would
  give the first error: ``acceptable`` admits both);
* SUMPRODUCT of equally shaped ranges: sum over positions of the product of the cells at that
  position, a cell that is not numeric counting as 0.

All arithmetic is exact (``fractions.Fraction``; every float is a dyadic rational), so the model has
no rounding of its own; ``close`` then allows the implementation a relative error in units of the
sum of the magnitudes of the terms.

``conv`` (cell -> number or None) is the numeric filter; the default is the statement's.  Other
filters are only used by the check to *name* a deviation (e.g. "logicals were counted").
"""
from fractions import Fraction

ERRORS = ('#NULL!', '#DIV/0!', '#VALUE!', '#REF!', '#NAME?', '#NUM!', '#N/A')
_ERRSET = frozenset(ERRORS)
DIV0 = '#DIV/0!'
VALUE = '#VALUE!'

FUNCS = ('SUM', 'AVERAGE', 'MIN', 'MAX', 'COUNT')
SUBTOTAL = {1: 'AVERAGE', 2: 'COUNT', 4: 'MAX', 5: 'MIN', 9: 'SUM',
            101: 'AVERAGE', 102: 'COUNT', 104: 'MAX', 105: 'MIN', 109: 'SUM'}


def is_error(v):
    return isinstance(v, str) and v in _ERRSET


def is_logical(v):
    return isinstance(v, bool)


def is_numeric(v):
    return isinstance(v, (int, float)) and not isinstance(v, bool)


def strict(v):
    """the statement's filter: exactly the numeric cells"""
    return v if is_numeric(v) else None


def cells_of(ranges):
    """all cells, arguments in order, each range row by row"""
    for rng in ranges:
        for row in rng:
            for v in row:
                yield v


def errors_in(ranges):
    """error cells in scan order"""
    return [v for v in cells_of(ranges) if is_error(v)]


def numerics_in(ranges, conv=strict):
    out = []
    for v in cells_of(ranges):
        if is_error(v):
            continue
        x = conv(v)
        if x is not None:
            out.append(x)
    return out


def shape(rng):
    return (len(rng), len(rng[0]) if rng else 0)


def aggregate(func, nums):
    """('n', exact value, scale) | ('e', code) for an error-free list of numeric cells.
    scale = sum of the magnitudes of the terms the result was formed from (for tolerances)"""
    fr = [Fraction(x) for x in nums]
    if func == 'COUNT':
        return ('n', Fraction(len(fr)), Fraction(0))
    if func == 'SUM':
        return ('n', sum(fr, Fraction(0)), sum((abs(x) for x in fr), Fraction(0)))
    if func == 'AVERAGE':
        if not fr:
            return ('e', DIV0)
        return ('n', sum(fr, Fraction(0)) / len(fr), sum((abs(x) for x in fr), Fraction(0)) / len(fr))
    if func == 'MIN':
        return ('n', min(fr) if fr else Fraction(0), Fraction(0))
    if func == 'MAX':
        return ('n', max(fr) if fr else Fraction(0), Fraction(0))
    raise ValueError(func)


def value(func, ranges, conv=strict, pick='first'):
    """the model's value of FUNC(range, range, ...): ('n', exact, scale) | ('e', code).
    ``pick``: which error cell decides - 'first' (the statement's), 'last', or 'ignore' (error
    cells are skipped like text; the second reading of COUNT, and a way to name deviations)"""
    errs = errors_in(ranges)
    if errs and pick == 'first':
        return ('e', errs[0])
    if errs and pick == 'last':
        return ('e', errs[-1])
    return aggregate(func, numerics_in(ranges, conv))


def sumproduct(ranges, conv=strict, errors_as_zero=False):
    """('n', exact, scale) | ('e', code) | ('shape',) when the shapes differ"""
    if len({shape(r) for r in ranges}) != 1:
        return ('shape',)
    errs = errors_in(ranges)
    if errs and not errors_as_zero:
        return ('e', errs[0])
    rows, cols = shape(ranges[0])
    total, scale = Fraction(0), Fraction(0)
    for i in range(rows):
        for j in range(cols):
            p = Fraction(1)
            for rng in ranges:
                v = rng[i][j]
                x = None if is_error(v) else conv(v)
                p *= Fraction(x) if x is not None else 0
            total += p
            scale += abs(p)
    return ('n', total, scale)


# --------------------------------------------------------------------------- comparing an observation

def plain(got):
    """a result must be a python int / float / str (no logical; no numpy integer, which the other functions do not
    take for a number).  An instance of a subclass of float - MAX handing back the cell it found - is a float."""
    return type(got) in (int, str) or isinstance(got, float)


def as_fraction(got):
    """exact value of an observed number, None if it is not a finite number"""
    if isinstance(got, bool) or not isinstance(got, (int, float)):
        try:                       # numpy scalars: judge the value, the type is judged by plain()
            import numpy as np
            if isinstance(got, (np.integer, np.floating)) and not isinstance(got, np.bool_):
                got = got.item()
            else:
                return None
        except Exception:  # noqa
            return None
    try:
        return Fraction(got)
    except (ValueError, OverflowError):      # nan / inf
        return None


def close(got, want, rel):
    """observed ``got`` equals the model's ('n', exact, scale) within rel * scale (rel 0: exactly)"""
    g = as_fraction(got)
    if g is None:
        return False
    return abs(g - want[1]) <= Fraction(rel) * want[2]


def matches(got, want, rel):
    if want[0] == 'e':
        return isinstance(got, str) and got == want[1]
    return close(got, want, rel)


def acceptable(func, ranges, rel):
    """list of model values the statement admits for FUNC over these ranges (first = the primary)"""
    out = [value(func, ranges)]
    if func == 'COUNT' and errors_in(ranges):
        out.append(value(func, ranges, pick='ignore'))     # Excel: COUNT just does not count them
    return out


def accepts(func, ranges, got, rel):
    return any(matches(got, w, rel) for w in acceptable(func, ranges, rel))
