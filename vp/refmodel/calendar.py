"""Reference model of Excel's 1900 date system, written from the statement of C17 only.

Nothing here imports pycel, datetime or calendar: day counts come from the closed-form
civil-calendar arithmetic below (proleptic Gregorian, any integer year), so the model also covers
the months before January 1900 and after December 9999 that DATE/EDATE/EOMONTH carry through.
``selfcheck()`` ties the arithmetic to ``datetime`` on a few thousand dates (a failure there is a
harness error, never a verdict).

The 1900 calendar, as the statement fixes it:
  serial 0        = 1900-01-00
  serial 1..59    = 1900-01-01 .. 1900-02-28
  serial 60       = 1900-02-29 (does not exist in the Gregorian calendar)
  serial n > 60   = proleptic Gregorian 1899-12-30 + n days
  last serial     = 2958465 (9999-12-31)
February 1900 therefore has 29 days in this calendar and every other month its Gregorian length.
"""

MAX_SERIAL = 2958465          # 9999-12-31
NUM = '#NUM!'


def days_from_civil(y, m, d):
    """days since 1970-01-01 of the proleptic Gregorian date y-m-d (1 <= m <= 12, any integer y;
    d may be any integer: it is only added)"""
    y -= m <= 2
    era = y // 400
    yoe = y - era * 400
    mp = (m + 9) % 12                       # March = 0
    doy = (153 * mp + 2) // 5
    doe = yoe * 365 + yoe // 4 - yoe // 100 + doy
    return era * 146097 + doe - 719468 + (d - 1)


def civil_from_days(z):
    """inverse of days_from_civil"""
    z += 719468
    era = z // 146097
    doe = z - era * 146097
    yoe = (doe - doe // 1460 + doe // 36524 - doe // 146096) // 365
    y = yoe + era * 400
    doy = doe - (365 * yoe + yoe // 4 - yoe // 100)
    mp = (5 * doy + 2) // 153
    d = doy - (153 * mp + 2) // 5 + 1
    m = mp + 3 if mp < 10 else mp - 9
    return (y + (m <= 2), m, d)


_D_18991230 = days_from_civil(1899, 12, 30)
_D_18991231 = _D_18991230 + 1


def parts(n):
    """(year, month, day) shown for the serial day n, 0 <= n <= MAX_SERIAL"""
    if not (0 <= n <= MAX_SERIAL):
        raise ValueError(n)
    if n == 0:
        return (1900, 1, 0)
    if n <= 31:
        return (1900, 1, n)
    if n <= 59:
        return (1900, 2, n - 31)
    if n == 60:
        return (1900, 2, 29)
    return civil_from_days(_D_18991230 + n)


def carry_month(y, m):
    """normalise a month outside 1..12 by carrying whole years"""
    t = y * 12 + (m - 1)
    return t // 12, t % 12 + 1


def month_first(y, m):
    """serial number of day 1 of month (y, m), 1 <= m <= 12, in the 1900 calendar continued in both
    directions (<= 0 before January 1900, > MAX_SERIAL after December 9999)"""
    if (y, m) >= (1900, 3):
        return days_from_civil(y, m, 1) - _D_18991230
    return days_from_civil(y, m, 1) - _D_18991231


def month_len(y, m):
    y2, m2 = carry_month(y, m + 1)
    return month_first(y2, m2) - month_first(y, m)


def in_range(s):
    return 0 <= s <= MAX_SERIAL


def date_serial(y, m, d):
    """DATE(y, m, d) by carrying, for 1900 <= y <= 9999 and any integers m, d.
    -> (serial or '#NUM!', first_in_range) where first_in_range says whether day 1 of the
    normalised month is itself a representable serial (1..MAX_SERIAL)"""
    yy, mm = carry_month(y, m)
    first = month_first(yy, mm)
    s = first + d - 1
    return (s if in_range(s) else NUM), 1 <= first <= MAX_SERIAL


def shifted_month(n, k):
    """(y, m) of the month k months away from the month of serial n"""
    y, m, _ = parts(n)
    return carry_month(y, m + k)


def month_representable(y, m):
    """the whole month lies in 1900-01 .. 9999-12"""
    return (1900, 1) <= (y, m) <= (9999, 12)


def eomonth(n, k):
    """serial of the last day of the month k months after the month of n, '#NUM!' outside
    1900-01..9999-12"""
    y, m = shifted_month(n, k)
    if not month_representable(y, m):
        return NUM
    return month_first(y, m) + month_len(y, m) - 1


def edate(n, k):
    """-> (strict, alternatives): the day with the same day-of-month k months away.
    strict is the answer when that day exists in the target month (or '#NUM!' when the target
    month is outside 1900-01..9999-12); when it does not exist (31st into a 30 day month, ...)
    strict is None and alternatives lists the two readings of 'shift by whole months': the last
    day of the target month (what Excel does) and the carried day DATE(y, m + k, d)."""
    y, m, d = parts(n)
    y2, m2 = carry_month(y, m + k)
    if not month_representable(y2, m2):
        return NUM, ()
    first, ln = month_first(y2, m2), month_len(y2, m2)
    if d <= ln:
        s = first + d - 1
        return (s if in_range(s) else NUM), ()
    clamp = first + ln - 1
    carried = first + d - 1
    return None, (clamp, carried if in_range(carried) else NUM)


def hms(k):
    """(hour, minute, second) of second-of-day k"""
    k %= 86400
    return k // 3600, k // 60 % 60, k % 60


def year_ends():
    """serials of every 31 December and 1 January, 1900..9999"""
    out = []
    for y in range(1900, 10000):
        out.append(month_first(y, 1))
        out.append(month_first(y, 12) + 30)
    return out


def selfcheck():
    """tie the arithmetic above to datetime (raises AssertionError = harness error)"""
    import datetime
    base = datetime.date(1899, 12, 30)
    for n in list(range(61, 3000)) + list(range(61, MAX_SERIAL, 9973)) + [MAX_SERIAL]:
        d = base + datetime.timedelta(days=n)
        assert parts(n) == (d.year, d.month, d.day), n
        assert month_first(d.year, d.month) + d.day - 1 == n, n
        assert civil_from_days(days_from_civil(d.year, d.month, d.day)) == (d.year, d.month, d.day)
    assert [parts(n) for n in (0, 1, 31, 32, 59, 60, 61)] == [
        (1900, 1, 0), (1900, 1, 1), (1900, 1, 31), (1900, 2, 1), (1900, 2, 28), (1900, 2, 29), (1900, 3, 1)]
    assert month_len(1900, 2) == 29 and month_len(1900, 1) == 31 and month_len(1899, 12) == 31
    assert month_len(2000, 2) == 29 and month_len(2100, 2) == 28 and month_len(9999, 12) == 31
    assert month_first(1900, 1) == 1 and month_first(1899, 12) == -30 and month_first(10000, 1) == MAX_SERIAL + 1
    assert date_serial(2020, 3, 0) == (43890, True) and parts(43890) == (2020, 2, 29)
    assert date_serial(1900, 3, 0) == (60, True) and date_serial(1900, 1, 0) == (0, True)
    assert date_serial(9999, 12, 32) == (NUM, True) and date_serial(9999, 13, 0) == (MAX_SERIAL, False)
    assert eomonth(1, 1) == 60 and eomonth(0, 0) == 31 and eomonth(15, -1) == NUM
    assert eomonth(MAX_SERIAL, 0) == MAX_SERIAL and eomonth(MAX_SERIAL, 1) == NUM
    assert edate(31, 1) == (None, (60, 62)) and edate(31, 2) == (91, ())
    assert hms(86399) == (23, 59, 59) and hms(3661) == (1, 1, 1)
