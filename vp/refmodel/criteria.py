"""Three-valued reference matcher for the criteria of COUNTIF(S)/SUMIF(S)/AVERAGEIF(S)/MAXIFS/MINIFS.

Written from the statement of property C15, not from pycel:

    "... exactly the positions whose criteria-range cells satisfy every criterion: numeric criteria
    and comparison prefixes compare numerically (text never satisfies <,>; always satisfies <>),
    text criteria compare case-insensitively with ? and * wildcards ..."

``match(cell, criterion)`` answers YES / NO / OPEN.  OPEN means "the statement does not fix it, or
two defensible readings of it disagree"; callers must never assert a value for an OPEN cell.
The verdict is computed as *agreement of all readings*:

* number cell x numeric criterion (plain number, "=n", "<>n", "<n", ...): the numeric comparison.
* text cell (incl. "" and numeric-looking text) x numeric criterion: text reading = matches only
  "<>" ("text never satisfies <,>; always satisfies <>"; a text is not equal to a number).  For
  numeric-looking text ("3") there is a second reading (coerce to the number): the verdict is
  closed only where both agree ("3" under "=3" / "<>3" / "<5" is OPEN, under "=4" it is NO).
* text cell x text criterion with "=" / no operator / "<>": full-string, case-insensitive
  wildcard match (? one character, * any sequence incl. the empty one and incl. newlines; every
  other character literal) and its complement for "<>".  The statement does not mention "~", so a
  criterion containing "~" is read twice - Excel's escape ("~*" = literal *, "~?", "~~") and "~ is
  an ordinary character" - and is closed only where the readings agree.  Case-insensitivity is
  evaluated with str.lower() and str.casefold(); closed only where they agree.
* text cell x "<text" / ">text" / "<=" / ">=": closed only when cell and criterion are non-empty
  pure ASCII letters (collation of digits, punctuation, accents is not fixed by the statement)
  and the criterion holds no wildcard character.
* number / logical / blank cell x text criterion: a non-text cell can only match through a string
  rendering ("5", "TRUE", ""); if no rendering matches, "=" is NO and "<>" is YES for all readings
  (blank under "<>": always OPEN, as the design says); otherwise OPEN.
* logical cell x "=n": two readings (not a number / 0 or 1); closed where they agree.  Logical cell
  under <, >, <=, >=, <>: OPEN.  Blank cell: "=n" is NO for n != 0, OPEN for n = 0; under the
  comparison operators and "<>": OPEN.
* criteria "" / "=" / "<>" (empty value): non-empty text, numbers and logicals do not match "" and
  "=", and do match "<>"; blank cells and "" cells are OPEN (Excel itself distinguishes them).
  "<", ">", "<=", ">=" with nothing after them: OPEN.
* logical criteria (TRUE, "TRUE", "=false", "<>TRUE"), error-code criteria, criteria that only
  python's float() takes for a number ("nan", "inf", "1_0", " 3 "), and error-value cells in a
  criteria range: OPEN for every cell.
"""
import re

YES, NO, OPEN = 'yes', 'no', 'open'

ERROR_CODES = ('#NULL!', '#DIV/0!', '#VALUE!', '#REF!', '#NAME?', '#NUM!', '#N/A')
_NUM_RE = re.compile(r'^[+-]?(\d+(\.\d*)?|\.\d+)([eE][+-]?\d+)?$')
_OPS = ('<=', '>=', '<>', '<', '>', '=')
_CMP = {
    '=': lambda a, b: a == b, '<>': lambda a, b: a != b,
    '<': lambda a, b: a < b, '>': lambda a, b: a > b,
    '<=': lambda a, b: a <= b, '>=': lambda a, b: a >= b,
}
REGEX_META = set('.^$+{}[]|()\\')


def is_num(v):
    return isinstance(v, (int, float)) and not isinstance(v, bool)


def _float_ok(s):
    try:
        float(s)
        return True
    except (ValueError, TypeError):
        return False


def cell_class(v):
    """number | numeric-text | text | text-with-newline | empty-text | logical | blank | error | odd"""
    if v is None:
        return 'blank'
    if isinstance(v, bool):
        return 'logical'
    if is_num(v):
        return 'number' if v == v and abs(v) != float('inf') else 'odd'
    if isinstance(v, str):
        if v in ERROR_CODES:
            return 'error'
        if v == '':
            return 'empty-text'
        if _NUM_RE.match(v):
            return 'numeric-text'
        if _float_ok(v):
            return 'odd'
        return 'text-with-newline' if '\n' in v else 'text'
    return 'odd'


TEXT_CLASSES = ('text', 'text-with-newline', 'numeric-text', 'empty-text')


class Criterion:
    """parsed criterion: op, kind in number|text|empty|logical|odd, and a class label ``cls``"""

    def __init__(self, raw):
        self.raw = raw
        self.op = '='
        self.explicit_op = False
        self.kind = 'odd'
        self.num = None
        self.text = None
        self.readings = ()
        self.has_wild = self.has_tilde = self.has_meta = False
        if isinstance(raw, bool):
            self.kind = 'logical'
        elif is_num(raw):
            if raw == raw and abs(raw) != float('inf'):
                self.kind, self.num = 'number', raw
        elif isinstance(raw, str):
            rest = raw
            for op in _OPS:
                if raw.startswith(op):
                    self.op, self.explicit_op, rest = op, True, raw[len(op):]
                    break
            if rest == '':
                self.kind = 'empty'
            elif _NUM_RE.match(rest):
                self.kind, self.num = 'number', float(rest)
            elif _float_ok(rest) or rest in ERROR_CODES:
                self.kind = 'odd'
            elif rest.upper() in ('TRUE', 'FALSE'):
                self.kind = 'logical'
            else:
                self.kind, self.text = 'text', rest
                self.has_wild = any(ch in rest for ch in '*?')
                self.has_tilde = '~' in rest
                self.has_meta = any(ch in REGEX_META for ch in rest)
                self.readings = _tokenisations(rest)
        self.cls = self._label()

    def _label(self):
        op = self.op
        pre = {'=': 'eq-' if self.explicit_op else '', '<>': 'ne-'}.get(op, 'cmp-')
        if self.kind == 'number':
            return pre + 'number'
        if self.kind == 'empty':
            return pre + 'empty'
        if self.kind == 'text':
            base = 'tilde' if self.has_tilde else ('wildcard' if self.has_wild else 'text')
            if self.has_meta and (self.has_wild or self.has_tilde):
                base += '+metachar'
            return pre + base
        return self.kind

    @property
    def value_text(self):
        """the part after the operator, as text (for building "=x" / "<>x")"""
        if isinstance(self.raw, bool):
            return 'TRUE' if self.raw else 'FALSE'
        if is_num(self.raw):
            return repr(self.raw)
        if isinstance(self.raw, str):
            return self.raw[len(self.op):] if self.explicit_op else self.raw
        return None


def _tokenisations(text):
    """the token lists of every reading of ``text`` as a pattern; tokens: ('lit', ch) ('one',) ('many',)"""
    def plain(s):
        return tuple(('many',) if ch == '*' else ('one',) if ch == '?' else ('lit', ch) for ch in s)
    out = [plain(text)]                      # "~" is an ordinary character
    if '~' in text:
        for keep_lone in (True, False):      # Excel escape; a "~" before another character: kept / dropped
            toks, i = [], 0
            while i < len(text):
                ch = text[i]
                if ch == '~':
                    if i + 1 < len(text) and text[i + 1] in '*?~':
                        toks.append(('lit', text[i + 1]))
                        i += 2
                        continue
                    if keep_lone:
                        toks.append(('lit', '~'))
                elif ch == '*':
                    toks.append(('many',))
                elif ch == '?':
                    toks.append(('one',))
                else:
                    toks.append(('lit', ch))
                i += 1
            if tuple(toks) not in out:
                out.append(tuple(toks))
    return tuple(out)


def glob_match(tokens, s, fold):
    """does the whole of ``s`` match the token list (set-of-positions simulation, no regex)"""
    s = fold(s)
    n = len(s)
    cur = {0}
    for t in tokens:
        if t[0] == 'many':
            nxt = set(range(min(cur), n + 1))
        elif t[0] == 'one':
            nxt = {i + 1 for i in cur if i < n}
        else:
            lit = fold(t[1])
            nxt = {i + len(lit) for i in cur if s.startswith(lit, i)}
        cur = nxt
        if not cur:
            return False
    return n in cur


def text_equal(crit, s):
    """True / False when every reading agrees on 'text s matches the pattern', else None"""
    seen = set()
    for toks in crit.readings:
        for fold in (str.lower, str.casefold):
            seen.add(glob_match(toks, s, fold))
    return seen.pop() if len(seen) == 1 else None


def renderings(v):
    """string forms through which a non-text cell could conceivably match a text criterion"""
    if v is None:
        return ('',)
    if isinstance(v, bool):
        return ('TRUE',) if v else ('FALSE',)
    forms = {str(v), repr(v), '%g' % v, '%.15g' % v}
    if isinstance(v, float) and v.is_integer():
        forms.add(str(int(v)))
    if isinstance(v, int):
        forms.add(repr(float(v)))
    return tuple(sorted(forms))


def _tri(b):
    return YES if b else NO


def _agree(a, b):
    return _tri(a) if a == b else OPEN


def match(cell, crit):
    """YES / NO / OPEN: does ``cell`` (a criteria-range cell) satisfy ``crit`` (a Criterion)"""
    cc = cell_class(cell)
    if crit.kind in ('logical', 'odd') or cc in ('error', 'odd'):
        return OPEN
    op = crit.op
    if crit.kind == 'number':
        n = crit.num
        if cc == 'number':
            return _tri(_CMP[op](cell, n))
        if cc in ('text', 'text-with-newline', 'empty-text'):
            return _tri(op == '<>')
        if cc == 'numeric-text':
            return _agree(op == '<>', _CMP[op](float(cell), n))
        if cc == 'logical':
            return _agree(False, int(cell) == n) if op == '=' else OPEN
        # blank
        return (OPEN if n == 0 else NO) if op == '=' else OPEN
    if crit.kind == 'empty':
        if op not in ('=', '<>'):
            return OPEN
        if cc in ('blank', 'empty-text'):
            return OPEN
        return _tri(op == '<>')
    # text criterion
    if op in ('=', '<>'):
        if cc in TEXT_CLASSES:
            eq = text_equal(crit, cell)
            if eq is None:
                return OPEN
            if cc == 'empty-text' and eq:
                return OPEN          # does "*" count a cell holding ""?  not fixed by the statement
            return _tri(eq == (op == '='))
        if cc == 'blank' and op == '<>':
            return OPEN
        for form in renderings(cell):
            if text_equal(crit, form) is not False:
                return OPEN
        return _tri(op == '<>')
    # ordering against a text
    if cc in ('text', 'numeric-text') and not (crit.has_wild or crit.has_tilde):
        a, b = cell, crit.text
        if a.isascii() and a.isalpha() and b.isascii() and b.isalpha():
            return _tri(_CMP[op](a.lower(), b.lower()))
    return OPEN


def positions(rng_rows, crit):
    """row-major list of verdicts for a range given as a tuple of row tuples"""
    return [match(v, crit) for row in rng_rows for v in row]


def combine(verdict_lists):
    """AND over criteria: NO wins, then OPEN, else YES"""
    out = []
    for vs in zip(*verdict_lists):
        out.append(NO if NO in vs else OPEN if OPEN in vs else YES)
    return out
