"""Reference model for C16 (MATCH / VLOOKUP / HLOOKUP / LOOKUP / INDEX), written from the property
statement only: linear scans over python lists, no bisect, no regular expressions, nothing
imported from pycel.

Values are python scalars: None (blank cell), bool, int/float, str; the seven error codes are the
strings in ERRORS.  Excel order: numbers < text (case-insensitive) < logicals (FALSE < TRUE).

Every oracle returns a *set of acceptable answers* instead of one answer, so that the places where
the statement is silent or can be read two ways are accepted under every reading:

* duplicates under match type +-1: any position holding the extreme admissible value;
* blank cells in the data: never a match (Excel), or "a blank is the zero of the lookup value's
  type" (0 / "" / FALSE) - both readings everywhere, also for the blanks at the ends of sorted data;
* a tilde in a text lookup value that is not followed by ? or * (followed by another character,
  by another tilde, or at the end): the tilde is literal, or it escapes the next character;
* a blank cell delivered by VLOOKUP/HLOOKUP/LOOKUP/INDEX: None or 0;
* an out-of-range index: #REF! or #VALUE!, whichever (also when the lookup value is missing: the statement
  gives these two codes for out-of-range indices, and Excel judges the index first); LOOKUP with a result
  vector that is too short: #N/A too; an error lookup value with an out-of-range index: either error.

`firm` is False for inputs the statement does not cover at all (blank lookup value; error cells or
interior blanks in data searched with match type +-1; data not sorted; text outside [0-9A-Za-z]
under +-1 where Excel's collation is not code-point order): those are run for totality only.
"""

ERRORS = ('#NULL!', '#DIV/0!', '#VALUE!', '#REF!', '#NAME?', '#NUM!', '#N/A')
NA, REF, VALUE = '#N/A', '#REF!', '#VALUE!'
ALNUM = frozenset('0123456789abcdefghijklmnopqrstuvwxyzABCDEFGHIJKLMNOPQRSTUVWXYZ')
ZERO = {'num': 0, 'text': '', 'bool': False}


def kind(v):
    if v is None:
        return 'blank'
    if isinstance(v, bool):
        return 'bool'
    if isinstance(v, (int, float)):
        return 'num'
    if isinstance(v, str):
        return 'err' if v in ERRORS else 'text'
    raise TypeError(f'not an Excel scalar: {v!r}')


RANK = {'num': 0, 'text': 1, 'bool': 2, 'err': 3, 'blank': 4}


def fold(s):
    return s.lower()


def okey(v):
    """ordering key of a number / text / logical in Excel order"""
    k = kind(v)
    if k == 'num':
        return (0, float(v))
    if k == 'text':
        return (1, fold(v))
    if k == 'bool':
        return (2, int(v))
    raise ValueError(f'{v!r} has no place in the order')


def equal(a, b):
    """type-strict, case-insensitive equality of two cell values (blank and errors equal nothing)"""
    ka, kb = kind(a), kind(b)
    return ka == kb and ka in ZERO and okey(a) == okey(b)


def collation_safe(v):
    return kind(v) != 'text' or (v != '' and all(c in ALNUM for c in v))


LOW_PUNCT = '[\\]^_`'


def order_decided(a, b):
    """is the order of two texts fixed by Excel's rules as far as the statement can be read?  Yes for
    alphanumerics, and where the first difference puts one of [ \\ ] ^ _ ` (punctuation sorts before letters in
    Excel) against a letter or against another of these six; not for punctuation against digits or other
    characters (pycel's code point order and Excel's collation differ there)."""
    la, lb = fold(a), fold(b)
    if not (la and lb and all(c in ALNUM or c in LOW_PUNCT for c in la + lb)):
        return False
    for ca, cb in zip(la, lb):
        if ca != cb:
            pa, pb = ca in LOW_PUNCT, cb in LOW_PUNCT
            if pa and pb:
                return True
            if pa or pb:
                return (cb if pa else ca).isalpha()
            return True
    return True


def texts_order_decided(values):
    texts = [x for x in values if kind(x) == 'text']
    if all(collation_safe(x) for x in texts):
        return True
    return all(order_decided(a, b) for i, a in enumerate(texts) for b in texts[i + 1:])


def excel_sorted(values, descending=False):
    """numbers/text/logicals in Excel order (stable, so equal keys keep the given order)"""
    return sorted(values, key=okey, reverse=descending)


def strip_blanks(vec):
    """(number of leading blanks, core, number of trailing blanks)"""
    lo, hi = 0, len(vec)
    while lo < hi and vec[lo] is None:
        lo += 1
    while hi > lo and vec[hi - 1] is None:
        hi -= 1
    return lo, list(vec[lo:hi]), len(vec) - hi


def is_sorted(core, mt):
    """core (no blanks, no errors) is non-decreasing (mt=1) / non-increasing (mt=-1) in Excel order"""
    if any(kind(x) not in ZERO for x in core):
        return False
    keys = [okey(x) for x in core]
    if mt == 1:
        return all(a <= b for a, b in zip(keys, keys[1:]))
    return all(a >= b for a, b in zip(keys, keys[1:]))


# ----------------------------------------------------------------------------- wildcards

def parse_pattern(p, tilde_escapes_any):
    """-> (tokens, used_wildcard_syntax).  tokens: ('lit', c) | ('one',) | ('many',)"""
    toks, i, special = [], 0, False
    while i < len(p):
        ch = p[i]
        if ch == '~' and i + 1 < len(p) and p[i + 1] in '?*':
            toks.append(('lit', p[i + 1]))
            special = True
            i += 2
        elif ch == '~' and tilde_escapes_any and i + 1 < len(p):
            toks.append(('lit', p[i + 1]))
            i += 2
        elif ch == '?':
            toks.append(('one',))
            special = True
            i += 1
        elif ch == '*':
            toks.append(('many',))
            special = True
            i += 1
        else:
            toks.append(('lit', ch))
            i += 1
    return toks, special


def wild_match(toks, s):
    """does the whole of s match the token list (case-insensitive)"""
    s = fold(s)
    n = len(s)
    cur = {0}
    for t in toks:
        if t[0] == 'many':
            cur = set(range(min(cur), n + 1))
        elif t[0] == 'one':
            cur = {j + 1 for j in cur if j < n}
        else:
            c = fold(t[1])
            cur = {j + len(c) for j in cur if s.startswith(c, j)}
        if not cur:
            return False
    return n in cur


def has_ambiguous_tilde(p):
    i = 0
    while i < len(p):
        if p[i] == '~':
            if i + 1 < len(p) and p[i + 1] in '?*':
                i += 2
                continue
            return True
        i += 1
    return False


def pattern_features(p):
    """what a text lookup value contains, for classification: set of
    'wild' (unescaped ? or *), 'escape' (~? or ~*), 'tilde' (any other ~)"""
    out, i = set(), 0
    while i < len(p):
        if p[i] == '~':
            if i + 1 < len(p) and p[i + 1] in '?*':
                out.add('escape')
                i += 2
                continue
            out.add('tilde')
        elif p[i] in '?*':
            out.add('wild')
        i += 1
    return out


# ----------------------------------------------------------------------------- MATCH

def _scan_exact(v, vec):
    """first position (1-based) whose value equals v; v text: wildcard semantics"""
    if kind(v) == 'text':
        outs = set()
        for tilde_any in ((False, True) if has_ambiguous_tilde(v) else (False,)):
            toks, _ = parse_pattern(v, tilde_any)
            for i, x in enumerate(vec, 1):
                if kind(x) == 'text' and wild_match(toks, x):
                    outs.add(i)
                    break
            else:
                outs.add(NA)
        return outs
    for i, x in enumerate(vec, 1):
        if equal(x, v):
            return {i}
    return {NA}


def _blank_readings(v, vec):
    """the data under the readings of blank cells: as is (a blank matches nothing) and with
    blanks replaced by the zero of v's type"""
    yield list(vec)
    if any(x is None for x in vec) and kind(v) in ZERO:
        z = ZERO[kind(v)]
        yield [z if x is None else x for x in vec]


def match_exact(v, vec):
    """-> (firm, acceptable outcomes) for MATCH(v, vec, 0)"""
    k = kind(v)
    if k == 'err':
        return True, {v}
    if k == 'blank':
        return False, set()
    acc = set()
    for data in _blank_readings(v, vec):
        acc |= _scan_exact(v, data)
    return True, acc


def _scan_approx(v, vec, mt):
    kv, tv = okey(v), kind(v)
    if mt == 1:
        cands = [(okey(x), i) for i, x in enumerate(vec, 1) if kind(x) == tv and okey(x) <= kv]
        if not cands:
            return {NA}
        best = max(c[0] for c in cands)
    else:
        cands = [(okey(x), i) for i, x in enumerate(vec, 1) if kind(x) == tv and okey(x) >= kv]
        if not cands:
            return {NA}
        best = min(c[0] for c in cands)
    return {i for key, i in cands if key == best}


def match_approx(v, vec, mt):
    """-> (firm, acceptable outcomes) for MATCH(v, vec, mt), mt in (1, -1)"""
    k = kind(v)
    if k == 'err':
        return True, {v}
    if k == 'blank':
        return False, set()
    _, core, _ = strip_blanks(vec)
    if not is_sorted(core, mt):
        return False, set()       # interior blanks, error cells, unsorted: statement silent
    if k == 'text' and not texts_order_decided([v] + list(core)):
        return False, set()
    acc = _scan_approx(v, vec, mt)
    if any(x is None for x in vec):
        # second reading: a blank at either end holds the zero of v's type (wherever it stands)
        z = ZERO[k]
        acc |= _scan_approx(v, [z if x is None else x for x in vec], mt)
    return True, acc


def match_model(v, vec, mt):
    return match_exact(v, vec) if mt == 0 else match_approx(v, vec, mt)


# ----------------------------------------------------------------------------- INDEX

class Arr:
    """an acceptable array answer, compared by its row-major flattening"""
    def __init__(self, flat):
        self.flat = list(flat)

    def __repr__(self):
        return f'Arr({self.flat!r})'


def index_model(t, r, c):
    """acceptable answers of INDEX(t, r, c) for integer r and integer-or-omitted (None) c on the
    rectangular table t (list of rows).  0 / omitted selects the whole row or column; for a
    vector a single index may also count along the vector (INDEX(row_vector, 3))."""
    R, C = len(t), len(t[0])
    errs = [REF, VALUE]
    cz = c in (0, None)
    if r < 0 or (not cz and c < 0):
        return list(errs)
    if r >= 1 and not cz:
        return [t[r - 1][c - 1]] if r <= R and c <= C else list(errs)
    acc = []
    if r == 0 and cz:
        return [Arr(x for row in t for x in row)] + ([t[0][0]] if R == C == 1 else [])
    if r >= 1:       # column index 0 / omitted
        if r <= R:
            acc.append(Arr(t[r - 1]))
            if C == 1:
                acc.append(t[r - 1][0])
        if R == 1 and r <= C:
            acc.append(t[0][r - 1])
        if r > R:
            acc.extend(errs)
        return acc
    # r == 0, c >= 1
    if c <= C:
        acc.append(Arr(row[c - 1] for row in t))
        if R == 1:
            acc.append(t[0][c - 1])
    if C == 1 and c <= R:
        acc.append(t[c - 1][0])
    if c > C:
        acc.extend(errs)
    return acc


# ----------------------------------------------------------------------------- V/HLOOKUP, LOOKUP

def _is_int(x):
    return isinstance(x, int) or (isinstance(x, float) and x == int(x))


def vlookup_model(v, t, idx, exact):
    """-> (firm, acceptable answers) of VLOOKUP(v, t, idx, not exact); HLOOKUP: pass the transpose.
    acceptable answers are cell values / error codes"""
    C = len(t[0])
    col = [row[0] for row in t]
    firm, pos = match_model(v, col, 0 if exact else 1)
    if not firm:
        return False, []
    frac = not _is_int(idx)
    i = int(idx)                      # truncation; floor agrees for every idx >= 0
    in_range = 1 <= i <= C and idx >= 1
    acc = []
    if not in_range or frac:
        acc += [REF, VALUE]
    for p in pos:
        if isinstance(p, str):
            if p == NA and not in_range and kind(v) != 'err':
                # "out-of-range indices yield #REF!/#VALUE!": the index is judged before the search (as Excel
                # does), a lookup value that is missing as well does not turn the answer into #N/A
                continue
            acc.append(p)             # #N/A or the propagated error lookup value
        elif in_range:
            acc.append(t[p - 1][i - 1])
    return True, acc


def lookup_model(v, a, res):
    """-> (firm, acceptable answers) of LOOKUP(v, a[, res]); a, res: lists of rows.
    vector form: a is a vector, res a vector of either orientation; array form (res None):
    more columns than rows -> search the first row, answer from the last row, else first column /
    last column"""
    R, C = len(a), len(a[0])
    if res is None:
        if C > R:
            vec, out = list(a[0]), list(a[-1])
        else:
            vec, out = [row[0] for row in a], [row[-1] for row in a]
    else:
        if R != 1 and C != 1:
            return False, []
        vec = list(a[0]) if R == 1 else [row[0] for row in a]
        if len(res) != 1 and len(res[0]) != 1:
            return False, []
        out = list(res[0]) if len(res) == 1 else [row[0] for row in res]
    firm, pos = match_approx(v, vec, 1)
    if not firm:
        return False, []
    acc = []
    for p in pos:
        if isinstance(p, str):
            acc.append(p)
        elif p <= len(out):
            acc.append(out[p - 1])
        else:
            acc += [REF, VALUE, NA]
    return True, acc


def transpose(t):
    return [list(x) for x in zip(*t)]
