"""Reference model of Excel's scalar operator semantics, written from the statement of C10 only.

    "For all scalar operands (numbers of moderate magnitude, text, logicals, blank, error values)
    every operator returns a number, text, logical or error value and never raises or yields
    another type; an error operand is returned unchanged, the left one first.  Arithmetic treats
    numeric text, logicals and blanks as numbers and other text as #VALUE!, x/0 is #DIV/0!, &
    concatenates the Excel renderings (TRUE/FALSE, 3 not 3.0, blank as empty); comparisons form
    one total order (numbers < text < logicals, text case-insensitive, blank as the neutral value
    of the other side) in which exactly one of <, =, > holds and <>, <=, >= are the complements."

Values: ``None`` = blank, ``bool`` = logical, ``int``/``float`` = number, ``str`` = text, the
seven strings in ``ERRORS`` = error values.  Operators: the twelve binary operators as Excel spells
them plus ``'neg'`` (prefix minus) and ``'pct'`` (postfix %).

``expect(op, a, b)`` returns an ``Expect``: the *set* of results the statement allows.  The model is
deliberately permissive wherever the statement is silent or can be read two ways:

* numeric text: a plain decimal / scientific spelling with optional sign and surrounding blanks
  ("3", " 3 ", "-2.5", "1e2", ".5") IS numeric; a text without any digit ("", "abc", "TRUE", "inf",
  "nan") is NOT (-> #VALUE!); every other text containing a digit ("1,000", "$3", "3%", "1/2",
  "1_0", "0x10", full-width digits ...) is locale/implementation territory: a number or #VALUE!
  are both accepted;
* int vs float is not an Excel distinction: numbers are compared by value (relative 1e-9);
* 0^0: 1 or an error value; 0^negative: #DIV/0! or #NUM!; negative base with a non-integral
  exponent: #NUM! (or #DIV/0!), or - what Excel itself does for odd roots - the real root when the
  exponent is the reciprocal of an odd integer;  a result beyond the double range: #NUM! (or
  #DIV/0!) or, when both operands are integral, the exact (huge) integer;
* & : integral numbers render without a fraction ("3"; "-0" is tolerated for -0.0); a non-integral
  number may render in any spelling that parses back to the same number;
* order of two different texts: decided only when both consist of ASCII letters/digits (compared
  case-folded, shorter prefix first); for other texts only (in)equality is fixed, the direction is
  left to the algebraic laws (trichotomy, complements, transitivity) checked by the caller;
* operands outside the modelled domain (|base| > 1e9 or |exponent| > 1100 for ^) -> anything.

``evaluate(op, a, b)`` is the determinate version used by C02 to evaluate parse trees: it returns
the single allowed value or ``UNSPEC`` when more than one result is allowed.  Numbers that are not
exactly representable (2/3, 2^0.5) come back as ``Inexact`` floats; feeding an ``Inexact`` into a
comparison or into & gives ``UNSPEC`` (Excel compares with 15 significant digits, Python exactly).
Nothing in this file is derived from pycel's code.
"""
import math
import re
from fractions import Fraction

ERRORS = ('#NULL!', '#DIV/0!', '#VALUE!', '#REF!', '#NAME?', '#NUM!', '#N/A')
VALUE, DIV0, NUM = '#VALUE!', '#DIV/0!', '#NUM!'
ARITH = ('+', '-', '*', '/', '^')
COMPARE = ('=', '<>', '<', '<=', '>', '>=')
BINARY = ARITH + ('&',) + COMPARE
UNARY = ('neg', 'pct')
OPERATORS = BINARY + UNARY
DBL_MAX_LOG10 = math.log10(1.7976931348623157e308)
NOT_REAL = frozenset((NUM, DIV0))


class _Unspecified:
    def __repr__(self):
        return 'UNSPEC'


UNSPEC = _Unspecified()


class Inexact(float):
    """a number whose mathematical value is not exactly the float carried (2/3, 2^0.5 ...)"""

    def __repr__(self):
        return f'~{float.__repr__(self)}'


# --------------------------------------------------------------------------- classification

def kind(v):
    """'blank' | 'logical' | 'number' | 'text' | 'error' | 'other' of an *operand*"""
    if v is None:
        return 'blank'
    if isinstance(v, bool):
        return 'logical'
    if isinstance(v, int):
        return 'number'
    if isinstance(v, float):
        return 'number' if math.isfinite(v) else 'other'
    if isinstance(v, str):
        return 'error' if v in ERRORS else 'text'
    return 'other'


def result_type_problem(obs):
    """None if ``obs`` is a number, text, logical or error value *as a plain python scalar*;
    otherwise a short name of what it is (complex, numpy scalar, tuple, None, inf ...)"""
    t = type(obs)
    if t is bool or t is int or t is str:
        return None
    if t is float:
        if obs != obs:
            return 'nan'
        if obs in (math.inf, -math.inf):
            return 'inf'
        return None
    if obs is None:
        return 'NoneType'
    mod = getattr(t, '__module__', '')
    return f'{mod}.{t.__name__}' if mod not in ('builtins', '') else t.__name__


_PLAIN_NUMBER = re.compile(r'^ *[+-]?(?:[0-9]+\.?[0-9]*|\.[0-9]+)(?:[eE][+-]?[0-9]+)? *$')


def text_number(s):
    """('num', x) plain numeric spelling | ('not', None) no digit at all | ('maybe', None)"""
    if _PLAIN_NUMBER.match(s):
        x = float(s)
        if math.isfinite(x):
            return 'num', _canon(x)
        return 'maybe', None
    if not any(ch.isdigit() for ch in s):
        return 'not', None
    if '_' in s:
        # a digit-group underscore is python's literal syntax; no locale of Excel reads "1_000" as a number
        return 'not', None
    return 'maybe', None


def _canon(x):
    """integral floats of moderate size as ints, so that integer arithmetic stays exact"""
    if isinstance(x, bool):
        return int(x)
    if isinstance(x, Inexact):
        return x
    if isinstance(x, float) and x == int(x) and abs(x) < 2.0 ** 62:
        return int(x)
    return x


def as_number(v):
    """('num', x) | ('err', '#VALUE!') | ('maybe', None) for one arithmetic operand"""
    k = kind(v)
    if k == 'number':
        return 'num', _canon(v)
    if k == 'logical':
        return 'num', int(v)
    if k == 'blank':
        return 'num', 0
    if k == 'text':
        st, x = text_number(v)
        if st == 'num':
            return 'num', x
        if st == 'not':
            return 'err', VALUE
        return 'maybe', None
    raise ValueError(f'not a scalar operand: {v!r}')


def num_close(a, b, rel=1e-9):
    if a == b:
        return True
    try:
        fa, fb = float(a), float(b)
    except OverflowError:
        if isinstance(a, int) and isinstance(b, int):
            return abs(a - b) * 10 ** 9 <= max(abs(a), abs(b))
        return False
    if abs(fa) < 1e-300 and abs(fb) < 1e-300:
        return True
    return abs(fa - fb) <= rel * max(abs(fa), abs(fb))


# --------------------------------------------------------------------------- rendering for &

def render_exact(v):
    """the one rendering of ``v`` in a concatenation, or None if more than one is allowed"""
    k = kind(v)
    if k == 'blank':
        return ''
    if k == 'logical':
        return 'TRUE' if v else 'FALSE'
    if k in ('text', 'error'):
        return v
    if k == 'number':
        if isinstance(v, Inexact):
            return None
        if v == int(v):
            if v == 0 and isinstance(v, float) and math.copysign(1.0, v) < 0:
                return None
            return str(int(v)) if abs(v) < 1e15 else None
        r = repr(float(v))
        if 'e' not in r and len(r) <= 12:
            return r            # 0.5, -2.25: Excel's General format and repr coincide
        return None
    return None


def render_accepts(text, v):
    """may ``text`` be the rendering of ``v`` inside a concatenation?  (what C10 demands: exact for
    blank, logicals, text and integral numbers; parse-back for non-integral numbers)"""
    if kind(v) != 'number':
        return text == render_exact(v)
    if v == 0:
        return text in ('0', '-0') if isinstance(v, float) and math.copysign(1.0, v) < 0 \
            else text == '0'
    if v == int(v) and abs(v) < 1e15:
        return text == str(int(v))
    if text != text.strip() or not text or 'n' in text.lower() or '_' in text:
        return False
    try:
        return float(text) == float(v)
    except ValueError:
        return False


# --------------------------------------------------------------------------- expectations

class Expect:
    """the set of allowed results: a list of alternatives
    ('val', v) | ('err', frozenset) | ('concat', a, b) | ('logical',) | ('number',) | ('any',)"""

    def __init__(self, alts, branch):
        self.alts = alts
        self.branch = branch          # which clause of the statement decided (monitor counter)

    @property
    def constrains(self):
        return not any(a[0] == 'any' for a in self.alts)

    def accepts(self, obs):
        if result_type_problem(obs) is not None:
            return False
        return any(_alt_accepts(a, obs) for a in self.alts)

    def value(self):
        if len(self.alts) != 1:
            return UNSPEC
        a = self.alts[0]
        if a[0] == 'val':
            return a[1]
        if a[0] == 'err' and len(a[1]) == 1:
            return next(iter(a[1]))
        if a[0] == 'concat':
            ra, rb = render_exact(a[1]), render_exact(a[2])
            if ra is None or rb is None:
                return UNSPEC
            return ra + rb
        return UNSPEC

    def describe(self):
        out = []
        for a in self.alts:
            if a[0] == 'val':
                out.append(repr(a[1]) if not (isinstance(a[1], int) and abs(a[1]) > 10 ** 30)
                           else f'<int of {len(str(abs(a[1])))} digits>')
            elif a[0] == 'err':
                out.append(' or '.join(sorted(a[1])))
            elif a[0] == 'concat':
                out.append(f'rendering of {a[1]!r} followed by rendering of {a[2]!r}')
            elif a[0] == 'logical':
                out.append('TRUE or FALSE')
            elif a[0] == 'number':
                out.append('a number')
            else:
                out.append('anything')
        return ' | '.join(out) + f'  [{self.branch}]'


def _alt_accepts(alt, obs):
    tag = alt[0]
    if tag == 'any':
        return True
    if tag == 'logical':
        return type(obs) is bool
    if tag == 'number':
        return type(obs) in (int, float)
    if tag == 'err':
        return type(obs) is str and obs in alt[1]
    if tag == 'concat':
        if type(obs) is not str:
            return False
        return any(render_accepts(obs[:i], alt[1]) and render_accepts(obs[i:], alt[2])
                   for i in range(len(obs) + 1))
    want = alt[1]
    if isinstance(want, bool):
        return type(obs) is bool and obs == want
    if isinstance(want, (int, float)):
        return type(obs) in (int, float) and num_close(obs, want)
    return type(obs) is str and obs == want


def _val(v, branch):
    return Expect([('val', v)], branch)


# --------------------------------------------------------------------------- arithmetic

def _exact_pow_ok(x, y):
    return abs(x) <= 1e9 and abs(y) <= 1100


def _power(x, y):
    if not _exact_pow_ok(x, y):
        return Expect([('any',)], 'power/outside-modelled-domain')
    integral_y = (y == int(y))
    if x == 0:
        if y > 0:
            return _val(0, 'power/zero-base')
        if y == 0:
            return Expect([('val', 1), ('err', NOT_REAL)], 'power/zero-to-zero')
        return Expect([('err', NOT_REAL)], 'power/zero-to-negative')
    if x < 0 and not integral_y:
        alts = [('err', NOT_REAL)]
        inv = 1.0 / y
        if abs(inv - round(inv)) < 1e-9 and int(round(inv)) % 2:
            alts.append(('val', -(abs(float(x)) ** float(y))))
        return Expect(alts, 'power/negative-base-fractional-exponent')
    lg = float(y) * math.log10(abs(x))
    both_int = isinstance(x, int) and isinstance(y, int) and y >= 0
    if lg > DBL_MAX_LOG10 - 1e-6:
        alts = [('err', NOT_REAL)]
        if both_int:
            alts.append(('val', x ** y))
        if lg < DBL_MAX_LOG10 + 1e-6:
            alts.append(('number',))
        return Expect(alts, 'power/overflow')
    if both_int:
        return _val(x ** y, 'power/integer')
    if lg < -400:
        return _val(0.0, 'power/underflow')
    return _val(float(x) ** (int(y) if integral_y else float(y)), 'power/real')


def _arith(op, x, y):
    if op == '+':
        return _val(x + y, 'arith/add')
    if op == '-':
        return _val(x - y, 'arith/sub')
    if op == '*':
        return _val(x * y, 'arith/mul')
    if op == '/':
        if y == 0:
            return Expect([('err', frozenset((DIV0,)))], 'arith/div-by-zero')
        return _val(x / y, 'arith/div')
    return _power(x, y)


# --------------------------------------------------------------------------- order

RANK = {'number': 0, 'text': 1, 'logical': 2}
NEUTRAL = {'number': 0, 'text': '', 'logical': False}
_SIMPLE_TEXT = re.compile(r'^[a-z0-9]*$')
_LOW_PUNCT = '[\\]^_`'
_LOW_PUNCT_TEXT = re.compile(r'^[a-z0-9\[\\\]^_`]*$')


def compare(a, b):
    """-1 | 0 | 1 by the statement's order; 'ne' = different, direction not decided by the
    statement; None = (in)equality itself is not decided (non-ASCII case pairs, Inexact numbers).
    Operands: non-error scalars."""
    ka, kb = kind(a), kind(b)
    if ka == 'blank' and kb == 'blank':
        return 0
    if ka == 'blank':
        a, ka = NEUTRAL[kb], kb
    if kb == 'blank':
        b, kb = NEUTRAL[ka], ka
    if ka != kb:
        return -1 if RANK[ka] < RANK[kb] else 1
    if ka == 'text':
        la, lb = a.lower(), b.lower()
        if la == lb:
            return 0
        if not (a.isascii() and b.isascii()):
            return None if a.casefold() == b.casefold() else 'ne'
        if _SIMPLE_TEXT.match(la) and _SIMPLE_TEXT.match(lb):
            return -1 if la < lb else 1
        if la == '' or lb == '':
            return -1 if la == '' else 1
        if _LOW_PUNCT_TEXT.match(la) and _LOW_PUNCT_TEXT.match(lb):
            # Excel's ordering rules put punctuation before letters.  Decided here only where the first
            # difference is one of [ \ ] ^ _ ` against a letter (or one text is a prefix of the other): a
            # case fold to upper case instead of lower case moves exactly these six characters behind the letters
            for ca, cb in zip(la, lb):
                if ca != cb:
                    if ca in _LOW_PUNCT and cb.isalpha():
                        return -1
                    if cb in _LOW_PUNCT and ca.isalpha():
                        return 1
                    if ca.isalnum() and cb.isalnum():
                        return -1 if ca < cb else 1
                    return 'ne'
            return -1 if len(la) < len(lb) else 1
        return 'ne'
    if ka == 'number' and (isinstance(a, Inexact) or isinstance(b, Inexact)):
        return None
    return -1 if a < b else (1 if a > b else 0)


_CMP_TRUTH = {'=': (0,), '<>': (-1, 1), '<': (-1,), '<=': (-1, 0), '>': (1,), '>=': (0, 1)}


def _comparison(op, a, b):
    c = compare(a, b)
    pair = f'{kind(a)}-{kind(b)}'
    if c is None:
        return Expect([('logical',)], f'compare/undecided:{pair}')
    if c == 'ne':
        if op in ('=', '<>'):
            return _val(op == '<>', f'compare/text-differs:{pair}')
        return Expect([('logical',)], f'compare/text-direction-open:{pair}')
    return _val(c in _CMP_TRUTH[op], f'compare/{pair}')


# --------------------------------------------------------------------------- the model

def expect(op, a, b=None):
    """allowed results of  a op b  (binary),  -a  ('neg', operand in ``a``)  or  a%  ('pct')"""
    if op in UNARY:
        operands = (a,)
    elif op in BINARY:
        operands = (a, b)
    else:
        raise ValueError(f'unknown operator {op!r}')
    for v in operands:
        if kind(v) == 'other':
            raise ValueError(f'not a scalar operand: {v!r}')
    # an error operand is returned unchanged, the left one first
    for i, v in enumerate(operands):
        if kind(v) == 'error':
            return Expect([('err', frozenset((v,)))], 'error-operand/' + ('left', 'right')[i])
    if op == '&':
        return Expect([('concat', a, b)], f'concat/{kind(a)}-{kind(b)}')
    if op in COMPARE:
        return _comparison(op, a, b)
    # arithmetic (incl. unary minus = 0 - a without the type change, % = a / 100)
    nums = [as_number(v) for v in operands]
    for st, x in nums:
        if st == 'err':
            return Expect([('err', frozenset((VALUE,)))], 'arith/non-numeric-text')
    if any(st == 'maybe' for st, _ in nums):
        return Expect([('err', frozenset((VALUE,))), ('number',), ('err', NOT_REAL)],
                      'arith/text-numeric-by-locale')
    if op == 'neg':
        x = nums[0][1]
        return _val(-x if x != 0 else 0, 'arith/neg')
    if op == 'pct':
        return _val(nums[0][1] / 100, 'arith/percent')
    return _arith(op, nums[0][1], nums[1][1])


# --------------------------------------------------------------------------- determinate evaluation

def _frac(x):
    return Fraction(x)


def _exactness(op, operands, r):
    """is the float/int ``r`` exactly the mathematical result of ``op`` on exact operands?"""
    try:
        fr = Fraction(r)
        if op == 'neg':
            return fr == -_frac(operands[0])
        if op == 'pct':
            return fr == _frac(operands[0]) / 100
        x, y = (_frac(v) for v in operands)
        if op == '+':
            return fr == x + y
        if op == '-':
            return fr == x - y
        if op == '*':
            return fr == x * y
        if op == '/':
            return fr == x / y
        if op == '^':
            if y.denominator == 1:
                return abs(y) <= 1100 and fr == x ** int(y)
            if y.denominator > 64 or abs(y.numerator) > 64:
                return False
            return fr >= 0 and fr ** y.denominator == x ** y.numerator
    except (ZeroDivisionError, OverflowError, ValueError):
        return False
    return False


def evaluate(op, a, b=None):
    """the single value the statement determines for  a op b,  else UNSPEC.
    UNSPEC operands give UNSPEC; inexact numbers are tracked (see module docstring)."""
    operands = (a,) if op in UNARY else (a, b)
    if any(v is UNSPEC for v in operands):
        # an error on the left still wins over an unknown on the right
        if operands[0] is not UNSPEC and kind(operands[0]) == 'error':
            return operands[0]
        return UNSPEC
    exp = expect(op, a, b)
    v = exp.value()
    if v is UNSPEC:
        return UNSPEC
    if exp.branch.startswith(('arith/', 'power/')) and isinstance(v, (int, float)) \
            and not isinstance(v, bool):
        nums = [as_number(o)[1] for o in operands]
        if any(isinstance(n, Inexact) for n in nums):
            return Inexact(v)
        if abs(v) >= 2 ** 53:
            # exact in integer arithmetic perhaps, but an implementation working in doubles differs
            return Inexact(v) if abs(v) < 1e300 else UNSPEC
        if not _exactness(op, nums, v):
            return Inexact(v)
        return _canon(v)
    return v


def in_bounds(op, a, b=None):
    """the magnitude bounds of the checks: |numbers| <= 1e6, |exponents| <= 64"""
    def mag(v):
        st, x = as_number(v) if kind(v) not in ('error', 'other') else ('err', None)
        return abs(x) if st == 'num' else 0
    if mag(a) > 1e6 or (op in BINARY and mag(b) > 1e6):
        return False
    if op == '^' and mag(b) > 64:
        return False
    return True
