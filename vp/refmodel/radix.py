"""Reference model for C18: Excel's radix conversions as two's-complement arithmetic on ints.

Written from the property statement only (no pycel code, no bin()/oct()/hex()/int(text, base)):

* a number of base b (2, 8, 16) is shown in at most WIDTH = 10 digits; the representable integers are
  -(b**10)/2 .. (b**10)/2 - 1   (-512..511, -2**29..2**29-1, -2**39..2**39-1);
* n >= 0 is written with its minimal digits, n < 0 as the 10 digits of n + b**10;
* reading a digit string of at most 10 digits: positional value v, and v >= (b**10)/2 (only
  possible with 10 digits) stands for v - b**10;
* places p (1..10) asks for exactly p digits: zero padding, or an error when the digits do not fit.
"""
import re
from fractions import Fraction

WIDTH = 10
BASES = (2, 8, 16)
NAME = {2: 'BIN', 8: 'OCT', 16: 'HEX', 10: 'DEC'}
DIGITS = '0123456789ABCDEF'
NUMERR = ('#NUM!', '#VALUE!')
ALL_ERRORS = ('#NULL!', '#DIV/0!', '#VALUE!', '#REF!', '#NAME?', '#NUM!', '#N/A')
PLACES = tuple(range(1, WIDTH + 1))


def modulus(base):
    return base ** WIDTH


def lo(base):
    return -(modulus(base) // 2)


def hi(base):
    return modulus(base) // 2 - 1


def in_range(n, base):
    return lo(base) <= n <= hi(base)


def alphabet(base):
    return DIGITS[:base]


def digits(m, base):
    """minimal digit string of the non-negative integer m"""
    assert m >= 0
    if m == 0:
        return '0'
    out = []
    while m:
        m, r = divmod(m, base)
        out.append(DIGITS[r])
    return ''.join(reversed(out))


def encode(n, base):
    """canonical rendering of an integer of the range"""
    assert in_range(n, base)
    if n >= 0:
        return digits(n, base)
    text = digits(n + modulus(base), base)
    assert len(text) == WIDTH
    return text


def expected(n, base, places=None):
    """what a correct DEC2X(n[, places]) may return for an integer n of the range:
    dict(text=canonical text or None, value_ok, error_ok, any_padding)

    * no places: the canonical text; for n >= 0 the statement fixes the value, not the absence of
      leading zeros, so any zero padding up to 10 digits is tolerated (any_padding);
    * places, n >= 0: exactly ``places`` digits (zero padded) if they fit, else only an error;
    * places, n < 0: the statement can be read both ways ("negative numbers are rendered as 10-digit
      two's complement" = places ignored, as Excel does; or "#NUM! when too small" since 10 digits do not
      fit in fewer places): the 10-digit text or an error for places < 10, the text for places == 10.
    """
    text = encode(n, base)
    if places is None:
        return {'text': text, 'value_ok': True, 'error_ok': False, 'any_padding': n >= 0}
    if n < 0:
        return {'text': text, 'value_ok': True, 'error_ok': places < WIDTH, 'any_padding': False}
    if places >= len(text):
        return {'text': text.rjust(places, '0'), 'value_ok': True, 'error_ok': False, 'any_padding': False}
    return {'text': None, 'value_ok': False, 'error_ok': True, 'any_padding': False}


def is_digit_string(s, base):
    """every character is a digit of the base (hex letters in either case), any length incl. 0"""
    alpha = alphabet(base)
    return all((c in alpha) or (base == 16 and c in 'abcdef') for c in s)


def is_legal(s, base):
    return 1 <= len(s) <= WIDTH and is_digit_string(s, base)


def decode(s, base):
    """integer denoted by a legal digit string"""
    assert is_legal(s, base)
    alpha = alphabet(base)
    v = 0
    for c in s:
        v = v * base + alpha.index(c.upper())
    if v >= modulus(base) // 2:
        v -= modulus(base)
    return v


_PREFIX = re.compile(r'^[+-]?0([bBoOxX])')


def text_class(s, base):
    """class of a text handed to BIN2.. / OCT2.. / HEX2..: 'legal', 'legal-lowercase' (hex letters in
    lower case: value or error both tolerated), 'empty', or - for texts that must be rejected - the
    first predicate that holds (this is the part of a mechanism key that describes the input)."""
    if s == '':
        return 'empty'
    if is_digit_string(s, base):
        if len(s) > WIDTH:
            return 'too-long'
        return 'legal' if s == s.upper() else 'legal-lowercase'
    if any(c.isspace() for c in s):
        return 'whitespace'
    if '_' in s:
        return 'underscore'
    m = _PREFIX.match(s)
    if m and not is_digit_string(m.group(1), base):
        return 'radix-prefix'
    if '+' in s:
        return 'plus-sign'
    if '-' in s:
        return 'minus-sign'
    if '.' in s:
        return 'decimal-point'
    if any(ord(c) > 127 and c.isdigit() for c in s):
        return 'non-ascii-digit'
    if any(ord(c) < 128 and c.isalnum() for c in s if not is_digit_string(c, base)):
        return 'digit-outside-base'
    return 'other-character'


_DECIMAL = re.compile(r'^[+-]?(\d+\.?\d*|\.\d+)([eE][+-]?\d+)?$', re.ASCII)


def decimal_text(s):
    """a text handed to DEC2..: ('number', Fraction) if it is a plain decimal number (surrounding blanks,
    sign, fraction, exponent tolerated - Excel converts such text, the statement is silent, so value or
    error are both fine); ('not-a-number', class) if no reading makes it a number (must be rejected);
    ('unclear', None) otherwise (only "no exception" is required)."""
    t = s.strip(' \t\r\n')
    if _DECIMAL.match(t):
        if len(t) > 400:
            # (python's int() refuses texts of more than 4300 digits; such a number is far outside of every range)
            return 'number', Fraction(-10 ** 30 if t.startswith('-') else 10 ** 30)
        return 'number', Fraction(t)
    if '_' in s:
        return 'not-a-number', 'underscore'
    if any(ord(c) > 127 and c.isdigit() for c in s):
        return 'not-a-number', 'non-ascii-digit'
    if _PREFIX.match(t):
        return 'not-a-number', 'radix-prefix'
    if any(ord(c) < 128 and c.isalpha() for c in s):
        return 'not-a-number', 'letters'
    return 'unclear', None


def integer_readings(x):
    """the integers a non-integer argument may be taken for (Excel truncates; floor is tolerated)"""
    x = Fraction(x)
    fl = x.numerator // x.denominator
    tr = fl if x >= 0 or x.denominator == 1 else fl + 1
    return sorted({fl, tr})
