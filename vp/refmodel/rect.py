"""Reference model for C11 (address algebra): integer rectangles on a named sheet.

Written from the property statement only; nothing in here imports or imitates pycel.

An *address* is a 5-tuple ``(sheet, c1, r1, c2, r2)`` with ``1 <= c1 <= c2 <= 16384`` and
``1 <= r1 <= r2 <= 1048576``; ``sheet == ''`` means "no sheet given".  A cell is the degenerate
rectangle ``c1 == c2 and r1 == r2``.  The two error values of the algebra are the strings
``#NULL!`` (empty intersection, the bottom of the lattice) and ``#VALUE!`` (operands on different
sheets).  An error operand makes the whole expression that error.
"""
MAX_COL = 16384
MAX_ROW = 1048576
NULL = '#NULL!'
VALUE = '#VALUE!'
ERRORS = frozenset(('#NULL!', '#DIV/0!', '#VALUE!', '#REF!', '#NAME?', '#NUM!', '#N/A'))


# ------------------------------------------------------------------ printing (A1, $A$1, R1C1)

def col_letters(n):
    """1 -> A, 26 -> Z, 27 -> AA, 702 -> ZZ, 703 -> AAA, 16384 -> XFD (bijective base 26)"""
    if n < 1:
        raise ValueError(n)
    out = ''
    while n:
        n, rem = divmod(n - 1, 26)
        out = chr(ord('A') + rem) + out
    return out


def col_number(letters):
    n = 0
    for ch in letters.upper():
        if not 'A' <= ch <= 'Z':
            raise ValueError(letters)
        n = n * 26 + ord(ch) - ord('A') + 1
    return n


def is_cell(addr):
    return addr[1] == addr[3] and addr[2] == addr[4]


def coord(addr, dollar_col=False, dollar_row=False):
    """A1 text of the rectangle without the sheet: C5, C5:D7, $C$5:$D$7, $C5, C$5"""
    _, c1, r1, c2, r2 = addr
    dc = '$' if dollar_col else ''
    dr = '$' if dollar_row else ''
    first = f'{dc}{col_letters(c1)}{dr}{r1}'
    if is_cell(addr):
        return first
    return f'{first}:{dc}{col_letters(c2)}{dr}{r2}'


def r1c1_abs(addr):
    _, c1, r1, c2, r2 = addr
    first = f'R{r1}C{c1}'
    if is_cell(addr):
        return first
    return f'{first}:R{r2}C{c2}'


def rel_part(letter, offset, zero_as_bare=False):
    if offset == 0 and zero_as_bare:
        return letter
    return f'{letter}[{offset}]'


def r1c1_rel(addr, anchor, wrap_col=False, wrap_row=False, abs_row=False, abs_col=False,
             zero_as_bare=False):
    """R1C1 text of ``addr`` relative to the anchor cell ``(col, row)``.

    wrap_*: use the offset that reaches the same location the other way round the sheet
    (d - MAX for d > 0, d + MAX for d < 0, unchanged for d == 0).
    abs_row / abs_col: mix in the absolute form for that axis (R5C[2]).
    """
    ac, ar = anchor
    _, c1, r1, c2, r2 = addr

    def off(target, base, limit, wrap):
        d = target - base
        if wrap and d:
            d = d - limit if d > 0 else d + limit
        return d

    def corner(c, r):
        rp = f'R{r}' if abs_row else rel_part('R', off(r, ar, MAX_ROW, wrap_row), zero_as_bare)
        cp = f'C{c}' if abs_col else rel_part('C', off(c, ac, MAX_COL, wrap_col), zero_as_bare)
        return rp + cp

    if is_cell(addr):
        return corner(c1, r1)
    return f'{corner(c1, r1)}:{corner(c2, r2)}'


def quote(sheet):
    """the quoted form Excel itself writes: apostrophes around, embedded apostrophes doubled"""
    return "'" + sheet.replace("'", "''") + "'"


def with_sheet(sheet_text, coordinate):
    return f'{sheet_text}!{coordinate}' if sheet_text else coordinate


# ------------------------------------------------------------------ set semantics

def intersect(x, y):
    """exactly the common cells, #NULL! if there are none, #VALUE! across sheets"""
    if isinstance(x, str):
        return x
    if isinstance(y, str):
        return y
    if x[0] and y[0] and x[0] != y[0]:
        return VALUE
    c1, r1 = max(x[1], y[1]), max(x[2], y[2])
    c2, r2 = min(x[3], y[3]), min(x[4], y[4])
    if c1 > c2 or r1 > r2:
        return NULL
    return (x[0] or y[0], c1, r1, c2, r2)


def bounding(x, y):
    """the minimal rectangle containing both operands (Excel's range operator)"""
    if isinstance(x, str):
        return x
    if isinstance(y, str):
        return y
    if x[0] and y[0] and x[0] != y[0]:
        return VALUE
    return (x[0] or y[0], min(x[1], y[1]), min(x[2], y[2]), max(x[3], y[3]), max(x[4], y[4]))


OPS = {'&': intersect, '**': bounding}


def evaluate(tree):
    """tree = address tuple | error string | (op, left, right)"""
    if isinstance(tree, str) or len(tree) == 5:
        return tree
    op, left, right = tree
    return OPS[op](evaluate(left), evaluate(right))


def relation(x, y):
    """how two rectangles lie to each other (used for mechanism keys only)"""
    a, b = x[1:], y[1:]
    if a == b:
        return 'equal'
    common = intersect(('',) + tuple(a), ('',) + tuple(b))
    if common == NULL:
        grown = ('', a[0] - 1, a[1] - 1, a[2] + 1, a[3] + 1)
        return 'adjacent' if intersect(grown, ('',) + tuple(b)) != NULL else 'apart'
    if common[1:] == tuple(a) or common[1:] == tuple(b):
        return 'nested'
    return 'overlapping'


def contains(addr, col, row):
    return addr[1] <= col <= addr[3] and addr[2] <= row <= addr[4]


def height_width(addr):
    return addr[4] - addr[2] + 1, addr[3] - addr[1] + 1


def cells_by_row(addr):
    return [[(c, r) for c in range(addr[1], addr[3] + 1)] for r in range(addr[2], addr[4] + 1)]


def cells_by_col(addr):
    return [[(c, r) for r in range(addr[2], addr[4] + 1)] for c in range(addr[1], addr[3] + 1)]


def ring(addr, width=1):
    """cells just outside the rectangle (clipped to the sheet)"""
    out = []
    for c in range(max(1, addr[1] - width), min(MAX_COL, addr[3] + width) + 1):
        for r in range(max(1, addr[2] - width), min(MAX_ROW, addr[4] + width) + 1):
            if not contains(addr, c, r):
                out.append((c, r))
    return out


# ------------------------------------------------------------------ offsets

def wrap_col(c):
    return (c - 1) % MAX_COL + 1


def wrap_row(r):
    return (r - 1) % MAX_ROW + 1


def offset(col, row, row_inc, col_inc):
    return wrap_col(col + col_inc), wrap_row(row + row_inc)


def wraps(col, row, row_inc, col_inc):
    """(number of times the column wraps, number of times the row wraps), signed"""
    return (col - 1 + col_inc) // MAX_COL, (row - 1 + row_inc) // MAX_ROW


# ------------------------------------------------------------------ enumerations

def grid_rects(n=4, col0=1, row0=1):
    """all rectangles of an n x n grid whose top-left cell is (col0, row0): (n(n+1)/2)^2 of them"""
    spans = [(i, j) for i in range(n) for j in range(i, n)]
    return [(col0 + ca, row0 + ra, col0 + cb, row0 + rb) for ca, cb in spans for ra, rb in spans]
