"""Reference model for the rounding family (property C19), written from the property statement.

Every number is taken at its *shortest decimal rendering*: ``Decimal(repr(x))`` for a float, the
integer itself for an int.  All arithmetic is exact (``fractions.Fraction``); nothing here calls or
imitates pycel.  Results are exact rationals; ``nearest_float`` gives the double a correct
implementation has to return for them.
"""
import math
from decimal import Decimal
from fractions import Fraction
from functools import lru_cache

ERRORS = ('#NULL!', '#DIV/0!', '#VALUE!', '#REF!', '#NAME?', '#NUM!', '#N/A')
NUM, DIV0, VALUE = '#NUM!', '#DIV/0!', '#VALUE!'


def is_num(v):
    return isinstance(v, (int, float)) and not isinstance(v, bool)


@lru_cache(maxsize=1024, typed=True)
def frac(x):
    """exact value of the shortest decimal rendering of x"""
    if isinstance(x, bool):
        return Fraction(int(x))
    if isinstance(x, int):
        return Fraction(x)
    if isinstance(x, float):
        if x != x or x in (math.inf, -math.inf):
            raise ValueError(f'not a finite number: {x!r}')
        return Fraction(Decimal(repr(x)))
    raise TypeError(f'not a number: {x!r}')


def binary(x):
    """exact value of the double / int itself"""
    return Fraction(x)


def nearest_float(q):
    """the double nearest to the rational q (int / int true division is correctly rounded)"""
    return q.numerator / q.denominator


def sign(q):
    return (q > 0) - (q < 0)


def _floor(q):
    return q.numerator // q.denominator


def _ceil(q):
    return -((-q.numerator) // q.denominator)


@lru_cache(maxsize=64)
def pow10(d):
    return Fraction(10) ** d


# ---------------------------------------------------------------- ROUND / ROUNDUP / ROUNDDOWN / TRUNC

@lru_cache(maxsize=64, typed=True)
def _on_grid(x, d):
    """(sign, whole steps, fractional step, step) of |x| measured in steps of 10**-d"""
    q = frac(x)
    unit = pow10(-d)
    a = abs(q) / unit
    n = _floor(a)
    return sign(q), n, a - n, unit


def to_grid(x, d, mode):
    """x moved to a multiple of 10**-d; mode 'half' (nearest, ties away from zero), 'down' (toward
    zero), 'up' (away from zero).  Returns the exact multiple."""
    sgn, n, rem, unit = _on_grid(x, d)
    if mode == 'half':
        if 2 * rem >= 1:
            n += 1
    elif mode == 'up':
        if rem:
            n += 1
    elif mode != 'down':
        raise ValueError(mode)
    return sgn * n * unit


def grid_fraction(x, d):
    """the fractional part of |x| / 10**-d (0 on a multiple, 1/2 on a tie)"""
    return _on_grid(x, d)[2]


def grid_position(x, d):
    """'multiple' | 'tie' | 'below-tie' | 'above-tie' of |x| on the grid 10**-d"""
    rem = _on_grid(x, d)[2]
    if rem == 0:
        return 'multiple'
    if 2 * rem == 1:
        return 'tie'
    return 'below-tie' if 2 * rem < 1 else 'above-tie'


# ---------------------------------------------------------------- INT / EVEN / ODD

def int_floor(x):
    return _floor(frac(x))


def even(x):
    q = frac(x)
    return sign(q) * 2 * _ceil(abs(q) / 2)


def odd(x):
    q = frac(x)
    a = abs(q)
    n = 1 if a <= 1 else 2 * _ceil((a - 1) / 2) + 1
    return n if q >= 0 else -n


# ---------------------------------------------------------------- multiples of a significance

def bracket(x, s):
    """(lower, upper): the adjacent multiples of |s| with lower <= x <= upper (equal iff x is a multiple)"""
    q, m = frac(x), abs(frac(s))
    return m * _floor(q / m), m * _ceil(q / m)


def ulp_tol(*values, ulps=8):
    """``ulps`` units in the last place of the largest magnitude among values, as an exact rational"""
    big = max(abs(float(v)) for v in values)
    return Fraction(math.ulp(big)) * ulps


def near_multiple(x, s, ulps=8):
    """a multiple M != x of |s| with |x - M| within float noise of x (x is 'almost' a multiple), or None"""
    q, m = frac(x), abs(frac(s))
    k = round(q / m)
    cand = k * m
    if cand != q and abs(cand - q) <= ulp_tol(x, cand, ulps=ulps):
        return cand
    return None


def almost_multiple(x, s):
    """x (decimal rendering) is an exact multiple of s, or so close to one (2**-44 relative on the
    quotient) that a quotient computed in doubles cannot tell: the inputs on which binary floating
    point and decimal arithmetic can disagree about floor(x/s)"""
    q = (x if isinstance(x, Fraction) else frac(x)) / (s if isinstance(s, Fraction) else frac(s))
    return abs(q - round(q)) <= Fraction(1, 2 ** 44) * max(1, abs(q))


def family_accept(func, x, s, mode=0):
    """acceptable outcomes of CEILING / FLOOR / .MATH / .PRECISE as a list of exact rationals and
    error codes.  Conventions (Excel documentation), permissive where Excel versions differ or the
    statement is silent:

    * significance 0: 0 or #DIV/0! for every member (Excel: FLOOR -> #DIV/0!, the others 0)
    * x == 0: 0
    * CEILING / FLOOR, same signs: CEILING away from zero, FLOOR toward zero
    * CEILING / FLOOR, x < 0 < s: the mathematical ceiling / floor (Excel >= 2010) or #NUM! (<= 2007)
    * CEILING / FLOOR, s < 0 < x: #NUM! (Excel) or the mathematical ceiling / floor on |s|
    * .MATH: sign of s ignored; mode 0 -> mathematical ceiling / floor, mode != 0 reverses the
      direction for negative x;  .PRECISE: sign of s ignored, mathematical ceiling / floor
    * x within 8 ulp of a multiple M (but not equal to it in decimal): M is accepted as well
    """
    q, sq = frac(x), frac(s)
    if sq == 0:
        return [Fraction(0), DIV0]
    if q == 0:
        return [Fraction(0)]
    lo, hi = bracket(x, s)
    kind = 'ceil' if func.startswith('CEILING') else 'floor'
    out = []
    if func in ('CEILING', 'FLOOR'):
        if q > 0 and sq > 0:
            out.append(hi if kind == 'ceil' else lo)
        elif q < 0 and sq < 0:
            out.append(lo if kind == 'ceil' else hi)
        else:
            out.append(hi if kind == 'ceil' else lo)
            out.append(NUM)
    elif func in ('CEILING.MATH', 'FLOOR.MATH'):
        up = kind == 'ceil'
        if mode and q < 0:
            up = not up
        out.append(hi if up else lo)
    elif func in ('CEILING.PRECISE', 'FLOOR.PRECISE'):
        out.append(hi if kind == 'ceil' else lo)
    else:
        raise ValueError(func)
    near = near_multiple(x, s)
    if near is not None:
        out.append(near)
    return out


# ---------------------------------------------------------------- MOD

def mod_quotients(n, d):
    """the reading of INT(n/d) in the identity n = d*INT(n/d) + MOD(n, d): what the formula INT(n/d) itself computes,
    the floor of the double quotient (the exact quotient of the decimal renderings only if that overflows).  A MOD
    which takes the quotient from exact decimal arithmetic (MOD(0.3, 0.1) = 0) does not go with the INT(0.3/0.1) = 2
    the same workbook computes: the identity is off by a whole divisor"""
    try:
        return [math.floor(float(n) / float(d))]
    except OverflowError:
        return [_floor(frac(n) / frac(d))]


def mod_clauses(n, d, m):
    """failed clauses of  MOD(n,d)=m  for d != 0: list of (clause, detail).
    identity: n = d*q + m within 8 ulp of max(|n|, |d*q|) for a reading q of INT(n/d);
    sign: m has the sign of d, a value within that tolerance of 0 counts as either sign."""
    nb, db, mb = binary(n), binary(d), binary(m)
    failed = []
    best = None
    for q in mod_quotients(n, d):
        tol = ulp_tol(n, float(db * q))
        resid = abs(nb - (db * q + mb))
        if best is None or resid / tol < best[0]:
            best = (resid / tol, q, resid, tol)
    _, q, resid, tol = best
    if resid > tol:
        failed.append(('identity', {'q': q, 'residual': float(resid), 'tolerance': float(tol),
                                    'residual_in_divisors': float(resid / abs(db))}))
    if abs(mb) > tol and sign(mb) != sign(db):
        failed.append(('sign', {'m': m, 'tolerance': float(tol)}))
    return failed


@lru_cache(maxsize=1024, typed=True)
def dyadic(x):
    """the double holds the decimal rendering exactly"""
    return binary(x) == frac(x)


# ---------------------------------------------------------------- argument coercion (scalar math arguments)

TEXT_NUMBERS = {'2.5': 2.5, '-3': -3, '12': 12, '0.29': 0.29, '25': 25, '-0.5': -0.5, '1': 1}
TEXT_NOT_NUMBERS = ('abc', '', '1 2', 'x1')


def coerce(v):
    """number | error code, for an argument of a math function: logicals count 1/0, a blank 0,
    numeric text its number, other text #VALUE!, an error value itself"""
    if isinstance(v, bool):
        return int(v)
    if v is None:
        return 0
    if is_num(v):
        return v
    if isinstance(v, str):
        if v in ERRORS:
            return v
        if v in TEXT_NUMBERS:
            return TEXT_NUMBERS[v]
        if v in TEXT_NOT_NUMBERS:
            return VALUE
    raise TypeError(f'argument outside the modelled pool: {v!r}')
