"""Reference model for C20 (text functions), written from the property statement only.

Every text function works on the *Excel rendering* of its argument (``render``): text as is,
logicals as TRUE/FALSE, blank as '', numbers in plain positional decimal notation without a
trailing ``.0`` (3, not 3.0; 0.00001, not 1e-05).  The slicing functions are python slicing on that
rendering; FIND / SUBSTITUTE are explicit left-to-right scans; TEXT is ``decimal`` arithmetic with
ROUND_HALF_UP on ``Decimal(repr(x))``.

Functions that can have more than one answer the statement allows return a *tuple of acceptable
results*; all others return the single expected result.  Nothing here imports pycel.
"""
import re
from decimal import Decimal, ROUND_HALF_EVEN, ROUND_HALF_UP

ERRORS = ('#NULL!', '#DIV/0!', '#VALUE!', '#REF!', '#NAME?', '#NUM!', '#N/A')
VALUE = '#VALUE!'


def is_error(v):
    return isinstance(v, str) and v in ERRORS


# --------------------------------------------------------------------------- rendering

def number_domain_ok(x):
    """numbers whose Excel rendering this model knows: 0 or 1e-6 <= |x| <= 1e6 with at most 15
    significant digits (the General format shows those in positional notation)"""
    if isinstance(x, bool) or not isinstance(x, (int, float)):
        return False
    if x != x or x in (float('inf'), float('-inf')):
        return False
    if x == 0:
        return str(x) in ('0', '0.0')          # no negative zero
    if not (1e-6 <= abs(x) <= 1e6):
        return False
    return len(Decimal(repr(x)).as_tuple().digits) <= 15


def render_number(x):
    assert number_domain_ok(x), x
    d = Decimal(repr(x))
    s = format(d, 'f')
    if '.' in s:
        s = s.rstrip('0').rstrip('.')
    return s


def render(v):
    """the text Excel uses for a scalar where a text is wanted"""
    if v is None:
        return ''
    if isinstance(v, bool):
        return 'TRUE' if v else 'FALSE'
    if isinstance(v, str):
        return v
    return render_number(v)


def kind(v):
    """input class of a scalar (used for counters and mechanism keys)"""
    if v is None:
        return 'blank'
    if isinstance(v, bool):
        return 'logical'
    if isinstance(v, str):
        return 'error' if v in ERRORS else 'text'
    if isinstance(v, int):
        return 'int'
    if float(v).is_integer():
        return 'integral-float'
    if 0 < abs(v) < 1e-4:
        return 'float-below-1e-4'
    return 'float'


# --------------------------------------------------------------------------- slicing

def length(v):
    return len(render(v))


def left(v, n=1):
    if n < 0:
        return VALUE
    return render(v)[:n]


def right(v, k=1):
    if k < 0:
        return VALUE
    r = render(v)
    return r[len(r) - min(k, len(r)):]


def mid(v, start, count):
    if start < 1 or count < 0:
        return VALUE
    r = render(v)
    return r[start - 1:start - 1 + count]


def replace(v, start, count, new):
    """= LEFT(s, start-1) & new & MID(s, start+count, LEN(s)); negative counts are #VALUE!"""
    if start < 1 or count < 0:
        return VALUE
    r = render(v)
    return r[:start - 1] + render(new) + r[start - 1 + count:]


def _first_match(needle, hay, start):
    for p in range(start, len(hay) - len(needle) + 2):
        if hay[p - 1:p - 1 + len(needle)] == needle:
            return p
    return None


def find(needle, hay, start=1):
    """tuple of acceptable answers.
    start < 1 -> #VALUE!;  non-empty needle: first p >= start with MID(hay, p, LEN(needle)) = needle,
    else #VALUE! (so also for start > LEN(hay)).  Empty needle: start for start <= LEN(hay) + 1; for
    start > LEN(hay) + 1 both `start` (MID(hay, start, 0) = "" holds) and #VALUE! (the documented
    "start_num greater than the length") are accepted.
    Where an exact and a case-insensitive reading of '=' give different first positions, both are
    accepted (Excel's '=' on texts ignores case, FIND itself does not)."""
    needle, hay = render(needle), render(hay)
    if start < 1:
        return (VALUE,)
    if needle == '':
        # (start = LEN(hay) + 1 is still a position of the text: MID(hay, start, 0) = "" there, and Excel itself
        # answers start; only beyond that the statement and the documented #VALUE! part ways)
        if start <= len(hay) + 1:
            return (start,)
        return (start, VALUE)
    exact = _first_match(needle, hay, start)
    loose = _first_match(needle.lower(), hay.lower(), start)
    out = [VALUE if exact is None else exact]
    if loose != exact and len(needle.lower()) == len(needle) and len(hay.lower()) == len(hay):
        out.append(VALUE if loose is None else loose)
    return tuple(out)


def self_overlapping(needle):
    """a needle that can overlap a shifted copy of itself (has a proper border), e.g. 'aa', 'aba'"""
    return any(needle[:k] == needle[-k:] for k in range(1, len(needle)))


def occurrences(needle, hay):
    """start indices (0 based) of the left-to-right non-overlapping occurrences"""
    assert needle
    out, i = [], 0
    while i + len(needle) <= len(hay):
        if hay[i:i + len(needle)] == needle:
            out.append(i)
            i += len(needle)
        else:
            i += 1
    return out


def substitute(v, old, new, instance=None):
    """tuple of acceptable answers; only defined for non-empty, not self-overlapping needles.
    instance None: every occurrence; instance i >= 1: exactly the i-th (text unchanged when there
    are fewer); instance < 1: there is no such occurrence - #VALUE! (Excel) or the unchanged text."""
    hay, old, new = render(v), render(old), render(new)
    assert old and not self_overlapping(old)
    occ = occurrences(old, hay)
    if instance is not None and instance < 1:
        return (VALUE, hay)
    if instance is not None:
        occ = occ[instance - 1:instance]
    out, last = [], 0
    for i in occ:
        out.append(hay[last:i])
        out.append(new)
        last = i + len(old)
    out.append(hay[last:])
    return (''.join(out),)


def trim(v):
    """single inner spaces, none at the ends (only U+0020 is a space for TRIM)"""
    return ' '.join(w for w in render(v).split(' ') if w)


# --------------------------------------------------------------------------- TEXT

FORMAT_RE = re.compile(r'^([#,]*)(0+)(?:\.(0+)(#*))?(%?)$')


def parse_format(fmt):
    """the narrow grammar  [#,]* 0+ ( . 0+ #* )? %?  ; commas only between two placeholders"""
    m = FORMAT_RE.match(fmt)
    if not m:
        return None
    lead, zeros, forced, optional, pct = m.groups()
    body = lead + zeros
    for i, c in enumerate(body):
        if c == ',' and (i == 0 or body[i - 1] not in '#0' or body[i + 1] not in '#0'):
            return None
    return {'grouping': ',' in lead, 'int_zeros': len(zeros), 'forced': len(forced or ''),
            'optional': len(optional or ''), 'point': forced is not None, 'percent': bool(pct)}


def text_scaled(x, fmt):
    """(scaled decimal value, number of decimals) TEXT has to round"""
    p = parse_format(fmt)
    d = Decimal(x) if isinstance(x, int) else Decimal(repr(x))
    if p['percent']:
        d *= 100
    return d, p['forced'] + p['optional']


def is_tie(x, fmt):
    d, places = text_scaled(x, fmt)
    return (abs(d).scaleb(places) % 1) == Decimal('0.5')


def text_number(x, fmt, binary_half_even=False):
    """tuple of acceptable renderings of the number x under fmt.
    binary_half_even=True is NOT the specification: it is the rendering obtained by rounding the binary
    double (multiplied by 100 in binary for %) half-even, used only to name that mechanism."""
    p = parse_format(fmt)
    assert p is not None, fmt
    d, places = text_scaled(x, fmt)
    rounding = ROUND_HALF_UP
    if binary_half_even:
        d = Decimal(x * 100 if p['percent'] else x)
        rounding = ROUND_HALF_EVEN
    q = abs(d).quantize(Decimal(1).scaleb(-places), rounding=rounding)
    s = format(q, 'f')
    ip, _, fp = s.partition('.')
    ip = ip.zfill(p['int_zeros'])
    if p['grouping']:
        groups = []
        while len(ip) > 3:
            groups.insert(0, ip[-3:])
            ip = ip[:-3]
        groups.insert(0, ip)
        ip = ','.join(groups)
    body = ip
    if p['point']:
        fp = fp.rstrip('0')
        fp += '0' * (p['forced'] - len(fp))
        body += '.' + fp
    if p['percent']:
        body += '%'
    if d < 0:
        if q == 0:
            # a negative number that rounds to zero: the statement does not fix the sign shown
            return ('-' + body, body)
        return ('-' + body,)
    return (body,)
