"""process entry point of one shard: python -m vp.shard C01 quick 0 16 0 out.json [--replay f]"""
import sys

from vp.core import shard_main

if __name__ == '__main__':
    shard_main(sys.argv[1:])
