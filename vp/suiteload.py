"""run the repository's own test-suite under the monitors of vp.suitemon and hand what they saw to a check"""
import json
import os
import subprocess

from vp import core


def run_suite(ctx, prop=None, timeout=900):
    """one pytest run of <repo>/tests with the plugin; findings for ``prop`` become violations of the calling check,
    the plugin's counters are added with the prefix ``suite:``"""
    prop = prop or ctx.prop
    out = os.path.join(ctx.tmpdir, 'suitemon.json')
    env = dict(os.environ, VP_SUITEMON_OUT=out, PYCEL_VERIF='1')
    env.pop('PYTHONWARNINGS', None)
    cmd = [core.PY, '-m', 'pytest', '-q', '-x', '--no-header', '-p', 'no:cacheprovider', '-p', 'vp.suitemon', 'tests']
    cmd.remove('-x')
    try:
        r = subprocess.run(cmd, cwd=core.REPO, env=env, capture_output=True, text=True, timeout=timeout)
    except subprocess.TimeoutExpired:
        ctx.count('suite:timed_out')
        return None
    ctx.count('suite:runs')
    if not os.path.exists(out):
        ctx.count('suite:no_result')
        ctx.note('pytest with vp.suitemon left no result: ' + (r.stdout + r.stderr)[-400:])
        return None
    with open(out) as f:
        res = json.load(f)
    for k, v in res['counters'].items():
        ctx.count('suite:' + k, v)
    if res.get('errors'):
        ctx.count('suite:monitor_errors', len(res['errors']))
        ctx.note('suitemon error: ' + res['errors'][0][-600:])
    tail = [ln for ln in r.stdout.splitlines() if ' passed' in ln or ' failed' in ln]
    ctx.note('repository suite under the monitors: ' + (tail[-1].strip() if tail else f'exit {r.returncode}'))
    n = 0
    for p, key, msg, test in res['found']:
        if p != prop:
            continue
        n += 1
        ctx.violation(key, f'{msg} [during {test}]', {'kind': 'suite', 'test': test, 'key': key, 'msg': msg})
    ctx.case(('suite-under-monitors', prop), n=1)
    return res
